#!/usr/bin/env python3
"""Generates /verif/MANIFEST.json from the table below and validates it against the schema."""
import json, subprocess, sys, os

VERIF = os.path.dirname(os.path.dirname(os.path.abspath(__file__)))
BASE = json.load(open('/root/.vp/BASELINE.json'))

# property -> (technique, level text, level note)
CLAIMS = {}

def claim(pid, technique, text, note, design):
    CLAIMS[pid] = dict(technique=technique, text=text, note=note, design=design)

NOT_APPLICABLE = {
    'C17': "value-level round-trip laws over all strings and agreement with go/build's evaluator; the splitters are character loops with no structural clause that is both sound and non-vacuous for static analysis (DESIGN.md §3 C17)",
}

exec(open(os.path.join(VERIF, 'tools', 'claims.py')).read())

props = [json.loads(l)['id'] for l in open(os.path.join(VERIF, 'properties.jsonl'))]
registered = subprocess.run([os.path.join(VERIF, 'bin', 'llgoverif'), 'list'], capture_output=True, text=True).stdout.split()

checks = []
na = []
for pid in props:
    if pid in CLAIMS and pid in registered:
        c = CLAIMS[pid]
        checks.append({
            'property_id': pid,
            'quick_cmd': f'bin/llgoverif check {pid} --tier quick',
            'thorough_cmd': f'bin/llgoverif check {pid} --tier thorough',
            'evidence_file': f'/verif/evidence/{pid}.json',
            'replay_cmd_template': 'bin/llgoverif replay {path}',
            'engine': 'llgoverif',
            'level_claimed': {'category': 'other', 'text': c['text'], 'design_ref': c['design']},
            'level_note': c['note'],
            'technique': c['technique'],
        })
    else:
        na.append({'property_id': pid, 'reason': NOT_APPLICABLE.get(pid, 'not claimed: no static rule for this property is implemented and validated yet (planned rules: DESIGN.md §3); claiming it now would be vacuous')})

m = {
    'version': 1,
    'setup_cmd': 'mkdir -p /verif/bin /verif/evidence && cd /verif/checker && GOFLAGS=-mod=mod GOPROXY=off GOTOOLCHAIN=local go1.26.8 build -o /verif/bin/llgoverif .',
    'hooks': {
        'guard': 'verif',
        'enable': 'none needed: the checker reads /repo source through go/packages (main module with -tags llvm14); no instrumentation is compiled into goplus/llgo',
        'baseline_off_cmd': BASE['cmd'],
        'source_commits': [],
        'add_only': True,
    },
    'engines': [{
        'name': 'llgoverif', 'path': '/verif/checker',
        'serves_properties': [c['property_id'] for c in checks],
        'kind_free_text': 'repository-specific static analyser (go/packages + go/types + go/cfg + go/ssa, x/tools v0.50.0): exhaustiveness, table agreement, attribute flow, CFG must-pass/dominance, lockset/wake discipline, order-domain abstract evaluation, cross-module contract, local taint, data conformance',
    }],
    'checks': checks,
    'not_applicable': na,
    'notes': 'All claims are level "other": structural necessary conditions decided from source for all paths/rows/fields/sites; no llgo-compiled code is executed and no solver is used. thorough = quick rules + extra build configurations + overlay self-test mutants. Known findings: /verif/known_findings.txt.',
}
json.dump(m, open(os.path.join(VERIF, 'MANIFEST.json'), 'w'), indent=1)
try:
    import jsonschema
    jsonschema.validate(m, json.load(open('/root/.vp/MANIFEST.schema.json')))
    print('MANIFEST.json valid;', len(checks), 'checks,', len(na), 'not applicable')
except ImportError:
    print('jsonschema not available; written without validation')
