#!/usr/bin/env python3
"""Generates /verif/MANIFEST.json from the table below and validates it against the schema."""
import json, subprocess, sys, os

VERIF = os.path.dirname(os.path.dirname(os.path.abspath(__file__)))
BASE = json.load(open('/root/.vp/BASELINE.json'))

# property -> (technique, level text, level note)
CLAIMS = {}

def claim(pid, technique, text, note, design):
    CLAIMS[pid] = dict(technique=technique, text=text, note=note, design=design)

NOT_APPLICABLE = {
}

exec(open(os.path.join(VERIF, 'tools', 'claims.py')).read())

# rules added after the blind third seeding batch: (technique suffix, text suffix)
EXTRA = {
 'C01': ('load-placement rule (no look-through of a defining load) + straight-line emitter rule', 'Also decided: no lowering arm replaces a loaded operand by a later re-read of the load\'s address (R01.8; two known findings: range over an array variable, boxing of >1 MiB values), and Alloc/Load/Store/zero-init emit at the current insertion point (R01.9).'),
 'C02': ('flow-sensitive source-type rule + single-rounding template', 'Also decided: the source type handed to castInt is the operand\'s type as it was before any overwrite (CFG reachability from assignments to X.Type), and integer->float conversion is one uitofp/sitofp to the destination width chosen by source signedness (R02.7).'),
 'C03': ('CFG must-pass for the null_pointer_is_valid attribute', 'Also decided: every function created with a Go background gets null_pointer_is_valid on every path of NewFuncEx (R03.8).'),
 'C04': ('counter-advance must-pass rule', 'Also decided: a next* counter read as an identifier (defer statement id, condition bit) is advanced on every returning path after the read (R04.7).'),
 'C05': ('codec arm self-consistency rule', 'Also decided: in decoderune/encoderune the width tested, the continuation bytes checked, the bytes combined, the position advance and the returned length agree per arm; decoding errors resume at start+1; overlong, surrogate and out-of-range values are rejected by the arm of their width (R05.6).'),
 'C06': ('empty-stub rule over the map code\'s callees + CFG write-protocol rules + partial evaluation of the emptyRest guard + sibling dispatch rule', 'Also decided: no same-package callee of the map code is an empty stub (R06.7); write flag set after hashing and cleared before every return, growWork before bucket selection while growing, h.count updated with the slot, emptyRest stored only after the next chain position was consulted - for the last slot through the overflow bucket (R06.8); both interface hash functions hash the data word for pointer-shaped types and the pointee otherwise (R06.9).'),
 'C07': ('CFG must-pass through types.NewMethodSet', 'Also decided: every arm of abiUncommonMethodSet for a kind that can carry methods reaches its result only through types.NewMethodSet (R07.6).'),
 'C08': ('accumulation-order rule + exact-comparison rule for layout reuse', 'Also decided: Offsetsof adds a field\'s own closure words only after recording its offset; a cached LLVM struct is reused for another named type only on field-type identity (R08.8); the struct arm of PtrBytes keeps (field, prefix) together.'),
 'C10': ('zeroed-slot definition rule + constant-argument rule on select probes', 'Also decided: every receive destination handed to the runtime is a zero-initialising allocation (R10.8); every receive probe that accepts registered select-senders gets the select\'s own send-channel set and each probing order covers both directions (R10.9).'),
 'C11': ('all-definitions heap rule + lookup/insert atomicity on the CFG', 'Also decided: every definition of the record handed to pthreadCreate is a GC-heap allocation; get-or-create of per-address wait state has no unlock between the failed lookup and the insert (R11.8).'),
 'C12': ('linkage rule for replaceable fallbacks', 'Also decided: link-time replaceable initialiser fallbacks are weak, never ODR/inlinable (R12.3).'),
 'C13': ('who-may-call rule (os.Lstat) + CFG must-pass for the compiler hash', 'Also decided: input-file digests use os.Stat, never os.Lstat (R13.9); flags.UpdateConfig assigns Config.CompilerHash on every successful path (R13.10).'),
 'C14': ('separator rule on symbol ownership + lookup-after-load dominance + receiver-package flow into wrapper names', 'Also decided: a symbol is attributed to a package by path+"." (R14.5); link names are looked up only after ensureLoaded registered the package\'s directives (R14.6); the receiver\'s own package enters the names of $bound/$thunk wrappers.'),
 'C15': ('component-link rule + spelling rules (map key, chan of receive-only chan, struct tags, named pointer types) + ordering rule in DeepEqual', 'Also decided: every descriptor link to a component type goes through abi.PublicType (R15.5); map keys are star-aware, chan (<-chan T) is parenthesised, struct tags are printed, defined pointer types carry no star flag (R15.4); DeepEqual compares slice lengths before the same-array shortcut (R15.6).'),
 'C16': ('raw-comment-text rule + quoted-directory rule + per-iteration flag scope + unadjusted-position rule', 'Also decided: //go:embed is recognised only at the start of the comment text (R16.4); the package directory is quoted in the glob (R16.5); the all: flag is per pattern; file positions ignore //line directives (R16.6).'),
 'C18': ('error-tested-before-store rule on Loader maps', 'Also decided: a value produced together with an error is stored in a Loader map only after the error was tested (R18.7).'),
 'C19': ('cache-hit re-typing rule + grouping-key rule + finite evaluation of the notInit name predicate', 'Also decided: Python callees are typed with the signature of the Go declaration used at the call (R19.5); each symbol is grouped under its own module (R19.6); only names ending in .init are skipped when placing the binding code (R19.7).'),
 'C20': ('per-argument taint sinks', "Also decided: every tainted argument of a file-system call needs its own guard - the guard on a link's location does not cover the link's target."),
}
for pid, (tq, tx) in EXTRA.items():
    if pid in CLAIMS:
        CLAIMS[pid]['technique'] += ' + ' + tq
        CLAIMS[pid]['text'] += ' ' + tx

EXTRA3 = {'C02': ' R02.8: unary minus on float/complex is fneg per part, never 0 - x.', 'C05': ' R05.7: StringEqual compares lengths before any data-pointer shortcut.', 'C06': ' Also: in evacuate the X/Y half of a NaN key is taken from the old tophash before a new one is drawn.', 'C07': ' R07.7: runtime.Implements scans the complete method table and rejects a nil dynamic type first; cl.typeArgName qualifies named type arguments by package path; the nil-check-only fast path of TypeAssert is limited to type identity.', 'C09': ' R09.8: no store through a reinterpreting cast in the rewriter; R09.9: in ModeCFunc callbacks of every C function are wrapped.', 'C10': ' R10.10: selectOp.notify sets the flag before it signals.', 'C11': ' R11.9: notifyListNotifyOne compares the tickets under the lock before advancing; R11.10: atomic.AddT returns rmw result + delta from one access.', 'C13': ' R13.11: saveToCache follows every step that completes the recorded link arguments.', 'C14': " R14.7: the synthetic name of a local type keeps its declaration position; R14.8: a descriptor's method table is built after its common fields.", 'C15': ' R15.7: method tables must list exported methods first (known finding F30); R15.8: Value.Field inherits exactly flagStickyRO|flagIndir|flagAddr.', 'C03': " The nil-check-only fast path of TypeAssert is limited to the operand's own type."}
for pid, tx in EXTRA3.items():
    if pid in CLAIMS:
        CLAIMS[pid]['text'] += tx

EXTRA4 = {'C04': ' R04.8: every call lowering in cl.callEx goes through emitDo (defers inside range-over-func bodies reach the enclosing frame).', 'C08': " R08.9: descriptor field offsets come from the raw LLVM struct; a struct's alignment is the maximum over all fields, blank ones included.", 'C12': ' R12.4: the package kinds at or above the no-init threshold are exactly the kinds without an initialiser.', 'C13': ' R13.12: every field of the cached package metadata is restored when the manifest is parsed.', 'C16': ' R16.7: a path is outside the package directory only for ".." or a ".."+separator prefix.', 'C18': " R18.8: every value shipped target descriptions use for a field is accepted by validateConfig's enumeration of that field.", 'C19': ' R19.8: slices passed to the Python C API are (data, len); the after-init insertion point is anchored on the init-guard store.', 'C20': ' R20.6: the staging directory is wiped recursively before use and a failing external tar is always an error.'}
for pid, tx in EXTRA4.items():
    if pid in CLAIMS:
        CLAIMS[pid]['text'] += tx

EXTRA5 = {'C15': ' R15.9: reflect.makeInt reduces a converted integer to the width and signedness of the destination kind before storing it inline.', 'C19': ' R19.9: a Go string reaches a NUL-terminated CPython constructor (PyUnicode_FromString) only on paths whose conditions exclude a NUL byte; the other path uses a constructor that receives the length.'}
for pid, tx in EXTRA5.items():
    if pid in CLAIMS:
        CLAIMS[pid]['text'] += tx

props = [json.loads(l)['id'] for l in open(os.path.join(VERIF, 'properties.jsonl'))]
registered = subprocess.run([os.path.join(VERIF, 'bin', 'llgoverif'), 'list'], capture_output=True, text=True).stdout.split()

checks = []
na = []
for pid in props:
    if pid in CLAIMS and pid in registered:
        c = CLAIMS[pid]
        checks.append({
            'property_id': pid,
            'quick_cmd': f'bin/llgoverif check {pid} --tier quick',
            'thorough_cmd': f'bin/llgoverif check {pid} --tier thorough',
            'evidence_file': f'/verif/evidence/{pid}.json',
            'replay_cmd_template': 'bin/llgoverif replay {path}',
            'engine': 'llgoverif',
            'level_claimed': {'category': 'other', 'text': c['text'], 'design_ref': c['design']},
            'level_note': c['note'],
            'technique': c['technique'],
        })
    else:
        na.append({'property_id': pid, 'reason': NOT_APPLICABLE.get(pid, 'not claimed: no static rule for this property is implemented and validated yet (planned rules: DESIGN.md §3); claiming it now would be vacuous')})

m = {
    'version': 1,
    'setup_cmd': 'mkdir -p /verif/bin /verif/evidence && cd /verif/checker && GOFLAGS=-mod=mod GOPROXY=off GOTOOLCHAIN=local go1.26.8 build -o /verif/bin/llgoverif .',
    'hooks': {
        'guard': 'verif',
        'enable': 'none needed: the checker reads /repo source through go/packages (main module with -tags llvm14); no instrumentation is compiled into goplus/llgo',
        'baseline_off_cmd': BASE['cmd'],
        'source_commits': [],
        'add_only': True,
    },
    'engines': [{
        'name': 'llgoverif', 'path': '/verif/checker',
        'serves_properties': [c['property_id'] for c in checks],
        'kind_free_text': 'repository-specific static analyser (go/packages + go/types + go/cfg + go/ssa, x/tools v0.50.0): exhaustiveness, table agreement, attribute flow, CFG must-pass/dominance, lockset/wake discipline, order-domain abstract evaluation, cross-module contract, local taint, data conformance',
    }],
    'checks': checks,
    'not_applicable': na,
    'notes': 'All claims are level "other": structural necessary conditions decided from source for all paths/rows/fields/sites; no llgo-compiled code is executed and no solver is used. thorough = quick rules + extra build configurations + overlay self-test mutants. Known findings: /verif/known_findings.txt.',
}
json.dump(m, open(os.path.join(VERIF, 'MANIFEST.json'), 'w'), indent=1)
try:
    import jsonschema
    jsonschema.validate(m, json.load(open('/root/.vp/MANIFEST.schema.json')))
    print('MANIFEST.json valid;', len(checks), 'checks,', len(na), 'not applicable')
except ImportError:
    print('jsonschema not available; written without validation')
