#!/usr/bin/env python3
"""Regenerates DESIGN.md section 3.1 (rules and instance counts) from /verif/evidence/*.json."""
import json, glob, re, os
root = os.path.dirname(os.path.dirname(os.path.abspath(__file__)))
out = []
for f in sorted(glob.glob(os.path.join(root, 'evidence', 'C*.json'))):
    e = json.load(open(f))
    rules = e['coverage'].get('rules') or []
    if not rules:
        continue
    out.append('#### %s\n' % e['property_id'])
    out.append('| rule | decides | instances today (floor) |\n|---|---|---|')
    for r in sorted(rules, key=lambda r: [int(x) for x in re.findall(r'\d+', r['id'])]):
        out.append('| %s | %s | %d (%d) |' % (r['id'], r['desc'].replace('|', '/'), r['instances'], r['min_instances']))
    out.append('')
p = os.path.join(root, 'DESIGN.md')
s = open(p).read()
a = s.index('### 3.1 Rules and instance counts')
a = s.index('\n', a) + 1
b = s.index('--------', a)
s = s[:a] + '\n' + '\n'.join(out) + '\n' + s[b:]
open(p, 'w').write(s)
print('rules table regenerated:', sum(1 for l in out if l.startswith('| R')), 'rules')
