#!/bin/bash
# usage: seed_regress.sh [seed...] ; for every stored seed: apply to /repo, run the quick check of its
# own property (plus listed cross-properties), record which rules report it, revert.  Writes seeded/REGRESS.tsv
cd /verif
declare -A extra=( [C01-2]="C07" [C14-1]="C07" [C08-2]="C06" [C05-1]="C03" [C05-4]="C02" [C01-3]="C03" [C05-6]="C03" [C01-6]="C02" [C15-6]="C07" [C01-5]="C03 C07" [C03-6]="C07" [C12-5]="C19" [C19-5]="C13" )
seeds=${@:-$(ls seeded | grep -E '^C[0-9]+-[0-9]+$')}
out=seeded/REGRESS.tsv; : > $out
for s in $seeds; do
  p=${s%-*}
  cd /repo; git diff --quiet || { echo "repo dirty"; exit 2; }
  if ! { git apply /verif/seeded/$s/patch.diff 2>/dev/null || patch -p1 -F3 -s < /verif/seeded/$s/patch.diff >/dev/null 2>&1; }; then
     git checkout -- . ; git clean -fdq; printf "%s\tSTALE\t-\n" $s >> /verif/$out; continue; fi
  rules=""
  for q in $p ${extra[$s]}; do
     r=$(cd /verif && bin/llgoverif check $q 2>&1 | grep -E "VIOLATED|UNDECIDED" | grep -oE "R[0-9]+\.[0-9]+" | sort -u | tr '\n' ',' )
     [ -n "$r" ] && rules="$rules$q:$r "
  done
  git checkout -- . ; git clean -fdq; find . -name "*.orig" -delete
  if [ -n "$rules" ]; then printf "%s\tCAUGHT\t%s\n" $s "$rules" >> /verif/$out; else printf "%s\tMISSED\t-\n" $s >> /verif/$out; fi
done
cd /verif; cat $out
