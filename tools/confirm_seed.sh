#!/bin/bash
# usage: confirm_seed.sh <Cxx> <k> [--nosuite]
# Confirms a sub-agent's seeded defect in its scratch worktree /tmp/seed/<Cxx> and, if confirmed, stores it under /verif/seeded/<Cxx>-<k>/.
id=$1; k=$2; nosuite=$3; copyto=$4   # copyto: repo-relative dir the demo *_test.go files are copied to before running the demo
wt=/tmp/seed/$id; sd=/tmp/seed/out/$id/$k; log=/tmp/seed/confirm_$id-$k.log
export GOFLAGS=-mod=mod GOPROXY=off
: > $log
cd $wt || exit 2
git checkout -q -- . ; git clean -fdq
demo=$(python3 -c "import json;print(json.load(open('$sd/meta.json'))['demo_cmd'])")
summ() { grep -E "^(ok|FAIL|---)" "$1" | sed -E 's/\t[0-9.]+s$//; s/ \([0-9.]+s\)$//; s/\(cached\)//' | sort -u; }
cpdemo() { if [ -n "$copyto" ]; then cp $sd/demo/*_test.go $wt/$copyto/; fi; }
echo "### demo on clean tree: $demo" >> $log
cpdemo
( cd $wt && timeout 900 bash -c "$demo" ) >> $log 2>&1; clean_rc=$?
git checkout -q -- . ; git clean -fdq
git apply $sd/patch.diff >> $log 2>&1 || { echo "$id-$k: PATCH DOES NOT APPLY"; exit 3; }
echo "### build with patch" >> $log
( go build -tags llvm14 ./ssa/... ./cl/... ./internal/... ./cmd/... ./xtool/... && cd runtime && GOTOOLCHAIN=go1.24.0 go build ./... ) >> $log 2>&1; build_rc=$?
echo "### demo with patch" >> $log
cpdemo
( cd $wt && timeout 900 bash -c "$demo" ) >> $log 2>&1; patched_rc=$?
git clean -fdq
suite=skipped
if [ -z "$nosuite" ]; then
  echo "### suite with patch" >> $log
  (for m in . runtime; do (cd $m && go test -mod=mod -vet=off -count=1 -timeout 25m ./... 2>&1); done) > /tmp/seed/suite_$id-$k.log
  summ /tmp/seed/base_suite.log > /tmp/seed/base.sum; summ /tmp/seed/suite_$id-$k.log > /tmp/seed/cur.sum
  newfail=$(comm -13 /tmp/seed/base.sum /tmp/seed/cur.sum | grep -E "^(FAIL|---)" )
  if [ -z "$newfail" ]; then suite=same-as-baseline; else suite="NEW FAILURES: $newfail"; fi
  rm -f /tmp/seed/suite_$id-$k.log
fi
git checkout -q -- . ; git clean -fdq
echo "$id-$k: demo_clean_rc=$clean_rc build_rc=$build_rc demo_patched_rc=$patched_rc suite=$suite"
if [ $clean_rc -eq 0 ] && [ $build_rc -eq 0 ] && [ $patched_rc -ne 0 ] && { [ "$suite" = same-as-baseline ] || [ "$suite" = skipped ]; }; then
  out=/verif/seeded/$id-$k; rm -rf $out; mkdir -p $out
  cp $sd/patch.diff $out/; cp -r $sd/demo $out/demo
  python3 - <<P
import json
m=json.load(open('$sd/meta.json'))
m['confirmed_by_main']={'base_commit':'61d4653','demo_on_clean_tree_rc':$clean_rc,'demo_with_patch_rc':$patched_rc,'build_with_patch_rc':$build_rc,'full_suite_with_patch':'$suite','ran':'tools/confirm_seed.sh $id $k (clean demo, apply, build -tags llvm14 + runtime, demo, full suite vs baseline log, revert) in scratch worktree /tmp/seed/$id'}
json.dump(m,open('$out/meta.json','w'),indent=1)
P
  echo "  stored in $out"
else
  echo "  NOT CONFIRMED (see $log)"
fi
