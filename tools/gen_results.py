#!/usr/bin/env python3
"""Generates seeded/RESULTS.md from seeded/FIRST_RUN.tsv (verdict of the check as it stood when the seed was
first applied), seeded/REGRESS.tsv (tools/seed_regress.sh on the current tree) and each seed's meta.json."""
import json, os, collections
root = os.path.dirname(os.path.dirname(os.path.abspath(__file__)))
sd = os.path.join(root, 'seeded')
def tsv(name):
    out = {}
    for l in open(os.path.join(sd, name)):
        if l.startswith('#') or not l.strip():
            continue
        f = l.rstrip('\n').split('\t')
        out[f[0]] = f[1:]
    return out
first, now = tsv('FIRST_RUN.tsv'), tsv('REGRESS.tsv')
seeds = sorted(d for d in os.listdir(sd) if os.path.isdir(os.path.join(sd, d)))
rows = []
for s in seeds:
    m = json.load(open(os.path.join(sd, s, 'meta.json')))
    summ = m['summary'].replace('|', '/').replace('\n', ' ')
    summ = summ.split('. ')[0]
    if len(summ) > 170:
        summ = summ[:167] + '...'
    fr = first.get(s, ['?', ''])
    nw = now.get(s, ['?', '-'])
    rows.append((s, summ, fr[0], fr[1] if len(fr) > 1 else '', nw[0], nw[1] if len(nw) > 1 else '-'))
c_first = collections.Counter(r[2] for r in rows)
c_now = collections.Counter(r[4] for r in rows)
out = ['# Seeded defects (produced by sub-agents, confirmed by tools/confirm_seed.sh) vs the checks', '',
       '* "first run": verdict of the check as it stood when the seed was first applied (`not-blind` = the check was written after the seed\'s summary had been seen).',
       '* "now": `tools/seed_regress.sh` on the current tree - the patch is applied to /repo, the quick check of the property (and listed cross-properties) runs, the patch is reverted.',
       '* STALE = the patch no longer applies because a `fix:` commit rewrote the lines it touches; the equivalent overlay mutant is named in DESIGN.md.', '',
       '| seed | change | first run | now | rules reporting it now |', '|---|---|---|---|---|']
for r in rows:
    out.append('| %s | %s | %s | %s | %s |' % (r[0], r[1], r[2], r[4].lower(), r[5].strip().rstrip(',')))
blind = [r for r in rows if r[2] in ('caught', 'missed')]
out += ['', '## Totals', '',
        '* seeds: %d; first run: %s' % (len(rows), ', '.join('%s %d' % kv for kv in sorted(c_first.items()))),
        '* blind first runs: %d, of which caught %d, missed %d' % (len(blind), sum(1 for r in blind if r[2] == 'caught'), sum(1 for r in blind if r[2] == 'missed')),
        '* now: %s' % ', '.join('%s %d' % (k.lower(), v) for k, v in sorted(c_now.items())), '']
open(os.path.join(sd, 'RESULTS.md'), 'w').write('\n'.join(out))
print('\n'.join(out[-5:]))
