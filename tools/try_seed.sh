#!/bin/bash
# usage: try_seed.sh <patch.diff> <prop>... ; applies the patch to /repo, runs the quick checks, reverts.
patch=$(readlink -f $1); shift
cd /repo || exit 2
if ! git diff --quiet; then echo "repo dirty"; exit 2; fi
git apply "$patch" 2>/dev/null || patch -p1 -F3 -s < "$patch" || { echo "PATCH DOES NOT APPLY"; git checkout -- .; git clean -fdq; exit 3; }
for p in "$@"; do (cd /verif && bin/llgoverif check $p 2>&1 | grep -E "VIOLATED|UNDECIDED|VIOLATION|tier=|could not" | grep -v "^VIOLATION" | head -8); done
git checkout -- . && git clean -fdq; find . -name "*.orig" -delete
