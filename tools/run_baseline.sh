#!/bin/bash
# Runs the pinned baseline suite (command from /root/.vp/BASELINE.json) against /repo and compares the set of
# passing tests with BASELINE.json's stable_pass list.  Not part of any check; used after fix: commits.
out=${1:-/tmp/baseline_run.json}
: > $out
for m in $(cat /w/out/gomods.txt); do MF=$(cd /repo/$m && . /w/out/goenv.sh && gomodflag); (cd /repo/$m && go test $MF -json -vet=off -count=1 -timeout 25m ./...) >> $out 2>/dev/null; done
python3 - "$out" <<'P'
import json,sys
base=set(json.load(open('/root/.vp/BASELINE.json'))['stable_pass'])
passed=set()
for l in open(sys.argv[1]):
    try: e=json.loads(l)
    except Exception: continue
    if e.get('Action')=='pass' and e.get('Test'):
        passed.add(e['Package']+'::'+e['Test'])
missing=sorted(base-passed)
print('baseline',len(base),'passed now',len(passed),'missing',len(missing))
for m in missing[:40]: print('  MISSING',m)
P
