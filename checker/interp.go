package main

// Engine E6: abstract evaluation of small, loop-free runtime/emitter functions over a finite domain
// (one representative valuation per weak ordering of their integer inputs, under several scalings).
// The checker interprets the function's AST itself; nothing of /repo is compiled or executed.

import (
	"fmt"
	"go/ast"
	"go/constant"
	"go/token"
	"go/types"
	"sort"
	"strings"
)

type vkind int

const (
	vInt vkind = iota
	vBool
	vNil
	vOpaque
	vStruct
	vTuple
	vStr
)

type val struct {
	k   vkind
	i   int64
	b   bool
	tag string
	f   map[string]*val
	tup []*val
	// arith: produced by arithmetic on inputs (not a plain input/constant): a branch on it is only
	// order-invariant for difference-vs-zero tests; recorded for the purity note
	arith bool
}

func ivInt(i int64) *val      { return &val{k: vInt, i: i} }
func ivBool(b bool) *val      { return &val{k: vBool, b: b} }
func ivOpaque(t string) *val  { return &val{k: vOpaque, tag: t} }
func ivStruct(f map[string]*val) *val { return &val{k: vStruct, f: f} }

func (v *val) String() string {
	if v == nil {
		return "<nil>"
	}
	switch v.k {
	case vInt:
		return fmt.Sprint(v.i)
	case vBool:
		return fmt.Sprint(v.b)
	case vNil:
		return "nil"
	case vOpaque:
		return v.tag
	case vStr:
		return fmt.Sprintf("%q", v.tag)
	case vStruct:
		var ks []string
		for k := range v.f {
			ks = append(ks, k)
		}
		sort.Strings(ks)
		var parts []string
		for _, k := range ks {
			parts = append(parts, k+":"+v.f[k].String())
		}
		return "{" + strings.Join(parts, " ") + "}"
	case vTuple:
		var parts []string
		for _, t := range v.tup {
			parts = append(parts, t.String())
		}
		return "(" + strings.Join(parts, ", ") + ")"
	}
	return "?"
}

func (v *val) clone() *val {
	if v == nil {
		return nil
	}
	c := *v
	if v.f != nil {
		c.f = map[string]*val{}
		for k, x := range v.f {
			c.f[k] = x.clone()
		}
	}
	return &c
}

type hookFn func(it *interp, call *ast.CallExpr, args []*val) (*val, bool)

type outcome struct {
	Panicked  bool
	PanicTag  string
	Results   []*val
	Err       string // non-empty: the function left the interpretable fragment (undecided)
	Calls     []string
	ArithCond bool
	Final     map[string]*val // parameter values at exit (the interpreter's view of *T parameters is by reference within one call)
}

type interp struct {
	info    *types.Info
	env     map[types.Object]*val
	hooks   map[string]hookFn // by callee short name
	out     *outcome
	results []types.Object // named results
	done    bool
	steps   int
	decls   map[string]*ast.FuncDecl // callee short name -> declaration, interpreted in place when no hook applies
	depth   int
}

type interpPanic struct{ tag string }
type interpErr struct{ msg string }

func (it *interp) fail(format string, a ...any) { panic(interpErr{fmt.Sprintf(format, a...)}) }

// runFunc interprets fd with the given argument values (by parameter order, receiver first if any).
func runFunc(info *types.Info, fd *ast.FuncDecl, args []*val, hooks map[string]hookFn) (out *outcome) {
	return runFuncEx(info, fd, args, hooks, nil, 0)
}

func runFuncEx(info *types.Info, fd *ast.FuncDecl, args []*val, hooks map[string]hookFn, decls map[string]*ast.FuncDecl, depth int) (out *outcome) {
	it := &interp{info: info, env: map[types.Object]*val{}, hooks: hooks, out: &outcome{}, decls: decls, depth: depth}
	out = it.out
	var params []*ast.Ident
	defer func() {
		out.Final = map[string]*val{}
		for _, p := range params {
			out.Final[p.Name] = it.env[info.Defs[p]]
		}
		if r := recover(); r != nil {
			switch e := r.(type) {
			case interpPanic:
				out.Panicked, out.PanicTag = true, e.tag
			case interpErr:
				out.Err = e.msg
			default:
				panic(r)
			}
		}
	}()
	if fd.Recv != nil {
		for _, f := range fd.Recv.List {
			params = append(params, f.Names...)
		}
	}
	for _, f := range fd.Type.Params.List {
		params = append(params, f.Names...)
	}
	if len(params) != len(args) {
		it.fail("arity: %d params, %d args", len(params), len(args))
	}
	for i, p := range params {
		if _, isPtr := info.Defs[p].Type().Underlying().(*types.Pointer); isPtr {
			it.env[info.Defs[p]] = args[i] // *T: the callee sees and updates the caller's object
		} else {
			it.env[info.Defs[p]] = args[i].clone()
		}
	}
	if fd.Type.Results != nil {
		for _, f := range fd.Type.Results.List {
			for _, n := range f.Names {
				o := info.Defs[n]
				it.env[o] = it.zero(o.Type())
				it.results = append(it.results, o)
			}
		}
	}
	it.block(fd.Body.List)
	if !it.done {
		// fell off the end: named results
		for _, o := range it.results {
			out.Results = append(out.Results, it.env[o])
		}
	}
	return out
}

func (it *interp) zero(t types.Type) *val {
	switch u := t.Underlying().(type) {
	case *types.Basic:
		switch {
		case u.Info()&types.IsBoolean != 0:
			return ivBool(false)
		case u.Info()&types.IsInteger != 0:
			return ivInt(0)
		case u.Info()&types.IsString != 0:
			return &val{k: vStr}
		case u.Kind() == types.UnsafePointer:
			return &val{k: vNil}
		}
		return ivOpaque("zero")
	case *types.Pointer, *types.Slice, *types.Map, *types.Chan, *types.Signature, *types.Interface:
		return &val{k: vNil}
	case *types.Struct:
		f := map[string]*val{}
		for i := 0; i < u.NumFields(); i++ {
			f[u.Field(i).Name()] = it.zero(u.Field(i).Type())
		}
		return ivStruct(f)
	}
	return ivOpaque("zero")
}

func (it *interp) block(list []ast.Stmt) {
	for _, s := range list {
		if it.done {
			return
		}
		it.stmt(s)
	}
}

func (it *interp) stmt(s ast.Stmt) {
	it.steps++
	if it.steps > 10000 {
		it.fail("step limit")
	}
	switch x := s.(type) {
	case *ast.BlockStmt:
		it.block(x.List)
	case *ast.ExprStmt:
		it.expr(x.X)
	case *ast.DeclStmt:
		gd, ok := x.Decl.(*ast.GenDecl)
		if !ok {
			it.fail("decl")
		}
		for _, sp := range gd.Specs {
			vs, ok := sp.(*ast.ValueSpec)
			if !ok {
				continue // const/type declarations carry no run-time effect
			}
			for i, n := range vs.Names {
				o := it.info.Defs[n]
				if o == nil {
					continue
				}
				if i < len(vs.Values) {
					it.env[o] = it.expr(vs.Values[i]).clone()
				} else {
					it.env[o] = it.zero(o.Type())
				}
			}
		}
	case *ast.AssignStmt:
		it.assign(x)
	case *ast.IncDecStmt:
		v := it.expr(x.X)
		d := int64(1)
		if x.Tok == token.DEC {
			d = -1
		}
		it.store(x.X, &val{k: vInt, i: v.i + d, arith: true})
	case *ast.IfStmt:
		if x.Init != nil {
			it.stmt(x.Init)
		}
		c := it.expr(x.Cond)
		if c.k != vBool {
			it.fail("non-boolean condition %s", exprStr(x.Cond))
		}
		if c.b {
			it.block(x.Body.List)
		} else if x.Else != nil {
			it.stmt(x.Else)
		}
	case *ast.ReturnStmt:
		if len(x.Results) == 0 {
			for _, o := range it.results {
				it.out.Results = append(it.out.Results, it.env[o])
			}
		} else {
			for _, r := range x.Results {
				v := it.expr(r)
				if v.k == vTuple {
					it.out.Results = append(it.out.Results, v.tup...)
				} else {
					it.out.Results = append(it.out.Results, v.clone())
				}
			}
		}
		it.done = true
	case *ast.SwitchStmt:
		if x.Init != nil {
			it.stmt(x.Init)
		}
		var tag *val
		if x.Tag != nil {
			tag = it.expr(x.Tag)
		}
		var def *ast.CaseClause
		for _, cs := range x.Body.List {
			cc := cs.(*ast.CaseClause)
			if cc.List == nil {
				def = cc
				continue
			}
			for _, e := range cc.List {
				v := it.expr(e)
				hit := false
				if tag == nil {
					hit = v.k == vBool && v.b
				} else {
					hit = v.k == tag.k && v.i == tag.i && v.b == tag.b && v.tag == tag.tag
				}
				if hit {
					it.block(cc.Body)
					return
				}
			}
		}
		if def != nil {
			it.block(def.Body)
		}
	case *ast.ForStmt:
		if x.Init != nil {
			it.stmt(x.Init)
		}
		for n := 0; ; n++ {
			if n > 64 {
				it.fail("loop does not terminate within 64 iterations on this valuation")
			}
			if x.Cond != nil {
				c := it.expr(x.Cond)
				if c.k != vBool {
					it.fail("non-boolean loop condition")
				}
				if !c.b {
					break
				}
			}
			it.block(x.Body.List)
			if it.done {
				return
			}
			if x.Post != nil {
				it.stmt(x.Post)
			}
		}
	case *ast.EmptyStmt:
	default:
		it.fail("unsupported statement %T", s)
	}
}

func (it *interp) assign(x *ast.AssignStmt) {
	var vals []*val
	if len(x.Rhs) == 1 && len(x.Lhs) > 1 {
		v := it.expr(x.Rhs[0])
		if v.k != vTuple || len(v.tup) != len(x.Lhs) {
			it.fail("tuple assignment from %s", exprStr(x.Rhs[0]))
		}
		vals = v.tup
	} else {
		for _, r := range x.Rhs {
			vals = append(vals, it.expr(r).clone())
		}
	}
	for i, l := range x.Lhs {
		v := vals[i]
		if x.Tok != token.ASSIGN && x.Tok != token.DEFINE {
			cur := it.expr(l)
			op := map[token.Token]token.Token{token.ADD_ASSIGN: token.ADD, token.SUB_ASSIGN: token.SUB, token.MUL_ASSIGN: token.MUL, token.SHR_ASSIGN: token.SHR, token.SHL_ASSIGN: token.SHL}[x.Tok]
			if op == 0 {
				it.fail("unsupported op-assign %s", x.Tok)
			}
			v = it.arith(op, cur, v, it.info.TypeOf(l))
		}
		if id, ok := l.(*ast.Ident); ok && id.Name == "_" {
			continue
		}
		if id, ok := l.(*ast.Ident); ok && x.Tok == token.DEFINE {
			if o := it.info.Defs[id]; o != nil {
				it.env[o] = v
				continue
			}
		}
		it.store(l, v)
	}
}

func (it *interp) store(l ast.Expr, v *val) {
	switch t := ast.Unparen(l).(type) {
	case *ast.Ident:
		o := it.info.Uses[t]
		if o == nil {
			o = it.info.Defs[t]
		}
		it.env[o] = v
	case *ast.SelectorExpr:
		base := it.expr(t.X)
		if base.k != vStruct {
			it.fail("field store on non-struct %s", exprStr(t.X))
		}
		base.f[t.Sel.Name] = v
	default:
		it.fail("unsupported assignment target %s", exprStr(l))
	}
}

func isUnsignedT(t types.Type) bool {
	if t == nil {
		return false
	}
	b, ok := t.Underlying().(*types.Basic)
	return ok && b.Info()&types.IsUnsigned != 0
}

func intWidth(t types.Type) int {
	b, ok := t.Underlying().(*types.Basic)
	if !ok {
		return 64
	}
	switch b.Kind() {
	case types.Int8, types.Uint8:
		return 8
	case types.Int16, types.Uint16:
		return 16
	case types.Int32, types.Uint32:
		return 32
	}
	return 64
}

func wrapTo(v int64, t types.Type) int64 {
	w := intWidth(t)
	if w == 64 {
		return v
	}
	m := uint64(1)<<uint(w) - 1
	u := uint64(v) & m
	if !isUnsignedT(t) && u&(1<<uint(w-1)) != 0 {
		return int64(u | ^m)
	}
	return int64(u)
}

func (it *interp) arith(op token.Token, a, b *val, t types.Type) *val {
	if a.k != vInt || b.k != vInt {
		return ivOpaque("arith(" + a.String() + op.String() + b.String() + ")")
	}
	var r int64
	switch op {
	case token.ADD:
		r = a.i + b.i
	case token.SUB:
		r = a.i - b.i
	case token.MUL:
		r = a.i * b.i
	case token.SHL:
		r = a.i << uint64(b.i)
	case token.SHR:
		if isUnsignedT(t) {
			r = int64(uint64(a.i) >> uint64(b.i))
		} else {
			r = a.i >> uint64(b.i)
		}
	case token.AND:
		r = a.i & b.i
	case token.OR:
		r = a.i | b.i
	case token.REM:
		if b.i == 0 {
			panic(interpPanic{"divide by zero"})
		}
		if isUnsignedT(t) {
			r = int64(uint64(a.i) % uint64(b.i))
		} else {
			r = a.i % b.i
		}
	case token.QUO:
		if b.i == 0 {
			panic(interpPanic{"divide by zero"})
		}
		if isUnsignedT(t) {
			r = int64(uint64(a.i) / uint64(b.i))
		} else {
			r = a.i / b.i
		}
	default:
		it.fail("unsupported arithmetic %s", op)
	}
	if t != nil {
		r = wrapTo(r, t)
	}
	return &val{k: vInt, i: r, arith: true}
}

func (it *interp) expr(e ast.Expr) *val {
	e = ast.Unparen(e)
	if tv, ok := it.info.Types[e]; ok && tv.Value != nil {
		switch tv.Value.Kind() {
		case constant.Bool:
			return ivBool(constant.BoolVal(tv.Value))
		case constant.Int:
			if i, ok := constant.Int64Val(tv.Value); ok {
				return ivInt(i)
			}
			if u, ok := constant.Uint64Val(tv.Value); ok {
				return ivInt(int64(u))
			}
		case constant.String:
			return &val{k: vStr, tag: constant.StringVal(tv.Value)}
		}
	}
	switch x := e.(type) {
	case *ast.Ident:
		o := it.info.Uses[x]
		if _, isNil := o.(*types.Nil); isNil {
			return &val{k: vNil}
		}
		if v, ok := it.env[o]; ok {
			return v
		}
		if o != nil {
			return ivOpaque(objName(o))
		}
		it.fail("unbound identifier %s", x.Name)
	case *ast.SelectorExpr:
		if sel := it.info.Selections[x]; sel != nil && sel.Kind() == types.FieldVal {
			base := it.expr(x.X)
			if base.k == vStruct {
				if f, ok := base.f[x.Sel.Name]; ok {
					return f
				}
				it.fail("unknown field %s", x.Sel.Name)
			}
			return ivOpaque(base.String() + "." + x.Sel.Name)
		}
		return ivOpaque(objName(usedObj(it.info, x)))
	case *ast.UnaryExpr:
		if x.Op == token.AND {
			return ivOpaque("&" + exprStr(x.X))
		}
		v := it.expr(x.X)
		switch x.Op {
		case token.NOT:
			if v.k != vBool {
				it.fail("! on non-bool")
			}
			return ivBool(!v.b)
		case token.SUB:
			if v.k == vInt {
				return &val{k: vInt, i: -v.i, arith: v.arith}
			}
		case token.AND:
			return ivOpaque("&" + v.String())
		}
		return ivOpaque(x.Op.String() + v.String())
	case *ast.BinaryExpr:
		switch x.Op {
		case token.LAND:
			a := it.expr(x.X)
			if a.k != vBool {
				it.fail("&& on non-bool %s", exprStr(x.X))
			}
			if !a.b {
				return ivBool(false)
			}
			b := it.expr(x.Y)
			if b.k != vBool {
				it.fail("&& on non-bool %s", exprStr(x.Y))
			}
			return ivBool(b.b)
		case token.LOR:
			a := it.expr(x.X)
			if a.k != vBool {
				it.fail("|| on non-bool %s", exprStr(x.X))
			}
			if a.b {
				return ivBool(true)
			}
			b := it.expr(x.Y)
			if b.k != vBool {
				it.fail("|| on non-bool %s", exprStr(x.Y))
			}
			return ivBool(b.b)
		}
		a, b := it.expr(x.X), it.expr(x.Y)
		switch x.Op {
		case token.EQL, token.NEQ, token.LSS, token.LEQ, token.GTR, token.GEQ:
			if a.arith || b.arith {
				it.out.ArithCond = true
			}
			if a.k == vNil || b.k == vNil || a.k == vOpaque || b.k == vOpaque {
				if x.Op == token.EQL || x.Op == token.NEQ {
					eq := a.k == b.k && a.tag == b.tag
					if (a.k == vOpaque) != (b.k == vOpaque) {
						eq = false
					}
					if x.Op == token.NEQ {
						eq = !eq
					}
					return ivBool(eq)
				}
				it.fail("ordered comparison of non-integers %s", exprStr(x))
			}
			if a.k == vBool && b.k == vBool {
				eq := a.b == b.b
				if x.Op == token.NEQ {
					eq = !eq
				}
				return ivBool(eq)
			}
			if a.k != vInt || b.k != vInt {
				it.fail("comparison of %s", exprStr(x))
			}
			uns := isUnsignedT(it.info.TypeOf(x.X))
			var r bool
			if uns {
				ua, ub := uint64(a.i), uint64(b.i)
				switch x.Op {
				case token.EQL:
					r = ua == ub
				case token.NEQ:
					r = ua != ub
				case token.LSS:
					r = ua < ub
				case token.LEQ:
					r = ua <= ub
				case token.GTR:
					r = ua > ub
				case token.GEQ:
					r = ua >= ub
				}
			} else {
				switch x.Op {
				case token.EQL:
					r = a.i == b.i
				case token.NEQ:
					r = a.i != b.i
				case token.LSS:
					r = a.i < b.i
				case token.LEQ:
					r = a.i <= b.i
				case token.GTR:
					r = a.i > b.i
				case token.GEQ:
					r = a.i >= b.i
				}
			}
			return ivBool(r)
		}
		return it.arith(x.Op, a, b, it.info.TypeOf(x))
	case *ast.CallExpr:
		return it.call(x)
	case *ast.CompositeLit:
		f := map[string]*val{}
		for i, el := range x.Elts {
			if kv, ok := el.(*ast.KeyValueExpr); ok {
				if id, ok := kv.Key.(*ast.Ident); ok {
					f[id.Name] = it.expr(kv.Value).clone()
				}
			} else if st, ok := it.info.TypeOf(x).Underlying().(*types.Struct); ok && i < st.NumFields() {
				f[st.Field(i).Name()] = it.expr(el).clone()
			}
		}
		return ivStruct(f)
	case *ast.StarExpr:
		return ivOpaque("*" + it.expr(x.X).String())
	}
	it.fail("unsupported expression %T %s", e, exprStr(e))
	return nil
}

func (it *interp) call(c *ast.CallExpr) *val {
	// conversion
	if tv, ok := it.info.Types[c.Fun]; ok && tv.IsType() && len(c.Args) == 1 {
		v := it.expr(c.Args[0])
		if v.k == vInt {
			if b, ok := tv.Type.Underlying().(*types.Basic); ok && b.Info()&types.IsInteger != 0 {
				return &val{k: vInt, i: wrapTo(v.i, tv.Type), arith: v.arith}
			}
		}
		if v.k == vStr {
			return v
		}
		return v
	}
	if isPanicCall(it.info, c) {
		tag := "panic"
		if len(c.Args) == 1 {
			a := it.expr(c.Args[0])
			tag = "panic(" + a.String() + ")"
		}
		panic(interpPanic{tag})
	}
	f := calleeOf(it.info, c)
	name := ""
	if f != nil {
		name = shortName(f)
	} else if id, ok := ast.Unparen(c.Fun).(*ast.Ident); ok {
		name = id.Name // builtins
	}
	var args []*val
	for _, a := range c.Args {
		args = append(args, it.expr(a))
	}
	it.out.Calls = append(it.out.Calls, name)
	if h, ok := it.hooks[name]; ok {
		if v, ok := h(it, c, args); ok {
			return v
		}
	}
	if fd, ok := it.decls[name]; ok && it.depth < 6 {
		sub := runFuncEx(it.info, fd, args, it.hooks, it.decls, it.depth+1)
		it.out.Calls = append(it.out.Calls, sub.Calls...)
		if sub.ArithCond {
			it.out.ArithCond = true
		}
		if sub.Err != "" {
			it.fail("in %s: %s", name, sub.Err)
		}
		if sub.Panicked {
			panic(interpPanic{sub.PanicTag})
		}
		switch len(sub.Results) {
		case 0:
			return ivOpaque("void")
		case 1:
			return sub.Results[0]
		}
		return &val{k: vTuple, tup: sub.Results}
	}
	if h, ok := it.hooks["*"]; ok {
		if v, ok := h(it, c, args); ok {
			return v
		}
	}
	it.fail("call to %s outside the interpretable fragment", name)
	return nil
}

// ---------------------------------------------------------------------------
// weak orderings

// weakOrderings enumerates all weak orderings of n items as rank vectors (ranks 0..m-1, every rank used).
func weakOrderings(n int) [][]int {
	var out [][]int
	cur := make([]int, n)
	var rec func(i, maxRank int)
	rec = func(i, maxRank int) {
		if i == n {
			// every rank 0..maxRank must be used
			used := make([]bool, maxRank+1)
			for _, r := range cur {
				used[r] = true
			}
			for _, u := range used {
				if !u {
					return
				}
			}
			out = append(out, append([]int{}, cur...))
			return
		}
		for r := 0; r <= maxRank+1 && r < n; r++ {
			cur[i] = r
			m := maxRank
			if r > m {
				m = r
			}
			rec(i+1, m)
		}
	}
	// enumerate all surjections onto {0..m} for all m by brute force over rank assignments
	var all func(i int)
	all = func(i int) {
		if i == n {
			mx := 0
			for _, r := range cur {
				if r > mx {
					mx = r
				}
			}
			used := make([]bool, mx+1)
			for _, r := range cur {
				used[r] = true
			}
			for _, u := range used {
				if !u {
					return
				}
			}
			out = append(out, append([]int{}, cur...))
			return
		}
		for r := 0; r < n; r++ {
			cur[i] = r
			all(i + 1)
		}
	}
	_ = rec
	all(0)
	return out
}

// valuation maps a rank vector to integers with item zeroIdx fixed at 0 and the given gap.
func valuation(ranks []int, zeroIdx int, scale int64) []int64 {
	out := make([]int64, len(ranks))
	for i, r := range ranks {
		out[i] = int64(r-ranks[zeroIdx]) * scale
	}
	return out
}
