package main

import (
	"fmt"
	"go/ast"
	"go/token"
	"go/types"
	"strings"

	"golang.org/x/tools/go/packages"
)

// checkLookupInsertAtomic (R11.8): get-or-create on a shared table.  The lookup that finds the entry missing
// and the insertion of the new entry must lie in one critical section; releasing the table lock in between
// lets two threads create two states for one address, and a waiter sleeps on the orphan.
func checkLookupInsertAtomic(c *Ctx, lp *packages.Package) {
	c.Rule("R11.8", "get-or-create of per-address wait state is atomic: no unlock of the table mutex lies on a path between the lookup and the insertion of the missing entry", 2)
	info := lp.TypesInfo
	n := 0
	for _, fd := range allFuncs(lp) {
		// package-level maps read and written in this function
		type acc struct {
			node ast.Node
			m    types.Object
		}
		var reads, writes []acc
		lhs := map[ast.Expr]bool{}
		ast.Inspect(fd.Body, func(x ast.Node) bool {
			if as, ok := x.(*ast.AssignStmt); ok {
				for _, l := range as.Lhs {
					if ix, ok := l.(*ast.IndexExpr); ok {
						if o := usedObj(info, ix.X); o != nil && o.Parent() == lp.Types.Scope() {
							if _, isMap := o.Type().Underlying().(*types.Map); isMap {
								writes = append(writes, acc{as, o})
								lhs[ix] = true
							}
						}
					}
				}
			}
			return true
		})
		if len(writes) == 0 {
			continue
		}
		ast.Inspect(fd.Body, func(x ast.Node) bool {
			if ix, ok := x.(*ast.IndexExpr); ok && !lhs[ix] {
				if o := usedObj(info, ix.X); o != nil && o.Parent() == lp.Types.Scope() {
					if _, isMap := o.Type().Underlying().(*types.Map); isMap {
						reads = append(reads, acc{ix, o})
					}
				}
			}
			return true
		})
		g := buildCFG(lp, fd)
		isUnlock := func(nd ast.Node) bool {
			return nodeHas(nd, func(y ast.Node) bool {
				call, ok := y.(*ast.CallExpr)
				if !ok {
					return false
				}
				se, ok := call.Fun.(*ast.SelectorExpr)
				return ok && se.Sel.Name == "Unlock"
			})
		}
		for _, r := range reads {
			for _, w := range writes {
				if w.m != r.m {
					continue
				}
				n++
				key := fmt.Sprintf("runtime(lib).%s lookup and insert of %s", declName(fd), r.m.Name())
				rp, ok1 := g.nodePos(r.node)
				if !ok1 {
					c.Undecided("R11.8", key, r.node.Pos(), "lookup not located in the CFG")
					continue
				}
				isW := func(nd ast.Node) bool { return nd == w.node }
				// is the insert reachable from the lookup at all?
				if _, reach := g.reach(rp.after(), nil, isW, false, nil); !reach {
					continue
				}
				// an Unlock reachable from the lookup from which the insert is still reachable
				bad := token.NoPos
				for _, b := range g.G.Blocks {
					for i, nd := range b.Nodes {
						if !isUnlock(nd) {
							continue
						}
						if _, fromRead := g.reach(rp.after(), nil, func(z ast.Node) bool { return z == nd }, false, nil); !fromRead {
							continue
						}
						if _, toWrite := g.reach(cfgPos{b, i + 1}, nil, isW, false, nil); toWrite {
							bad = nd.Pos()
						}
					}
				}
				c.Check(bad == token.NoPos, "R11.8", key, r.node.Pos(), "one critical section", "the table mutex is released ("+c.posStr(bad)+") between finding the entry missing and inserting it: two threads can each insert their own state for one address, and a waiter sleeps on the state nobody signals")
			}
		}
	}
	if n == 0 {
		c.Undecided("R11.8", "runtime(lib) get-or-create functions", 0, "no function reading and writing a package-level map found")
	}
	_ = strings.TrimSpace
}

func init() {
	addMutant(Mutant{Prop: "C11", Name: "notify-state-created-outside-lock", File: "runtime/internal/lib/runtime/sema_llgo.go",
		Old: "\tst := notifyMap[key]\n\tif st == nil {\n\t\tst = &notifyState{}\n\t\tst.mu.Init(nil)\n\t\tst.cond.Init(nil)\n\t\tnotifyMap[key] = st\n\t}\n\tnotifyMu.Unlock()",
		New: "\tst := notifyMap[key]\n\tnotifyMu.Unlock()\n\tif st == nil {\n\t\tst = &notifyState{}\n\t\tst.mu.Init(nil)\n\t\tst.cond.Init(nil)\n\t\tnotifyMu.Lock()\n\t\tnotifyMap[key] = st\n\t\tnotifyMu.Unlock()\n\t}",
		Expect: "R11.8"})
	addMutant(Mutant{Prop: "C11", Name: "go-intrinsic-record-on-stack", File: "ssa/goroutine.go",
		Old: "\tdata := Expr{b.aggregateAllocU(t, flds...), voidPtr}",
		New: "\tvar rec llvm.Value\n\tif fn == Nil {\n\t\trec = b.aggregateAlloca(t, flds...)\n\t} else {\n\t\trec = b.aggregateAllocU(t, flds...)\n\t}\n\tdata := Expr{rec, voidPtr}", Expect: "R11.5 go record outlives"})
}
