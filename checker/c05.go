package main

import (
	"fmt"
	"go/ast"
	"go/types"
	"strings"

	"golang.org/x/tools/go/packages"
)

func init() { register("C05", checkC05) }

// UTF-8 constants (Unicode Standard ch. 3 / RFC 3629; identical to GOROOT unicode/utf8 and runtime/utf8.go).
var utf8Oracle = map[string]int64{
	"runeError": 0xFFFD, "runeSelf": 0x80, "maxRune": 0x10FFFF,
	"surrogateMin": 0xD800, "surrogateMax": 0xDFFF,
	"t1": 0x00, "tx": 0x80, "t2": 0xC0, "t3": 0xE0, "t4": 0xF0, "t5": 0xF8,
	"maskx": 0x3F, "mask2": 0x1F, "mask3": 0x0F, "mask4": 0x07,
	"rune1Max": 1<<7 - 1, "rune2Max": 1<<11 - 1, "rune3Max": 1<<16 - 1,
	"locb": 0x80, "hicb": 0xBF,
}

func checkC05(c *Ctx) (string, error) {
	c.Rule("R05.1", "append returns len = old+n for every element size, shares storage exactly when capacity suffices, and copies the new elements to offset old*size", 3)
	c.Rule("R05.2", "memcpy is used only into storage allocated in the same function; possibly overlapping copies use memmove", 5)
	c.Rule("R05.3", "slice/string windows and copy counts follow Go's predicates on every weak ordering of their inputs", 4)
	c.Rule("R05.4", "UTF-8 constants equal the Unicode/Go values; integer->string conversion maps out-of-range code points to U+FFFD before narrowing", 18)
	c.Rule("R05.5", "the emitter passes each slice/string runtime entry point exactly the arguments it declares", 12)

	cfgs := []LoadCfg{defaultCfg}
	if c.Tier == "thorough" {
		cfgs = append(cfgs, LoadCfg{GOOS: "linux", GOARCH: "arm64"}, LoadCfg{GOOS: "darwin", GOARCH: "arm64"}, LoadCfg{GOOS: "linux", GOARCH: "386"}, LoadCfg{GOOS: "linux", GOARCH: "amd64", Tags: []string{"nogc"}})
	}
	var rpDefault *packages.Package
	for _, lc := range cfgs {
		rw, err := loadRT(lc, "internal/runtime")
		if err != nil {
			return "", err
		}
		c.use(rw)
		c.Config = lc.String()
		rp := rw.RT("internal/runtime")
		if rpDefault == nil {
			rpDefault = rp
		}
		evalSliceAppend(c, rp)
		checkMemcpySites(c, rp)
		evalNewSlice3(c, "R05.3", rp)
		evalStringSlice(c, "R05.3", rp)
		evalSliceCopy(c, "R05.3", rp)
		checkUTF8(c, rp)
		checkRuneCodec(c, rp)
		checkStringEqualOrder(c, rp)
		evalStringFromInt(c, rp)
		c.Config = ""
	}
	w, err := loadMain(defaultCfg, "ssa", "cl")
	if err != nil {
		return "", err
	}
	c.use(w)
	checkRtArity(c, "R05.5", w, rpDefault, func(name string) bool {
		return strings.HasPrefix(name, "Slice") || strings.HasPrefix(name, "String") || name == "NewSlice3" || name == "MakeSlice" || name == "GrowSlice" || strings.HasPrefix(name, "NewStringIter")
	})
	return "C05 (abstract evaluation + structural): runtime.SliceAppend is evaluated by the checker's AST interpreter (inlining GrowSlice) for element sizes {0,8} on every weak ordering of (len,cap,n): result length, capacity, storage sharing and copy destination/size are compared with Go's append; NewSlice3/StringSlice/SliceCopy windows and counts on all orderings; every memcpy site of z_slice.go/z_string.go must target storage allocated in the same function (else memmove); UTF-8 constants against the standard values; StringFromInt64/Uint64 range guard before narrowing to rune; emitter call sites of slice/string runtime entry points against the runtime signatures. NOT decided: contents after arbitrary append/copy histories, growth policy, decoding of malformed UTF-8 byte sequences, string comparison loops.", nil
}

func evalSliceAppend(c *Ctx, rp *packages.Package) {
	fd := findFunc(rp, "SliceAppend")
	gs := findFunc(rp, "GrowSlice")
	if fd == nil || gs == nil {
		c.Bad("R05.1", "runtime.SliceAppend", 0, "SliceAppend/GrowSlice not found")
		return
	}
	c.nfuncs += 2
	decls := map[string]*ast.FuncDecl{"internal/runtime.GrowSlice": gs}
	n := 0
	badLen, badShare, badCopy, und := "", "", "", ""
	for _, et := range []int64{0, 8} {
		for _, r := range weakOrderings(4) { // len, cap, num, 0
			for _, sc := range e6Scales {
				v := valuation(r, 3, sc)
				ln, cp, num := v[0], v[1], v[2]
				if ln < 0 || cp < ln || num < 0 {
					continue
				}
				type cpy struct {
					fn        string
					dst, size string
				}
				var copies []cpy
				hooks := rtHooks(nil, nil)
				for _, nm := range []string{"internal/clite.Memmove", "internal/clite.Memcpy"} {
					name := nm
					hooks[name] = func(it *interp, call *ast.CallExpr, a []*val) (*val, bool) {
						copies = append(copies, cpy{name[strings.LastIndex(name, ".")+1:], a[0].String(), a[2].String()})
						return ivOpaque("void"), true
					}
				}
				hooks["internal/runtime.nextslicecap"] = func(it *interp, call *ast.CallExpr, a []*val) (*val, bool) {
					nl, oc := a[0].i, a[1].i
					if 2*oc > nl {
						nl = 2 * oc
					}
					return ivInt(nl), true
				}
				hooks["internal/runtime.AllocZ"] = func(it *interp, call *ast.CallExpr, a []*val) (*val, bool) { return ivOpaque("fresh"), true }
				data := "olddata"
				if cp == 0 {
					data = ""
				}
				var dv *val
				if data == "" {
					dv = &val{k: vNil}
				} else {
					dv = ivOpaque(data)
				}
				src := ivStruct(map[string]*val{"data": dv, "len": ivInt(ln), "cap": ivInt(cp)})
				out := runFuncEx(rp.TypesInfo, fd, []*val{src, ivOpaque("elems"), ivInt(num), ivInt(et)}, hooks, decls, 0)
				n++
				if out.Err != "" {
					und = out.Err
					continue
				}
				if out.Panicked || len(out.Results) != 1 || out.Results[0].k != vStruct {
					if badLen == "" {
						badLen = fmt.Sprintf("elemsize=%d len=%d cap=%d n=%d: does not return a slice (%v)", et, ln, cp, num, out.PanicTag)
					}
					continue
				}
				res := out.Results[0]
				if res.f["len"].i != ln+num && badLen == "" {
					badLen = fmt.Sprintf("elemsize=%d len=%d cap=%d n=%d: result len %s, Go requires %d", et, ln, cp, num, res.f["len"], ln+num)
				}
				if res.f["cap"].i < res.f["len"].i && badLen == "" {
					badLen = fmt.Sprintf("elemsize=%d len=%d cap=%d n=%d: result cap %s < len %s", et, ln, cp, num, res.f["cap"], res.f["len"])
				}
				if ln+num > 0 && res.f["data"].k == vNil && badLen == "" {
					badLen = fmt.Sprintf("elemsize=%d len=%d cap=%d n=%d: non-empty result with nil data (compares equal to nil)", et, ln, cp, num)
				}
				if et > 0 {
					shared := res.f["data"].String() == dv.String()
					wantShared := ln+num <= cp
					if shared != wantShared && badShare == "" {
						badShare = fmt.Sprintf("len=%d cap=%d n=%d: shares storage=%v, Go requires %v", ln, cp, num, shared, wantShared)
					}
					if num > 0 {
						wantDst := res.f["data"].String()
						if ln != 0 {
							wantDst = fmt.Sprintf("adv(%s,%d)", res.f["data"], ln*et)
						}
						found := false
						for _, cpx := range copies {
							if cpx.dst == wantDst && cpx.size == fmt.Sprint(num*et) {
								found = true
								if cpx.fn == "Memcpy" && wantShared && badCopy == "" {
									badCopy = fmt.Sprintf("len=%d cap=%d n=%d: new elements copied with memcpy into the shared backing array (append(s[:i], s[j:]...) overlaps)", ln, cp, num)
								}
							}
						}
						if !found && badCopy == "" {
							badCopy = fmt.Sprintf("len=%d cap=%d n=%d: no copy of %d bytes to %s (copies: %v)", ln, cp, num, num*et, wantDst, copies)
						}
					}
				}
			}
		}
	}
	c.evals += n
	if und != "" {
		c.Undecided("R05.1", "runtime.SliceAppend result length", fd.Pos(), "outside the interpretable fragment: "+und)
		return
	}
	c.Check(badLen == "", "R05.1", "runtime.SliceAppend result length", fd.Pos(), fmt.Sprintf("len = old+n, cap >= len, non-nil when non-empty, for element sizes 0 and 8 (%d evaluations)", n), badLen)
	c.Check(badShare == "", "R05.1", "runtime.SliceAppend storage sharing", fd.Pos(), "result aliases the argument exactly when old+n <= cap", badShare)
	c.Check(badCopy == "", "R05.1", "runtime.SliceAppend element copy", fd.Pos(), "n*size bytes moved to data+old*size, overlap-safe when the array is shared", badCopy)
}

// checkMemcpySites: destination of every c.Memcpy in the slice/string runtime files is storage allocated in the same function.
func checkMemcpySites(c *Ctx, rp *packages.Package) {
	info := rp.TypesInfo
	for _, fd := range allFuncs(rp) {
		file := fileOf(c.fset, fd.Pos())
		if file != "z_slice.go" && file != "z_string.go" {
			continue
		}
		v := newFnView(rp, fd)
		k := 0
		for _, call := range callsIn(fd.Body) {
			f := calleeOf(info, call)
			if f == nil || shortName(f) != "internal/clite.Memcpy" {
				continue
			}
			k++
			key := fmt.Sprintf("runtime.%s memcpy#%d destination", declName(fd), k)
			dst := call.Args[0]
			why := freshStorage(v, dst, 0)
			if why == "" {
				c.OK("R05.2", key, call.Pos(), "destination allocated in this function: "+exprStr(dst))
			} else if strings.HasPrefix(declName(fd), "CStr") {
				// caller-owned C buffer sized by the emitter (decided by C09 R09.1)
				c.OK("R05.2", key, call.Pos(), "caller-provided C buffer (emitter allocates len+1; see C09)")
			} else {
				c.Bad("R05.2", key, call.Pos(), "memcpy into storage that may overlap the source ("+why+"); use memmove")
			}
		}
	}
}

// freshStorage returns "" if e denotes memory allocated in this function.
func freshStorage(v *fnView, e ast.Expr, depth int) string {
	if depth > 6 {
		return "definition chain too long"
	}
	r := v.res(e)
	if call, ok := r.(*ast.CallExpr); ok {
		f := calleeOf(v.info, call)
		if f != nil {
			switch shortName(f) {
			case "internal/runtime.AllocZ", "internal/runtime.AllocU", "internal/clite.Malloc", "internal/runtime.Alloc":
				return ""
			case "internal/clite.Advance":
				return freshStorage(v, call.Args[0], depth+1)
			}
		}
		// unsafe.Pointer(x) conversions
		if tv, ok := v.info.Types[call.Fun]; ok && tv.IsType() && len(call.Args) == 1 {
			return freshStorage(v, call.Args[0], depth+1)
		}
		if id, ok := call.Fun.(*ast.Ident); ok && id.Name == "make" {
			return ""
		}
	}
	if u, ok := r.(*ast.UnaryExpr); ok {
		// &data[0] of a slice made here
		if ix, ok := u.X.(*ast.IndexExpr); ok {
			return freshStorage(v, ix.X, depth+1)
		}
	}
	if sel, ok := r.(*ast.SelectorExpr); ok {
		// s.data where every assignment "s.data = X" in this function has fresh X
		want := strings.ReplaceAll(exprStr(sel), " ", "")
		nas, allFresh := 0, true
		ast.Inspect(v.fd.Body, func(n ast.Node) bool {
			as, ok := n.(*ast.AssignStmt)
			if !ok || len(as.Lhs) != len(as.Rhs) {
				return true
			}
			for i, l := range as.Lhs {
				if strings.ReplaceAll(exprStr(l), " ", "") == want {
					nas++
					if freshStorage(v, as.Rhs[i], depth+1) != "" {
						allFresh = false
					}
				}
			}
			return true
		})
		if nas > 0 && allFresh {
			return ""
		}
		// field of a local struct whose field was set from fresh storage in this function: s.data where s := String{AllocU(..), n}
		if base := v.res(sel.X); base != nil {
			if cl, ok := base.(*ast.CompositeLit); ok && len(cl.Elts) > 0 {
				first := cl.Elts[0]
				if kv, ok := first.(*ast.KeyValueExpr); ok {
					first = kv.Value
				}
				return freshStorage(v, first, depth+1)
			}
			if call, ok := base.(*ast.CallExpr); ok {
				if f := calleeOf(v.info, call); f != nil && (f.Name() == "MakeSlice" || strings.HasPrefix(f.Name(), "Alloc")) {
					return ""
				}
			}
		}
	}
	return "destination " + exprStr(e) + " is not allocated here"
}

func checkUTF8(c *Ctx, rp *packages.Package) {
	for name, want := range utf8Oracle {
		o, ok := rp.Types.Scope().Lookup(name).(*types.Const)
		if !ok {
			continue // not every constant needs to exist
		}
		got, isInt := constValInt(o)
		c.Check(isInt && got == want, "R05.4", "runtime utf8 const "+name, o.Pos(), fmt.Sprintf("%#x", got), fmt.Sprintf("%s = %#x, UTF-8 requires %#x", name, got, want))
	}
}

func evalStringFromInt(c *Ctx, rp *packages.Package) {
	for _, fn := range []string{"StringFromInt64", "StringFromUint64"} {
		fd := findFunc(rp, fn)
		if fd == nil {
			c.Bad("R05.4", "runtime."+fn, 0, "function not found")
			continue
		}
		c.nfuncs++
		bad, und := "", ""
		n := 0
		pts := []int64{0, 0x41, 0x7f, 0x80, 0xD7FF, 0xD800, 0xDFFF, 0xFFFD, 0x10FFFF, 0x110000, 1<<31 - 1, 1 << 31, 1<<32 + 0x41, 1 << 32, 1<<62 + 0x263A, 1<<63 - 1}
		if fn == "StringFromInt64" {
			pts = append(pts, -1, -(1 << 31), -(1<<32)+0x7a, -(1 << 63))
		}
		for _, r := range pts {
			var got *val
			hooks := map[string]hookFn{"internal/runtime.StringFromRune": func(it *interp, call *ast.CallExpr, a []*val) (*val, bool) {
				got = a[0]
				return ivOpaque("str"), true
			}}
			out := runFunc(rp.TypesInfo, fd, []*val{ivInt(r)}, hooks)
			n++
			if out.Err != "" {
				und = out.Err
				continue
			}
			want := r
			if r < 0 || r > 0x10FFFF {
				want = 0xFFFD
			}
			if fn == "StringFromUint64" && uint64(r) > 0x10FFFF {
				want = 0xFFFD
			}
			if (got == nil || got.k != vInt || got.i != want) && bad == "" {
				bad = fmt.Sprintf("string(%d): encodes code point %v, Go requires %#x", r, got, want)
			}
		}
		c.evals += n
		if und != "" {
			c.Undecided("R05.4", "runtime."+fn+" range guard", fd.Pos(), "outside the interpretable fragment: "+und)
			continue
		}
		c.Check(bad == "", "R05.4", "runtime."+fn+" range guard", fd.Pos(), fmt.Sprintf("values outside [0,0x10FFFF] become U+FFFD before narrowing to rune (%d points incl. 2^32+c)", n), bad)
	}
}

// checkRtArity: every rtFunc("X") call in ssa/cl passes as many arguments as runtime.X declares.
func checkRtArity(c *Ctx, rule string, w *World, rp *packages.Package, want func(string) bool) {
	for _, rel := range []string{"ssa", "cl"} {
		p := w.Main(rel)
		if p == nil {
			continue
		}
		for _, fd := range allFuncs(p) {
			v := newFnView(p, fd)
			seen := map[string]int{}
			ast.Inspect(fd.Body, func(n ast.Node) bool {
				call, ok := n.(*ast.CallExpr)
				if !ok {
					return true
				}
				name, args, ok := v.rtCall(call)
				if !ok || !want(name) {
					return true
				}
				seen[name]++
				key := fmt.Sprintf("%s.%s -> runtime.%s #%d", rel, declName(fd), name, seen[name])
				o, isFn := rp.Types.Scope().Lookup(name).(*types.Func)
				if !isFn {
					c.Bad(rule, key, call.Pos(), "runtime."+name+" is not a function of the runtime package")
					return true
				}
				sig := o.Type().(*types.Signature)
				np := sig.Params().Len()
				if call.Ellipsis.IsValid() {
					c.Exists(rule, key, call.Pos(), "arguments forwarded with ...")
					return true
				}
				okN := len(args) == np
				if sig.Variadic() {
					okN = len(args) >= np-1
				}
				c.Check(okN, rule, key, call.Pos(), fmt.Sprintf("%d arguments for %s", len(args), sig.String()), fmt.Sprintf("passes %d arguments, runtime.%s declares %d", len(args), name, np))
				return true
			})
		}
	}
}

func init() {
	addMutant(Mutant{Prop: "C05", Name: "append-zero-size-noop", File: "runtime/internal/runtime/z_slice.go", Old: "\t\tsrc.len += num\n\t\tif src.len > src.cap {", New: "\t\tif src.len > src.cap {", Expect: "R05.1 runtime.SliceAppend result length"})
	addMutant(Mutant{Prop: "C05", Name: "append-memcpy", File: "runtime/internal/runtime/z_slice.go", Old: "c.Memmove(c.Advance(src.data, oldLen*etSize), data, uintptr(num*etSize))", New: "c.Memcpy(c.Advance(src.data, oldLen*etSize), data, uintptr(num*etSize))", Expect: "R05.2 runtime.SliceAppend memcpy"})
	addMutant(Mutant{Prop: "C05", Name: "append-copy-offset", File: "runtime/internal/runtime/z_slice.go", Old: "c.Memmove(c.Advance(src.data, oldLen*etSize), data, uintptr(num*etSize))", New: "c.Memmove(c.Advance(src.data, oldLen), data, uintptr(num*etSize))", Expect: "R05.1 runtime.SliceAppend element copy"})
	addMutant(Mutant{Prop: "C05", Name: "grow-always-realloc", File: "runtime/internal/runtime/z_slice.go", Old: "\tif newLen > src.cap {\n\t\tnewCap := nextslicecap(newLen, src.cap)", New: "\tif newLen >= src.cap {\n\t\tnewCap := nextslicecap(newLen, src.cap)", Expect: "R05.1 runtime.SliceAppend storage sharing"})
	addMutant(Mutant{Prop: "C05", Name: "newslice3-window-on-len", File: "runtime/internal/runtime/z_slice.go", Old: "\tif k-i > 0 {\n\t\ts.data = c.Advance(base, i*eltSize)", New: "\tif s.len > 0 {\n\t\ts.data = c.Advance(base, i*eltSize)", Expect: "R05.3 runtime.NewSlice3 window start"})
	addMutant(Mutant{Prop: "C05", Name: "slicecopy-max", File: "runtime/internal/runtime/z_slice.go", Old: "\tn := dst.len\n\tif n > num {", New: "\tn := dst.len\n\tif n < num {", Expect: "R05.3 runtime.SliceCopy count"})
	addMutant(Mutant{Prop: "C05", Name: "slicecopy-memcpy", File: "runtime/internal/runtime/z_slice.go", Old: "c.Memmove(dst.data, data, uintptr(n*etSize))", New: "c.Memcpy(dst.data, data, uintptr(n*etSize))", Expect: "R05.3 runtime.SliceCopy count"})
	addMutant(Mutant{Prop: "C05", Name: "utf8-surrogate-max", File: "runtime/internal/runtime/utf8.go", Old: "surrogateMax = 0xDFFF", New: "surrogateMax = 0xDBFF", Expect: "R05.4 runtime utf8 const surrogateMax"})
	addMutant(Mutant{Prop: "C05", Name: "stringfromint-guard-dropped", File: "runtime/internal/runtime/z_string.go", Old: "func StringFromInt64(r int64) String {\n\tif r < 0 || r > maxRune {\n\t\treturn StringFromRune(runeError)\n\t}\n", New: "func StringFromInt64(r int64) String {\n", Expect: "R05.4 runtime.StringFromInt64 range guard"})
	addMutant(Mutant{Prop: "C05", Name: "append-arg-dropped", File: "ssa/expr.go", Old: "src, b.StringData(elem), b.StringLen(elem), b.Prog.Val(int(etSize))).impl", New: "src, b.StringData(elem), b.Prog.Val(int(etSize))).impl", Expect: "R05.5 ssa.Builder.BuiltinCall -> runtime.SliceAppend"})
}
