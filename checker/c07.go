package main

import (
	"fmt"
	"go/ast"
	"go/types"
	"sort"
	"strings"

	"golang.org/x/tools/go/packages"
)

func init() { register("C07", checkC07) }

// goTypesAccessor returns "Struct.Tag" for a call to a method of a go/types type, or "" otherwise.
func goTypesAccessor(info *types.Info, call *ast.CallExpr) (string, ast.Expr) {
	f := calleeOf(info, call)
	if f == nil || f.Pkg() == nil || f.Pkg().Path() != "go/types" {
		return "", nil
	}
	sig, _ := f.Type().(*types.Signature)
	if sig == nil || sig.Recv() == nil {
		return "", nil
	}
	t := sig.Recv().Type()
	if p, ok := t.(*types.Pointer); ok {
		t = p.Elem()
	}
	name := ""
	if n, ok := t.(*types.Named); ok {
		name = n.Obj().Name()
	}
	// methods promoted from the unexported embedded "object": classify by the static receiver expression type
	sel, _ := ast.Unparen(call.Fun).(*ast.SelectorExpr)
	if sel != nil {
		if rt := info.TypeOf(sel.X); rt != nil {
			if p, ok := rt.(*types.Pointer); ok {
				rt = p.Elem()
			}
			if n, ok := rt.(*types.Named); ok && n.Obj().Pkg() != nil && n.Obj().Pkg().Path() == "go/types" {
				name = n.Obj().Name()
			}
		}
		return name + "." + f.Name(), sel.X
	}
	return name + "." + f.Name(), nil
}

// feeds: does expression e (resolving local definitions) contain a call to one of the accessors?
func feeds(v *fnView, e ast.Expr, accs map[string]bool, depth int, seen map[types.Object]bool) bool {
	if depth > 6 || e == nil {
		return false
	}
	found := false
	ast.Inspect(e, func(n ast.Node) bool {
		if found {
			return false
		}
		switch x := n.(type) {
		case *ast.CallExpr:
			if a, _ := goTypesAccessor(v.info, x); a != "" && accs[a] {
				found = true
				return false
			}
		case *ast.Ident:
			o := v.info.Uses[x]
			if o == nil || seen[o] {
				return true
			}
			seen[o] = true
			for _, d := range v.defs[o] {
				if d != nil && feeds(v, d, accs, depth+1, seen) {
					found = true
				}
			}
			for _, d := range v.tdefs[o] {
				if feeds(v, d, accs, depth+1, seen) {
					found = true
				}
			}
		}
		return !found
	})
	return found
}

// controls: the accessor decides a branch that assigns a variable which then reaches a sink
// (e.g. if f.Embedded() { name = "-" } ... Fprintln(h, name)), or that directly returns/writes.
func controls(v *fnView, root ast.Node, accs map[string]bool) bool {
	// sinks inside root: returned expressions and hash-write arguments
	var sinks []ast.Expr
	ast.Inspect(root, func(n ast.Node) bool {
		switch x := n.(type) {
		case *ast.ReturnStmt:
			sinks = append(sinks, x.Results...)
		case *ast.CallExpr:
			if f := calleeOf(v.info, x); f != nil && strings.HasPrefix(qualName(f), "fmt.Fprint") && len(x.Args) > 1 {
				sinks = append(sinks, x.Args[1:]...)
			}
		}
		return true
	})
	found := false
	ast.Inspect(root, func(n ast.Node) bool {
		var cond ast.Expr
		var body ast.Node
		switch x := n.(type) {
		case *ast.IfStmt:
			cond, body = x.Cond, x
		case *ast.SwitchStmt:
			cond, body = x.Tag, x.Body
		}
		if cond == nil || !feeds(v, cond, accs, 0, map[types.Object]bool{}) {
			return !found
		}
		assigned := map[types.Object]bool{}
		direct := false
		ast.Inspect(body, func(y ast.Node) bool {
			switch s := y.(type) {
			case *ast.AssignStmt:
				for _, l := range s.Lhs {
					if id, ok := l.(*ast.Ident); ok && id.Name != "_" {
						if o := v.info.Uses[id]; o != nil {
							assigned[o] = true
						} else if o := v.info.Defs[id]; o != nil {
							assigned[o] = true
						}
					}
				}
			case *ast.ReturnStmt:
				direct = true
			}
			return true
		})
		if direct {
			found = true
			return false
		}
		for o := range assigned {
			if isNamedResult(v.fd, v.info, o) {
				found = true
				return false
			}
		}
		for _, s := range sinks {
			if mentionsAny(v, s, assigned, 0, map[types.Object]bool{}) {
				found = true
			}
		}
		return !found
	})
	return found
}

func mentionsAny(v *fnView, e ast.Expr, objs map[types.Object]bool, depth int, seen map[types.Object]bool) bool {
	if depth > 6 || e == nil {
		return false
	}
	found := false
	ast.Inspect(e, func(n ast.Node) bool {
		id, ok := n.(*ast.Ident)
		if !ok || found {
			return !found
		}
		o := v.info.Uses[id]
		if o == nil || seen[o] {
			return true
		}
		if objs[o] {
			found = true
			return false
		}
		seen[o] = true
		for _, d := range append(append([]ast.Expr{}, v.defs[o]...), v.tdefs[o]...) {
			if d != nil && mentionsAny(v, d, objs, depth+1, seen) {
				found = true
			}
		}
		return !found
	})
	return found
}

type flowReq struct {
	fn    string
	attrs []string // alternatives separated by |
	why   map[string]string
}

func checkC07(c *Ctx) (string, error) {
	w, err := loadMain(defaultCfg, "ssa", "ssa/abi", "cl")
	if err != nil {
		return "", err
	}
	c.use(w)
	ap, sp, cp := w.Main("ssa/abi"), w.Main("ssa"), w.Main("cl")

	c.Rule("R07.1", "every attribute that decides type identity under the Go spec reaches the canonical type name (hash input or name text)", 30)
	c.Rule("R07.2", "every place that rebuilds a go/types type from an existing one carries over all its identity attributes", 12)
	c.Rule("R07.3", "type assertion dispatch: interface target -> Implements, closure -> MatchesClosure, otherwise descriptor identity; same-type fast path tests non-nil", 2)
	c.Rule("R07.4", "interface method slots: compiler offset into the itab equals the runtime layout; method index order is the one used for the descriptor's method list", 3)

	c.Rule("R07.5", "unexported method and field names are qualified by the package that declared them, independently of other attributes, on both the interface side and the method-table side", 3)
	checkNameFlows(c, ap)
	checkPkgQualifiers(c, ap, sp)
	checkTypeNameArms(c, ap)
	for _, p := range []*packages.Package{sp, cp} {
		checkRebuilds(c, p)
	}
	// R07.3 reuses the C03 template under this property's id
	sub := newCtx(c.Prop, c.Tier)
	sub.fset = c.fset
	sub.Rule("R03.2", "", 0)
	checkTypeAssertTemplate(sub, sp)
	for _, o := range sub.obls {
		c.add("R07.3", o.Construct, 0, o.Verdict, o.Witness, true)
		c.obls[len(c.obls)-1].Pos = o.Pos
	}
	rw, err := loadRT(defaultCfg, "internal/runtime")
	if err != nil {
		return "", err
	}
	c.use(rw)
	c.use(w)
	checkItabSlots(c, sp, rw.RT("internal/runtime"))
	checkMethodSetSource(c, sp)
	checkClTypeArgQualifier(c, "R07.5", cp)
	checkImplementsFullTable(c, rw.RT("internal/runtime"))
	return "C07 (structural): attribute-flow - for the hash/name builders of ssa/abi (structHash, funcHash+tuple, interfaceHash, TypeName, NamedName, typeArgString, namedLikeTypeArgString) every accessor go/types' Identical consults for that kind (field name, embedding, tag, package of unexported names, variadic-ness, channel direction, array length, element/key types, type arguments, scope disambiguator) must flow into the hash writer or the returned name, or control what is written; every types.NewX rebuild in ssa and cl must pass the source's identity attributes (tags, embedded flag, package, variadic, direction, length); TypeAssert's dispatch and failing edge; itab method-slot offset vs the runtime struct for both word sizes. NOT decided: absence of hash collisions, the runtime's Implements/findMethod search, link-time merging.", nil
}

func checkNameFlows(c *Ctx, ap *packages.Package) {
	reqs := []flowReq{
		{"Builder.structHash", []string{"Struct.NumFields", "Struct.Field", "Struct.Tag", "Var.Name", "Var.Embedded|Var.Anonymous", "Var.Type", "Var.Exported", "Var.Pkg"}, map[string]string{
			"Struct.Tag":                 "struct types differing only in a field tag share one descriptor",
			"Var.Embedded|Var.Anonymous": "struct{T} and struct{T T} share one descriptor",
			"Var.Pkg":                    "structs with unexported fields from different packages share one descriptor",
			"Var.Exported":               "the package of unexported field names does not enter the name",
		}},
		{"Builder.funcHash", []string{"Signature.Params", "Signature.Results", "Signature.Variadic", "Tuple.Len"}, map[string]string{"Signature.Variadic": "func(...int) and func([]int) share one descriptor"}},
		{"Builder.tuple", []string{"Tuple.Len", "Tuple.At", "Var.Type"}, nil},
		{"Builder.interfaceHash", []string{"Interface.NumMethods", "Interface.Method", "Func.Name", "Func.Type", "Func.Exported", "Func.Pkg"}, map[string]string{"Func.Pkg": "interfaces with same-named unexported methods from different packages share one descriptor"}},
		{"NamedName", []string{"Named.TypeArgs", "Named.Obj", "TypeList.Len", "TypeList.At"}, map[string]string{"Named.TypeArgs": "different instantiations of a generic type share one descriptor"}},
		{"namedLikeTypeArgString", []string{"Object.Name", "Object.Pkg", "TypeList.At"}, nil},
	}
	for _, r := range reqs {
		fd := findFunc(ap, r.fn)
		if fd == nil {
			c.Bad("R07.1", "abi."+r.fn, 0, "function not found")
			continue
		}
		c.nfuncs++
		v := newFnView(ap, fd)
		// sinks: arguments of hash writes and returned expressions
		var sinks []ast.Expr
		ast.Inspect(fd.Body, func(n ast.Node) bool {
			switch x := n.(type) {
			case *ast.CallExpr:
				if f := calleeOf(v.info, x); f != nil {
					q := qualName(f)
					if strings.HasPrefix(q, "fmt.Fprint") || strings.HasSuffix(q, ".Write") || strings.HasSuffix(q, ".WriteString") {
						sinks = append(sinks, x.Args[1:]...)
					}
					// helper calls whose result or side effect is the hash: b.tuple(h, params), b.TypeName(...)
					if f.Pkg() == ap.Types {
						sinks = append(sinks, x.Args...)
					}
				}
			case *ast.ReturnStmt:
				sinks = append(sinks, x.Results...)
			case *ast.AssignStmt:
				// assignments to named results
				for i, l := range x.Lhs {
					if id, ok := l.(*ast.Ident); ok && i < len(x.Rhs) {
						if o := v.info.Uses[id]; o != nil && isNamedResult(fd, v.info, o) {
							sinks = append(sinks, x.Rhs[i])
						}
					}
				}
			}
			return true
		})
		for _, attr := range r.attrs {
			accs := map[string]bool{}
			for _, a := range strings.Split(attr, "|") {
				accs[a] = true
			}
			ok := false
			for _, s := range sinks {
				if feeds(v, s, accs, 0, map[types.Object]bool{}) {
					ok = true
				}
			}
			how := "flows into the hash/name"
			if !ok && controls(v, fd.Body, accs) {
				ok, how = true, "controls what is written"
			}
			// loop bounds (NumFields/Len) count when the loop body writes per element
			if !ok && (strings.HasSuffix(attr, ".NumFields") || strings.HasSuffix(attr, ".Len") || strings.HasSuffix(attr, ".NumMethods")) {
				ast.Inspect(fd.Body, func(n ast.Node) bool {
					if fs, isFor := n.(*ast.ForStmt); isFor && fs.Cond != nil && feeds(v, fs.Cond, accs, 0, map[types.Object]bool{}) {
						ok, how = true, "bounds the per-element loop"
					}
					return true
				})
			}
			key := "abi." + r.fn + " uses " + attr
			why := r.why[attr]
			if why == "" {
				why = "two types differing only in this attribute receive the same canonical name"
			}
			c.Check(ok, "R07.1", key, fd.Pos(), how, "identity attribute "+attr+" does not reach the name: "+why)
		}
	}
}

// checkPkgQualifiers: R07.5
func checkPkgQualifiers(c *Ctx, ap, sp *packages.Package) {
	// (a) in structHash / interfaceHash the package contribution depends only on exportedness, not on other attributes
	for _, fn := range []string{"Builder.structHash", "Builder.interfaceHash"} {
		fd := findFunc(ap, fn)
		if fd == nil {
			continue
		}
		v := newFnView(ap, fd)
		var asg *ast.AssignStmt
		ast.Inspect(fd.Body, func(n ast.Node) bool {
			if as, ok := n.(*ast.AssignStmt); ok && len(as.Lhs) == 1 && exprStr(as.Lhs[0]) == "pkg" {
				if feeds(v, as.Rhs[0], map[string]bool{"Var.Pkg": true, "Func.Pkg": true}, 0, map[types.Object]bool{}) {
					asg = as
				}
			}
			return true
		})
		if asg == nil {
			c.Bad("R07.5", "abi."+fn+" package of unexported names", fd.Pos(), "no assignment of the declaring package to the result")
			continue
		}
		other := map[string]bool{"Var.Embedded": true, "Var.Anonymous": true, "Var.Name": true, "Var.Type": true, "Func.Name": true, "Func.Type": true, "Struct.Tag": true}
		bad := ""
		chain := enclosingStmts(fd.Body, asg)
		for _, e := range chain {
			is, ok := e.(*ast.IfStmt)
			if !ok {
				continue
			}
			if feeds(v, is.Cond, other, 0, map[types.Object]bool{}) {
				bad = exprStr(is.Cond)
			}
		}
		c.Check(bad == "", "R07.5", "abi."+fn+" package of unexported names", asg.Pos(), "recorded for every unexported member", "the declaring package is recorded only when ("+bad+") takes a particular branch: e.g. embedded unexported fields of different packages yield the same struct name")
	}
	// (b) method-table and interface-method names: unexported names qualified by the declaring object's package
	for _, fn := range []string{"Builder.abiUncommonMethods", "Builder.abiInterfaceImethods"} {
		fd := findFunc(sp, fn)
		if fd == nil {
			c.Bad("R07.5", "ssa."+fn+" qualifier", 0, "function not found")
			continue
		}
		ok, n := true, 0
		for _, call := range callsIn(fd.Body) {
			f := calleeOf(sp.TypesInfo, call)
			if f == nil || qualName(f) != mainMod+"/ssa/abi.FullName" || len(call.Args) != 2 {
				continue
			}
			n++
			q, isCall := ast.Unparen(call.Args[0]).(*ast.CallExpr)
			if !isCall {
				ok = false
				continue
			}
			a, _ := goTypesAccessor(sp.TypesInfo, q)
			if a != "Func.Pkg" && a != "Object.Pkg" {
				ok = false
			}
		}
		c.Check(ok && n > 0, "R07.5", "ssa."+fn+" qualifier", fd.Pos(), "FullName(<method object>.Pkg(), name)", "an unexported method name is qualified by something other than the package that declared the method: methods promoted from an embedded type of another package no longer match the interface's method name")
	}
}

func isNamedResult(fd *ast.FuncDecl, info *types.Info, o types.Object) bool {
	if fd.Type.Results == nil {
		return false
	}
	for _, f := range fd.Type.Results.List {
		for _, n := range f.Names {
			if info.Defs[n] == o {
				return true
			}
		}
	}
	return false
}

// per-kind arms of TypeName / typeArgString: scalar attributes and component types
func checkTypeNameArms(c *Ctx, ap *packages.Package) {
	req := map[string][]string{
		"Pointer": {"Pointer.Elem"}, "Slice": {"Slice.Elem"}, "Array": {"Array.Elem", "Array.Len"},
		"Map": {"Map.Key", "Map.Elem"}, "Chan": {"Chan.Elem", "Chan.Dir"},
	}
	for _, fn := range []string{"Builder.TypeName", "typeArgString"} {
		fd := findFunc(ap, fn)
		if fd == nil {
			c.Bad("R07.1", "abi."+fn, 0, "function not found")
			continue
		}
		c.nfuncs++
		v := newFnView(ap, fd)
		arms, _ := typeSwitchArms(fd)
		for kind, attrs := range req {
			cc := arms[kind]
			if cc == nil {
				c.Bad("R07.1", fmt.Sprintf("abi.%s %s arm", fn, kind), fd.Pos(), "no arm for this kind")
				continue
			}
			for _, attr := range attrs {
				accs := map[string]bool{attr: true}
				ok := false
				// returns of the arm
				ast.Inspect(cc, func(n ast.Node) bool {
					if r, isRet := n.(*ast.ReturnStmt); isRet {
						for _, e := range r.Results {
							if feeds(v, e, accs, 0, map[types.Object]bool{}) {
								ok = true
							}
						}
					}
					return true
				})
				if !ok && controls(v, cc, accs) {
					ok = true
				}
				c.Check(ok, "R07.1", fmt.Sprintf("abi.%s %s uses %s", fn, kind, attr), cc.Pos(), "reaches the returned name", fmt.Sprintf("%s types differing in %s receive the same name", kind, attr))
			}
		}
		// named: package path, name, type args, scope
		if cc := arms["Named"]; cc != nil {
			src := strings.ReplaceAll(nodeSrc(cc), " ", "")
			var texts []string
			ast.Inspect(cc, func(n ast.Node) bool {
				if call, ok := n.(*ast.CallExpr); ok {
					texts = append(texts, strings.ReplaceAll(exprStr(call), " ", ""))
				}
				return true
			})
			all := src + strings.Join(texts, ";")
			if fn == "Builder.TypeName" {
				c.Check(strings.Contains(all, "scopeIndices(") && strings.Contains(all, "NamedName(t)") && strings.Contains(all, "FullName(pkg,"), "R07.1", "abi.TypeName Named uses package, name, type arguments, scope index", cc.Pos(), "FullName(pkg, NamedName(t)+scopeIndices(obj))", "a named type's canonical name omits its package path, type arguments or local-scope disambiguator")
			} else {
				c.Check(strings.Contains(all, "namedLikeTypeArgString(t.Obj(),t.TypeArgs())"), "R07.1", "abi.typeArgString Named uses object and type arguments", cc.Pos(), "namedLikeTypeArgString(obj, targs)", "named type arguments are not rendered with package path, nested type arguments and scope index")
			}
		}
	}
	// the fallback of typeArgString must qualify by package PATH
	if fd := findFunc(ap, "typeArgString"); fd != nil {
		ok := false
		for _, call := range callsIn(fd.Body) {
			if f := calleeOf(ap.TypesInfo, call); f != nil && qualName(f) == "go/types.TypeString" && len(call.Args) == 2 {
				ok = objName(usedObj(ap.TypesInfo, call.Args[1])) == "ssa/abi.PathOf"
			}
		}
		c.Check(ok, "R07.1", "abi.typeArgString fallback qualifier", fd.Pos(), "types.TypeString(t, PathOf)", "unnamed composite type arguments are qualified by something other than the package path: a/model.T and b/model.T render alike")
	}
	// PathOf uses the path, FullName = path + "." + name
	if fd := findFunc(ap, "PathOf"); fd != nil {
		ok := false
		for _, call := range callsIn(fd.Body) {
			if a, _ := goTypesAccessor(ap.TypesInfo, call); a == "Package.Path" {
				ok = true
			}
		}
		c.Check(ok, "R07.1", "abi.PathOf uses Package.Path", fd.Pos(), "pkg.Path()", "package qualifier is not the import path")
	}
}

// ---------------------------------------------------------------------------
// R07.2 rebuilds

type ctorSpec struct {
	kind  string         // source go/types kind
	attrs map[int]string // arg index -> accessor (alternatives with |) that must supply it when rebuilding
	comp  map[int]string // arg index -> component accessor that marks the call as a rebuild
}

var ctorSpecs = map[string]ctorSpec{
	"NewChan":          {"Chan", map[int]string{0: "Dir"}, map[int]string{1: "Elem"}},
	"NewArray":         {"Array", map[int]string{1: "Len"}, map[int]string{0: "Elem"}},
	"NewSignatureType": {"Signature", map[int]string{5: "Variadic"}, map[int]string{3: "Params", 4: "Results"}},
	"NewSignature":     {"Signature", map[int]string{3: "Variadic"}, map[int]string{1: "Params", 2: "Results"}},
	"NewField":         {"Var", map[int]string{1: "Pkg", 2: "Name", 4: "Anonymous|Embedded"}, map[int]string{2: "Name"}},
}

// rebuildExceptions: derived (not identity-preserving) signatures, one reason each.
var rebuildExceptions = map[string]string{
	"cl.context.cgoCgocall NewSignatureType#1 keeps Variadic": "direct-call signature synthesised for a cgo _C2func (one result dropped); cgo cannot call variadic C functions",
}

func checkRebuilds(c *Ctx, p *packages.Package) {
	info := p.TypesInfo
	short := strings.TrimPrefix(p.PkgPath, mainMod+"/")
	// helpers that re-create a *types.Var with NewVar/NewParam (cannot carry the embedded flag)
	flatteners := map[*types.Func]bool{}
	for _, fd := range allFuncs(p) {
		var vparams []types.Object
		for _, f := range fd.Type.Params.List {
			for _, nm := range f.Names {
				if o := info.Defs[nm]; o != nil && strings.HasSuffix(o.Type().String(), "go/types.Var") {
					vparams = append(vparams, o)
				}
			}
		}
		if len(vparams) == 0 {
			continue
		}
		for _, call := range callsIn(fd.Body) {
			f := calleeOf(info, call)
			if f == nil || f.Pkg() == nil || f.Pkg().Path() != "go/types" || (f.Name() != "NewVar" && f.Name() != "NewParam") || len(call.Args) != 4 {
				continue
			}
			if nc, ok := ast.Unparen(call.Args[2]).(*ast.CallExpr); ok {
				if a, recv := goTypesAccessor(info, nc); a == "Var.Name" {
					if id, ok := ast.Unparen(recv).(*ast.Ident); ok {
						for _, vp := range vparams {
							if info.Uses[id] == vp {
								if o, ok := info.Defs[fd.Name].(*types.Func); ok {
									flatteners[o] = true
								}
							}
						}
					}
				}
			}
		}
	}
	for _, fd := range allFuncs(p) {
		v := newFnView(p, fd)
		k := 0
		for _, call := range callsIn(fd.Body) {
			f := calleeOf(info, call)
			if f == nil || !flatteners[f] {
				continue
			}
			for _, a := range call.Args {
				if t := info.TypeOf(a); t == nil || !strings.HasSuffix(t.String(), "go/types.Var") {
					continue
				}
				k++
				c.Check(!fieldOfStruct(v, a), "R07.2", fmt.Sprintf("%s.%s passes %s to %s#%d keeps embedding", short, declName(fd), exprStr(a), f.Name(), k), call.Pos(), "not a struct field",
					"a struct field is re-created through "+f.Name()+", which builds it with NewVar/NewParam and so drops the embedded flag: promoted methods and fields disappear from the rebuilt type")
			}
		}
	}
	for _, fd := range allFuncs(p) {
		v := newFnView(p, fd)
		count := map[string]int{}
		// does this function walk the fields of an existing struct? (source of a struct rebuild)
		var structSrc string
		usesTag := false
		ast.Inspect(fd.Body, func(n ast.Node) bool {
			if call, ok := n.(*ast.CallExpr); ok {
				if a, recv := goTypesAccessor(info, call); recv != nil {
					if a == "Struct.Field" {
						structSrc = exprStr(recv)
					}
					if a == "Struct.Tag" {
						usesTag = true
					}
				}
			}
			return true
		})
		ast.Inspect(fd.Body, func(n ast.Node) bool {
			call, ok := n.(*ast.CallExpr)
			if !ok {
				return true
			}
			f := calleeOf(info, call)
			if f == nil || f.Pkg() == nil || f.Pkg().Path() != "go/types" || !strings.HasPrefix(f.Name(), "New") {
				return true
			}
			name := f.Name()
			count[name]++
			key := fmt.Sprintf("%s.%s %s#%d", short, declName(fd), name, count[name])
			// struct rebuild: NewStruct(fields, tags) in a function that reads Field(i) of a source struct
			if name == "NewStruct" && structSrc != "" && len(call.Args) == 2 {
				tagsNil := isNilIdent(info, call.Args[1])
				c.Check(!tagsNil && usesTag, "R07.2", key+" keeps tags", call.Pos(), "tags of "+structSrc+" passed on",
					"a struct is rebuilt from "+structSrc+" without its field tags: tagged variants become identical and reflection reports empty tags")
				return true
			}
			// a field of a source struct rebuilt with NewVar/NewParam loses its embedded flag
			if (name == "NewVar" || name == "NewParam") && len(call.Args) == 4 {
				if src := accessorRecv(v, call.Args[2], "Var.Name"); src != "" {
					if fieldOfStruct(v, accessorRecvExpr(v, call.Args[2], "Var.Name")) {
						c.Bad("R07.2", key+" keeps embedding", call.Pos(), "struct field "+src+" is rebuilt with "+name+", which cannot carry the embedded flag: promoted methods and fields disappear from the rebuilt type")
						return true
					}
				}
			}
			spec, has := ctorSpecs[name]
			if !has {
				return true
			}
			// rebuild? some component argument derives from a same-kind source
			src := ""
			for i, acc := range spec.comp {
				if i < len(call.Args) {
					if s := accessorRecv(v, call.Args[i], spec.kind+"."+acc); s != "" {
						src = s
					}
				}
			}
			if src == "" {
				// scalar attributes alone (e.g. NewChan(t.Dir(), elem) with converted elem) also identify the source
				for i, acc := range spec.attrs {
					if i < len(call.Args) {
						for _, a := range strings.Split(acc, "|") {
							if s := accessorRecv(v, call.Args[i], spec.kind+"."+a); s != "" {
								src = s
							}
						}
					}
				}
			}
			if src == "" {
				// a converted element (cvtType(t.Elem())) inside a type-switch arm on the same kind
				for _, cc := range enclosingCases(fd.Body, call) {
					for _, e := range cc.List {
						if strings.TrimPrefix(exprStr(e), "*types.") == spec.kind {
							src = "t"
							if ts := enclosingTypeSwitchVar(fd.Body, cc); ts != "" {
								src = ts
							}
						}
					}
				}
			}
			if src == "" {
				return true // synthesised type, not a rebuild
			}
			for i, acc := range spec.attrs {
				if i >= len(call.Args) {
					continue
				}
				ok := false
				for _, a := range strings.Split(acc, "|") {
					if accessorRecv(v, call.Args[i], spec.kind+"."+a) == src {
						ok = true
					}
				}
				akey := fmt.Sprintf("%s keeps %s", key, acc)
				if why, ex := rebuildExceptions[akey]; ex {
					c.Exists("R07.2", akey, call.Pos(), "exception: "+why)
					continue
				}
				c.Check(ok, "R07.2", akey, call.Pos(), exprStr(call.Args[i]), fmt.Sprintf("the %s rebuilt from %s gets %s = %s instead of %s.%s(): the rebuilt type is a different (or wrongly identical) type", spec.kind, src, acc, exprStr(call.Args[i]), src, strings.Split(acc, "|")[0]))
			}
			return true
		})
	}
}

// accessorRecv: e (after resolving single-definition locals) is X.acc() on a go/types value; returns text of X.
func accessorRecv(v *fnView, e ast.Expr, acc string) string {
	r := v.res(e)
	call, ok := r.(*ast.CallExpr)
	if !ok {
		return ""
	}
	a, recv := goTypesAccessor(v.info, call)
	if a != acc || recv == nil {
		return ""
	}
	return exprStr(recv)
}

func accessorRecvExpr(v *fnView, e ast.Expr, acc string) ast.Expr {
	r := v.res(e)
	call, ok := r.(*ast.CallExpr)
	if !ok {
		return nil
	}
	a, recv := goTypesAccessor(v.info, call)
	if a != acc {
		return nil
	}
	return recv
}

// fieldOfStruct: the variable recv denotes is defined as X.Field(i) of a *types.Struct
func fieldOfStruct(v *fnView, recv ast.Expr) bool {
	id, ok := ast.Unparen(recv).(*ast.Ident)
	if !ok {
		if call, isCall := recv.(*ast.CallExpr); isCall {
			a, _ := goTypesAccessor(v.info, call)
			return a == "Struct.Field"
		}
		return false
	}
	o := v.info.Uses[id]
	for _, d := range v.defs[o] {
		if call, ok := d.(*ast.CallExpr); ok {
			if a, _ := goTypesAccessor(v.info, call); a == "Struct.Field" {
				return true
			}
		}
	}
	return false
}

func enclosingTypeSwitchVar(root ast.Node, cc *ast.CaseClause) string {
	name := ""
	ast.Inspect(root, func(n ast.Node) bool {
		ts, ok := n.(*ast.TypeSwitchStmt)
		if !ok {
			return true
		}
		for _, cs := range ts.Body.List {
			if cs == ast.Stmt(cc) {
				if as, ok := ts.Assign.(*ast.AssignStmt); ok && len(as.Lhs) == 1 {
					name = exprStr(as.Lhs[0])
				}
			}
		}
		return true
	})
	return name
}

func checkItabSlots(c *Ctx, sp, rp *packages.Package) {
	st := structOf(lookupNamed(rp.Types, "itab"))
	fd := findFunc(sp, "Builder.Imethod")
	if st == nil || fd == nil {
		c.Bad("R07.4", "itab method slot offset", 0, "runtime.itab or ssa.Builder.Imethod not found")
		return
	}
	// compiler constant: Advance(itab, IntVal(i + K))
	var k int64 = -1
	ast.Inspect(fd.Body, func(n ast.Node) bool {
		if be, ok := n.(*ast.BinaryExpr); ok && exprStr(be.X) == "i" {
			if v, isC := constInt(sp.TypesInfo, be.Y); isC {
				k = v
			}
		}
		return true
	})
	for _, ps := range []int64{4, 8} {
		std := &types.StdSizes{WordSize: ps, MaxAlign: ps}
		var fields []*types.Var
		funIdx := -1
		for i := 0; i < st.NumFields(); i++ {
			fields = append(fields, st.Field(i))
			if st.Field(i).Name() == "fun" {
				funIdx = i
			}
		}
		if funIdx < 0 {
			c.Bad("R07.4", "itab method slot offset", st.Field(0).Pos(), "runtime.itab has no fun field")
			return
		}
		off := std.Offsetsof(fields)[funIdx]
		c.Check(off == k*ps, "R07.4", fmt.Sprintf("itab method slot offset ptr=%d", ps), fd.Pos(), fmt.Sprintf("compiler uses word %d, runtime.itab.fun is at byte %d", k, off), fmt.Sprintf("compiler loads method i from word i+%d, but runtime.itab.fun starts at byte %d (= word %d) for %d-byte pointers: interface calls jump through the wrong slot", k, off, off/ps, ps))
	}
	// index order: iMethodOf and abiInterfaceImethods both enumerate Interface.Method(i) for i < NumMethods
	okOrder := true
	for _, fn := range []string{"iMethodOf", "Builder.abiInterfaceImethods"} {
		f := findFunc(sp, fn)
		if f == nil {
			okOrder = false
			continue
		}
		usesMethod, usesNum := false, false
		for _, call := range callsIn(f.Body) {
			a, _ := goTypesAccessor(sp.TypesInfo, call)
			if a == "Interface.Method" {
				usesMethod = true
			}
			if a == "Interface.NumMethods" {
				usesNum = true
			}
			if a == "Interface.ExplicitMethod" || a == "Interface.NumExplicitMethods" {
				okOrder = false
			}
		}
		if !usesMethod || !usesNum {
			okOrder = false
		}
	}
	c.Check(okOrder, "R07.4", "interface method index order", fd.Pos(), "slot index and descriptor method list both follow Interface.Method(i)", "the slot index and the descriptor's method list enumerate methods differently (explicit vs complete, or another order)")
	_ = sort.Strings
}

func init() {
	addMutant(Mutant{Prop: "C07", Name: "structhash-pkg-else-embedded", File: "ssa/abi/abi.go", Old: "\t\tif pkg == \"\" && !f.Exported() && f.Pkg() != nil {\n\t\t\tpkg = f.Pkg().Path()\n\t\t}\n\t\tname := f.Name()\n\t\tif f.Embedded() {\n\t\t\tname = \"-\"\n\t\t}", New: "\t\tname := f.Name()\n\t\tif f.Embedded() {\n\t\t\tname = \"-\"\n\t\t} else if pkg == \"\" && !f.Exported() && f.Pkg() != nil {\n\t\t\tpkg = f.Pkg().Path()\n\t\t}", Expect: "R07.5 abi.Builder.structHash"})
	addMutant(Mutant{Prop: "C07", Name: "method-table-receiver-pkg", File: "ssa/abitype.go", Old: "name = b.Str(abi.FullName(obj.Pkg(), mName)).impl", New: "name = b.Str(abi.FullName(pkg, mName)).impl", Expect: "R07.5 ssa.Builder.abiUncommonMethods"})
	addMutant(Mutant{Prop: "C07", Name: "structhash-tag-dropped", File: "ssa/abi/abi.go", Old: "\t\tif tag := t.Tag(i); tag != \"\" {\n\t\t\t// Field tags are part of a struct type's identity.\n\t\t\tfmt.Fprintln(h, name, ft, strconv.Quote(tag))\n\t\t} else {\n\t\t\tfmt.Fprintln(h, name, ft)\n\t\t}", New: "\t\tfmt.Fprintln(h, name, ft)", Expect: "R07.1 abi.Builder.structHash uses Struct.Tag"})
	addMutant(Mutant{Prop: "C07", Name: "structhash-embedded-pkg-elseif", File: "ssa/abi/abi.go", Old: "\t\tif pkg == \"\" && !f.Exported() && f.Pkg() != nil {\n\t\t\tpkg = f.Pkg().Path()\n\t\t}\n\t\tname := f.Name()\n\t\tif f.Embedded() {\n\t\t\tname = \"-\"\n\t\t}", New: "\t\tname := f.Name()\n\t\tif f.Embedded() {\n\t\t\tname = \"-\"\n\t\t}", Expect: "R07.1 abi.Builder.structHash uses Var.Pkg"})
	addMutant(Mutant{Prop: "C07", Name: "funchash-variadic-dropped", File: "ssa/abi/abi.go", Old: "fmt.Fprintln(h, \"func\", params.Len(), results.Len(), t.Variadic())", New: "fmt.Fprintln(h, \"func\", params.Len(), results.Len())", Expect: "R07.1 abi.Builder.funcHash uses Signature.Variadic"})
	addMutant(Mutant{Prop: "C07", Name: "chan-dir-ignored", File: "ssa/abi/abi.go", Old: "\t\tcase types.SendOnly:\n\t\t\ts = \"chan<-\"\n\t\tcase types.RecvOnly:\n\t\t\ts = \"<-chan\"\n\t\t}\n\t\treturn fmt.Sprintf(\"%s %s\", s, elem), pub", New: "\t\tcase types.SendOnly:\n\t\t\ts = \"chan<-\"\n\t\tcase types.RecvOnly:\n\t\t\ts = \"<-chan\"\n\t\t}\n\t\t_ = s\n\t\treturn fmt.Sprintf(\"chan %s\", elem), pub", Expect: "R07.1 abi.Builder.TypeName Chan uses Chan.Dir"})
	addMutant(Mutant{Prop: "C07", Name: "typearg-qualifier-name", File: "ssa/abi/abi.go", Old: "return types.TypeString(t, PathOf)", New: "return types.TypeString(t, func(p *types.Package) string { return p.Name() })", Expect: "R07.1 abi.typeArgString fallback qualifier"})
	addMutant(Mutant{Prop: "C07", Name: "cvtstruct-tags-nil", File: "ssa/type_cvt.go", Old: "return types.NewStruct(flds, tags), true", New: "_ = tags\n\t\treturn types.NewStruct(flds, nil), true", Expect: "R07.2 ssa.goTypes.cvtStruct NewStruct#1 keeps tags"})
	addMutant(Mutant{Prop: "C07", Name: "cvtstruct-newparam", File: "ssa/type_cvt.go", Old: "f = types.NewField(f.Pos(), f.Pkg(), f.Name(), t, f.Anonymous())", New: "f = types.NewParam(f.Pos(), f.Pkg(), f.Name(), t)", Expect: "R07.2 ssa.goTypes.cvtStruct NewParam#1 keeps embedding"})
	addMutant(Mutant{Prop: "C07", Name: "cvtfield-embedded-false", File: "ssa/type_cvt.go", Old: "f = types.NewField(f.Pos(), f.Pkg(), f.Name(), t, f.Anonymous())", New: "f = types.NewField(f.Pos(), f.Pkg(), f.Name(), t, false)", Expect: "R07.2 ssa.goTypes.cvtStruct NewField#1 keeps Anonymous"})
	addMutant(Mutant{Prop: "C07", Name: "cvtchan-dir", File: "ssa/type_cvt.go", Old: "return types.NewChan(t.Dir(), elem), true", New: "return types.NewChan(types.SendRecv, elem), true", Expect: "R07.2 ssa.goTypes.cvtType NewChan#1 keeps Dir"})
	addMutant(Mutant{Prop: "C07", Name: "patchtype-variadic", File: "cl/compile.go", Old: "return types.NewSignature(typ.Recv(), params.(*types.Tuple), results.(*types.Tuple), typ.Variadic()), true", New: "return types.NewSignature(typ.Recv(), params.(*types.Tuple), results.(*types.Tuple), false), true", Expect: "R07.2 cl.context._patchType NewSignature#1 keeps Variadic"})
	addMutant(Mutant{Prop: "C07", Name: "itab-slot-offset", File: "ssa/interface.go", Old: "pfn := b.Advance(itab, prog.IntVal(uint64(i+3), prog.Int()))", New: "pfn := b.Advance(itab, prog.IntVal(uint64(i+2), prog.Int()))", Expect: "R07.4 itab method slot offset"})
}
