package main

import (
	"bytes"
	"fmt"
	"go/ast"
	"go/format"
	"go/token"
	"go/types"
	"os"
	"path/filepath"
	"runtime"
	"sort"
	"strings"

	"golang.org/x/tools/go/ast/astutil"
	"golang.org/x/tools/go/packages"
)

// renameLocals returns the file with every function-local variable (parameters, results, receivers, locals,
// type-switch variables) consistently renamed - a behaviour-preserving edit - using type information.
func transformFile(abs string, kind string) ([]byte, int, bool) {
	rel, err := filepath.Rel(repoDir, abs)
	if err != nil {
		return nil, 0, false
	}
	dir := filepath.ToSlash(filepath.Dir(rel))
	var pkg *packages.Package
	sharedFset = token.NewFileSet()
	if strings.HasPrefix(dir, "runtime/") {
		w, err := loadRT(defaultCfg, strings.TrimPrefix(dir, "runtime/"))
		if err != nil {
			return nil, 0, false
		}
		pkg = w.RT(strings.TrimPrefix(dir, "runtime/"))
	} else {
		w, err := loadMain(defaultCfg, dir)
		if err != nil {
			return nil, 0, false
		}
		pkg = w.Main(dir)
	}
	if pkg == nil {
		return nil, 0, false
	}
	var file *ast.File
	for _, f := range pkg.Syntax {
		if pkg.Fset.Position(f.Pos()).Filename == abs {
			file = f
		}
	}
	if file == nil {
		return nil, 0, false
	}
	info := pkg.TypesInfo
	count := 0
	switch kind {
	case "swapeq":
		// a == b  ->  b == a   (operands without calls: evaluation order is irrelevant)
		callFree := func(e ast.Expr) bool {
			ok := true
			ast.Inspect(e, func(x ast.Node) bool {
				switch x.(type) {
				case *ast.CallExpr, *ast.FuncLit, *ast.UnaryExpr:
					ok = false
				}
				return ok
			})
			return ok
		}
		ast.Inspect(file, func(x ast.Node) bool {
			if be, ok := x.(*ast.BinaryExpr); ok && (be.Op == token.EQL || be.Op == token.NEQ) && callFree(be.X) && callFree(be.Y) {
				be.X, be.Y = be.Y, be.X
				count++
			}
			return true
		})
	case "incdec":
		// x++  ->  x += 1
		astutil.Apply(file, func(cur *astutil.Cursor) bool {
			if st, ok := cur.Node().(*ast.IncDecStmt); ok {
				tok := token.ADD_ASSIGN
				if st.Tok == token.DEC {
					tok = token.SUB_ASSIGN
				}
				if _, inFor := cur.Parent().(*ast.ForStmt); inFor {
					return true // keep loop headers
				}
				cur.Replace(&ast.AssignStmt{Lhs: []ast.Expr{st.X}, TokPos: st.TokPos, Tok: tok, Rhs: []ast.Expr{&ast.BasicLit{Kind: token.INT, Value: "1", ValuePos: st.TokPos}}})
				count++
			}
			return true
		}, nil)
	case "elsedrop":
		// if c { ...; return } else { B }   ->   if c { ...; return }; B      (B declares nothing at its top level)
		terminates := func(b *ast.BlockStmt) bool {
			if len(b.List) == 0 {
				return false
			}
			switch st := b.List[len(b.List)-1].(type) {
			case *ast.ReturnStmt:
				return true
			case *ast.BranchStmt:
				return st.Tok == token.CONTINUE || st.Tok == token.BREAK || st.Tok == token.GOTO
			case *ast.ExprStmt:
				if call, ok := st.X.(*ast.CallExpr); ok {
					if id, ok := call.Fun.(*ast.Ident); ok && id.Name == "panic" {
						return true
					}
				}
			}
			return false
		}
		declares := func(b *ast.BlockStmt) bool {
			for _, st := range b.List {
				switch x := st.(type) {
				case *ast.AssignStmt:
					if x.Tok == token.DEFINE {
						return true
					}
				case *ast.DeclStmt, *ast.LabeledStmt:
					return true
				}
			}
			return false
		}
		ast.Inspect(file, func(x ast.Node) bool {
			var list *[]ast.Stmt
			switch b := x.(type) {
			case *ast.BlockStmt:
				list = &b.List
			case *ast.CaseClause:
				list = &b.Body
			case *ast.CommClause:
				list = &b.Body
			}
			if list == nil {
				return true
			}
			var out []ast.Stmt
			for _, st := range *list {
				is, ok := st.(*ast.IfStmt)
				if ok && is.Init == nil {
					if eb, isBlk := is.Else.(*ast.BlockStmt); isBlk && terminates(is.Body) && !declares(eb) {
						is.Else = nil
						out = append(out, is)
						out = append(out, eb.List...)
						count++
						continue
					}
				}
				out = append(out, st)
			}
			*list = out
			return true
		})
	case "ifinvert":
		// if c {A} else {B}  ->  if !(c) {B} else {A}
		ast.Inspect(file, func(x ast.Node) bool {
			is, ok := x.(*ast.IfStmt)
			if !ok || is.Init != nil {
				return true
			}
			eb, ok := is.Else.(*ast.BlockStmt)
			if !ok {
				return true
			}
			is.Cond = &ast.UnaryExpr{Op: token.NOT, X: &ast.ParenExpr{X: is.Cond}}
			is.Body, is.Else = eb, is.Body
			count++
			return true
		})
	default:
		count = renameAll(pkg, file)
	}
	_ = info
	var buf bytes.Buffer
	if err := format.Node(&buf, pkg.Fset, file); err != nil {
		return nil, 0, false
	}
	return buf.Bytes(), count, true
}

// neutral applies behaviour-preserving edits to every file a check looked at and reports checks that alarm.
func neutral(ids []string) int {
	kind := "rename"
	if len(ids) > 0 && (ids[0] == "rename" || ids[0] == "swapeq" || ids[0] == "ifinvert" || ids[0] == "incdec" || ids[0] == "elsedrop") {
		kind, ids = ids[0], ids[1:]
	}
	if len(ids) == 0 {
		for id := range registry {
			ids = append(ids, id)
		}
		sort.Strings(ids)
	}
	bad := 0
	for _, id := range ids {
		base, _, err := runOnly(id, "quick")
		if err != nil {
			fmt.Printf("neutral %s: baseline failed: %v\n", id, err)
			bad++
			continue
		}
		baseProblems := base.problems()
		files := map[string]bool{}
		for _, o := range base.obls {
			if i := strings.LastIndex(o.Pos, ":"); i > 0 {
				files[o.Pos[:i]] = true
			}
		}
		var fl []string
		for f := range files {
			fl = append(fl, f)
		}
		sort.Strings(fl)
		fmt.Printf("neutral[%s] %s: %d files\n", kind, id, len(fl))
		for _, rel := range fl {
			abs := filepath.Join(repoDir, rel)
			if _, err := os.Stat(abs); err != nil {
				continue
			}
			out, n, ok := transformFile(abs, kind)
			if !ok || n == 0 {
				continue
			}
			overlay = map[string][]byte{abs: out}
			c, _, err := runOnly(id, "quick")
			overlay = nil
			if err != nil {
				fmt.Printf("  %-55s INVALID rename (%s)\n", rel, firstLine(err.Error()))
				continue
			}
			var hits []string
			for k, o := range c.problems() {
				if _, inBase := baseProblems[k]; !inBase {
					hits = append(hits, o.Verdict+" "+k)
				}
			}
			sort.Strings(hits)
			if len(hits) == 0 {
				fmt.Printf("  %-55s quiet (%d edits)\n", rel, n)
			} else {
				bad += len(hits)
				fmt.Printf("  %-55s %d FALSE ALARMS\n", rel, len(hits))
				for _, h := range hits {
					if len(h) > 170 {
						h = h[:170]
					}
					fmt.Printf("      %s\n", h)
				}
			}
			runtime.GC()
		}
	}
	fmt.Printf("neutral: %d false alarms\n", bad)
	if bad > 0 {
		return 1
	}
	return 0
}

func renameAll(pkg *packages.Package, file *ast.File) int {
	info := pkg.TypesInfo
	implicit := map[types.Object]bool{}
	for _, o := range info.Implicits {
		implicit[o] = true
	}
	isLocal := func(o types.Object) bool {
		v, ok := o.(*types.Var)
		if !ok || v.IsField() || v.Pkg() != pkg.Types || v.Name() == "_" {
			return false
		}
		return v.Parent() != nil && v.Parent() != pkg.Types.Scope() && v.Parent() != types.Universe
	}
	seen := map[types.Object]bool{}
	var todo []*ast.Ident
	ast.Inspect(file, func(x ast.Node) bool {
		switch n := x.(type) {
		case *ast.TypeSwitchStmt:
			if as, ok := n.Assign.(*ast.AssignStmt); ok && len(as.Lhs) == 1 {
				if id, ok := as.Lhs[0].(*ast.Ident); ok && id.Name != "_" {
					todo = append(todo, id)
				}
			}
		case *ast.Ident:
			o := info.Defs[n]
			if o == nil {
				o = info.Uses[n]
			}
			if o != nil && isLocal(o) {
				seen[o] = true
				todo = append(todo, n)
			}
		}
		return true
	})
	for _, id := range todo {
		if !strings.HasSuffix(id.Name, "_rn9") {
			id.Name += "_rn9"
		}
	}
	return len(seen)
}
