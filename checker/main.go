// llgoverif: repository-specific static checker for goplus/llgo (see /verif/DESIGN.md).
package main

import (
	"encoding/json"
	"go/token"
	"fmt"
	"os"
	"path/filepath"
	"runtime/debug"
	"sort"
	"strings"
	"time"
)

type checkFn func(c *Ctx) (explanation string, err error)

var registry = map[string]checkFn{}

func register(id string, f checkFn) { registry[id] = f }

func usage() {
	fmt.Fprintln(os.Stderr, "usage: llgoverif check <Cxx> [--tier quick|thorough] | replay <path> | selftest [<Cxx>] | list")
	os.Exit(2)
}

func main() {
	// debugging aid: LLGOVERIF_OVERLAY=/repo/path.go=/tmp/replacement.go analyses the replacement instead
	if ov := os.Getenv("LLGOVERIF_OVERLAY"); ov != "" {
		if a, b, ok := strings.Cut(ov, "="); ok {
			if data, err := os.ReadFile(b); err == nil {
				overlay = map[string][]byte{a: data}
			}
		}
	}
	if len(os.Args) < 2 {
		usage()
	}
	switch os.Args[1] {
	case "list":
		var ids []string
		for id := range registry {
			ids = append(ids, id)
		}
		sort.Strings(ids)
		fmt.Println(strings.Join(ids, " "))
	case "check":
		if len(os.Args) < 3 {
			usage()
		}
		id := os.Args[2]
		tier := os.Getenv("VERIF_TIER")
		for i := 3; i < len(os.Args); i++ {
			if os.Args[i] == "--tier" && i+1 < len(os.Args) {
				tier = os.Args[i+1]
				i++
			}
		}
		if tier != "thorough" {
			tier = "quick"
		}
		os.Exit(runCheck(id, tier, true))
	case "replay":
		if len(os.Args) < 3 {
			usage()
		}
		os.Exit(replay(os.Args[2]))
	case "selftest":
		ids := os.Args[2:]
		os.Exit(selftest(ids))
	case "neutral":
		os.Exit(neutral(os.Args[2:]))
	case "record-names":
		// records the local-variable names of every function the checks load (all tiers) into localnames.json
		recordNames = true
		os.Remove(nameTablePath())
		ids := make([]string, 0, len(registry))
		for id := range registry {
			ids = append(ids, id)
		}
		sort.Strings(ids)
		for _, id := range ids {
			for _, tier := range []string{"quick", "thorough"} {
				if _, _, err := runOnly(id, tier); err != nil {
					fmt.Println("record-names:", id, tier, err)
					os.Exit(1)
				}
			}
		}
		if err := writeRecordedNames(); err != nil {
			fmt.Println(err)
			os.Exit(1)
		}
		fmt.Printf("recorded %d functions\n", len(recorded))
		os.Exit(0)
	default:
		usage()
	}
}

// runOnly executes the rules of a property and returns the context (no evidence written).
func runOnly(id, tier string) (c *Ctx, expl string, err error) {
	f, ok := registry[id]
	if !ok {
		return nil, "", fmt.Errorf("unknown property %s", id)
	}
	c = newCtx(id, tier)
	sharedFset = token.NewFileSet()
	defer func() {
		if r := recover(); r != nil {
			err = fmt.Errorf("checker panic: %v\n%s", r, debug.Stack())
		}
	}()
	expl, err = f(c)
	return
}

func runCheck(id, tier string, withSelftest bool) int {
	start := time.Now()
	c, expl, err := runOnly(id, tier)
	if err != nil {
		// load failure, type errors, checker panic: fail closed
		evdir := filepath.Join(verifDir(), "evidence", "replay")
		os.MkdirAll(evdir, 0o755)
		rp := filepath.Join(evdir, id+"-load.json")
		b, _ := json.MarshalIndent(map[string]any{"property": id, "error": err.Error()}, "", " ")
		os.WriteFile(rp, b, 0o644)
		fmt.Printf("%s: check could not be completed: %v\n", id, err)
		fmt.Printf("VIOLATION property=%s replay=%s\n", id, rp)
		return 1
	}
	if tier == "thorough" && withSelftest {
		// the thorough tier also proves the rules can fire: overlay mutants of today's tree
		n, failed := runMutants(id)
		c.Note("selftest: %d overlay mutants analysed, %d not detected", n, len(failed))
		if len(failed) > 0 {
			c.Rule("SELFTEST", "every seeded overlay mutant is reported by its rule", 0)
			for _, f := range failed {
				c.Undecided("SELFTEST", f, 0, "mutant not detected: checker lost its ability to fire")
			}
		}
	}
	return c.finish(start, expl)
}

func replay(path string) int {
	b, err := os.ReadFile(path)
	if err != nil {
		fmt.Println(err)
		return 2
	}
	var rec struct {
		Property   string     `json:"property"`
		Obligation Obligation `json:"obligation"`
		Error      string     `json:"error"`
	}
	if err := json.Unmarshal(b, &rec); err != nil {
		fmt.Println(err)
		return 2
	}
	c, _, err := runOnly(rec.Property, "quick")
	if err != nil {
		fmt.Printf("replay: %v\nVIOLATION property=%s replay=%s\n", err, rec.Property, path)
		return 1
	}
	for _, o := range c.obls {
		if o.Key() == rec.Obligation.Key() {
			fmt.Printf("replay %s: %s %s [%s] -> %s %s\n", rec.Property, o.Rule, o.Construct, o.Pos, o.Verdict, o.Witness)
			if o.Verdict != Discharged {
				fmt.Printf("VIOLATION property=%s replay=%s\n", rec.Property, path)
				return 1
			}
			return 0
		}
	}
	fmt.Printf("replay %s: obligation %q no longer enumerated on the current tree\n", rec.Property, rec.Obligation.Key())
	return 0
}
