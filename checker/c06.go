package main

import (
	"fmt"
	"go/ast"
	"go/token"
	"go/types"
	"strings"

	"golang.org/x/tools/go/packages"
)

func init() { register("C06", checkC06) }

func checkC06(c *Ctx) (string, error) {
	c.Rule("R06.1", "every read-side map entry point tests the map for nil before touching it; assignment to a nil map panics", 6)
	c.Rule("R06.2", "typehash handles every kind that is not hashed as raw memory and panics on unhashable kinds; key-property predicates propagate through arrays and structs with the right quantifier", 12)
	c.Rule("R06.3", "map type descriptor layout and flag bits agree between compiler and runtime", 14)
	c.Rule("R06.4", "the emitter calls each map runtime entry with the declared arguments; comma-ok lookups use the two-result entry", 6)
	c.Rule("R06.6", "sibling lookups agree: the old-bucket mask is halved only when the table is not in a same-size grow", 5)
	c.Rule("R06.5", "bucket slot type, indirect flags and descriptor slot sizes all switch at the same size threshold", 4)

	rw, err := loadRT(defaultCfg, "internal/runtime", "abi")
	if err != nil {
		return "", err
	}
	c.use(rw)
	rp := rw.RT("internal/runtime")
	checkMapNilGuards(c, rp)
	checkMapAssignNilAs(c, "R06.1", rp)
	checkTypehash(c, rp)

	checkMaskHalving(c, rp)
	checkMapPort(c, rp)

	w, err := loadMain(defaultCfg, "ssa", "ssa/abi", "cl")
	if err != nil {
		return "", err
	}
	c.use(w)
	ap, sp := w.Main("ssa/abi"), w.Main("ssa")
	checkKeyPredicates(c, ap)
	checkMapFlagBits(c, ap, rw.RT("abi"), rp)
	checkDescriptorLayoutOnly(c, "R06.3", sp, rw.RT("abi"), "MapType")
	checkRtArity(c, "R06.4", w, rp, func(name string) bool { return strings.HasPrefix(name, "Map") || name == "MakeMap" || name == "NewMapIter" })
	checkLookupCommaOk(c, sp)
	checkMapSlotStride(c, "R06.5", sp)
	checkMapThresholds(c, ap)
	return "C06 (structural): nil-map guards dominate every use of the map header in the read-side entry points (CFG, all paths) and mapassign panics on nil; typehash covers every non-raw-memory kind and panics otherwise; the key-property predicates (reflexive, need-key-update, hash-might-panic, has-pointers) have the right base cases and the right any/all quantifier over struct fields and array elements; map flag bits, MapType descriptor layout, bucket constants and the indirect-storage threshold agree across MapBucketType, MapTypeFlags, the descriptor writer and the runtime; emitter call arity; helpers of the map code are implemented (no empty stubs); the write protocol of mapassign/mapdelete/mapclear on all paths (flag set after hashing, cleared before return, growWork before bucket selection, count updated with the slot, emptyRest marked only after consulting the next chain position); the direct/indirect data-word dispatch of both interface hash functions. NOT decided: everything about operation histories (lookup after insert/delete, growth, iteration during growth) - that needs execution or a model, not source shape.", nil
}

func checkMapAssignNilAs(c *Ctx, rule string, rp *packages.Package) {
	// reuse the C03 rule under this property's rule id
	sub := newCtx(c.Prop, c.Tier)
	sub.fset = c.fset
	sub.Rule("R03.3", "", 0)
	checkMapAssignNil(sub, rp)
	for _, o := range sub.obls {
		c.add(rule, o.Construct, 0, o.Verdict, o.Witness, true)
		c.obls[len(c.obls)-1].Pos = o.Pos
	}
}

func checkMapNilGuards(c *Ctx, rp *packages.Package) {
	info := rp.TypesInfo
	for _, name := range []string{"mapaccess1", "mapaccess2", "mapaccessK", "mapdelete", "mapiterinit", "mapclear"} {
		fd := findFunc(rp, name)
		if fd == nil {
			c.Bad("R06.1", "runtime."+name+" nil guard", 0, "function not found")
			continue
		}
		c.nfuncs++
		g := buildCFG(rp, fd)
		var h types.Object
		for _, f := range fd.Type.Params.List {
			for _, n := range f.Names {
				if t := info.TypeOf(f.Type); t != nil && strings.HasSuffix(t.String(), "hmap") {
					h = info.Defs[n]
				}
			}
		}
		if h == nil {
			c.Undecided("R06.1", "runtime."+name+" nil guard", fd.Pos(), "no *hmap parameter")
			continue
		}
		isNilTest := func(e ast.Expr) bool {
			x, y, op, ok := binCmp(e)
			if !ok || op != token.EQL {
				return false
			}
			id, isId := ast.Unparen(x).(*ast.Ident)
			return isId && info.Uses[id] == h && isNilIdent(info, y)
		}
		var guardBlk *cfgBlk
		nilEdge := -1
		for _, b := range g.G.Blocks {
			if !b.Live {
				continue
			}
			if k, _, ok := passEdge(b, isNilTest); ok && guardBlk == nil {
				guardBlk, nilEdge = b, k
			}
		}
		// h == nil || h.count == 0: the edge implying h == nil may not exist (the true edge only implies the disjunction);
		// use the edge on which h != nil is implied instead: the condition's FALSE edge implies !(h==nil)
		nonNilEdge := -1
		if guardBlk == nil {
			for _, b := range g.G.Blocks {
				if !b.Live {
					continue
				}
				if k, _, ok := failEdge(b, isNilTest); ok && guardBlk == nil {
					guardBlk, nonNilEdge = b, k
				}
			}
		} else {
			nonNilEdge = 1 - nilEdge
		}
		if guardBlk == nil {
			c.Bad("R06.1", "runtime."+name+" nil guard", fd.Pos(), "no test of the map header against nil: reading a nil map dereferences nil instead of yielding the zero value")
			continue
		}
		deref := func(n ast.Node) bool {
			return nodeHas(n, func(x ast.Node) bool {
				s, ok := x.(*ast.SelectorExpr)
				if !ok {
					return false
				}
				id, isId := ast.Unparen(s.X).(*ast.Ident)
				if !isId || info.Uses[id] != h {
					return false
				}
				// h.count inside the guard condition itself (h == nil || h.count == 0) is protected by short-circuit
				if ce := condOf(guardBlk); ce != nil && within(ce, s) {
					return false
				}
				return true
			})
		}
		_, unguarded := g.reach(g.entry(), nil, deref, false, func(b *cfgBlk, k int) bool { return !(b == guardBlk && k == nonNilEdge) })
		// short-circuit order inside the guard: h == nil must be the left operand of ||
		okOrder := true
		if ce := condOf(guardBlk); ce != nil {
			if be, ok := ast.Unparen(ce).(*ast.BinaryExpr); ok && be.Op == token.LOR {
				okOrder = isNilTest(be.X)
			}
		}
		c.Check(!unguarded && okOrder, "R06.1", "runtime."+name+" nil guard", fd.Pos(), "every use of the header lies behind the h != nil edge", "the map header is dereferenced on a path where it may be nil")
	}
}

// checkMaskHalving: every "m >>= 1" used to address the old bucket array is guarded by !h.sameSizeGrow().
func checkMaskHalving(c *Ctx, rp *packages.Package) {
	for _, fd := range allFuncs(rp) {
		if fileOf(c.fset, fd.Pos()) != "map.go" {
			continue
		}
		k := 0
		ast.Inspect(fd.Body, func(n ast.Node) bool {
			as, ok := n.(*ast.AssignStmt)
			if !ok || as.Tok != token.SHR_ASSIGN || len(as.Lhs) != 1 {
				return true
			}
			if v, isC := constInt(rp.TypesInfo, as.Rhs[0]); !isC || v != 1 {
				return true
			}
			// only masks derived from bucketMask
			k++
			guarded := false
			for _, e := range enclosingStmts(fd.Body, as) {
				if is, isIf := e.(*ast.IfStmt); isIf && strings.ReplaceAll(exprStr(is.Cond), " ", "") == "!h.sameSizeGrow()" && as.Pos() > is.Body.Pos() && as.End() < is.Body.End() {
					guarded = true
				}
			}
			c.Check(guarded, "R06.6", fmt.Sprintf("runtime.%s old-bucket mask#%d", declName(fd), k), as.Pos(), "halved only under !h.sameSizeGrow()",
				"the old-bucket mask is halved unconditionally: during a same-size grow the old table has as many buckets as the new one, so keys in the upper half are looked up in the wrong old bucket (sibling lookups guard this)")
			return true
		})
		// positive sibling form: an old-bucket lookup prologue consults sameSizeGrow before addressing the old array
		j := 0
		ast.Inspect(fd.Body, func(n ast.Node) bool {
			is, ok := n.(*ast.IfStmt)
			if !ok || is.Init == nil {
				return true
			}
			as, ok := is.Init.(*ast.AssignStmt)
			if !ok || len(as.Rhs) != 1 || strings.ReplaceAll(exprStr(as.Rhs[0]), " ", "") != "h.oldbuckets" {
				return true
			}
			usesHashMask := false
			ast.Inspect(is.Body, func(x ast.Node) bool {
				if be, ok := x.(*ast.BinaryExpr); ok && be.Op == token.AND && exprStr(be.X) == "hash" {
					usesHashMask = true
				}
				return true
			})
			if !usesHashMask {
				return true // not a lookup prologue (e.g. mapclear walks all old buckets through oldbucketmask)
			}
			j++
			consults := false
			for _, call := range callsIn(is.Body) {
				if f := calleeOf(rp.TypesInfo, call); f != nil && f.Name() == "sameSizeGrow" {
					consults = true
				}
			}
			// any inline halving (m >> 1) outside the guard
			inline := false
			ast.Inspect(is.Body, func(x ast.Node) bool {
				if be, ok := x.(*ast.BinaryExpr); ok && be.Op == token.SHR {
					if v, isC := constInt(rp.TypesInfo, be.Y); isC && v == 1 {
						inline = true
					}
				}
				return true
			})
			c.Check(consults && !inline, "R06.6", fmt.Sprintf("runtime.%s old-bucket lookup#%d consults sameSizeGrow", declName(fd), j), is.Pos(), "mask halved only when the table doubled",
				"the old bucket is addressed with a halved mask without asking whether the grow is same-size: entries present for a whole range loop are skipped during a same-size grow")
			return true
		})
	}
}

func checkTypehash(c *Ctx, rp *packages.Package) {
	fd := findFunc(rp, "typehash")
	if fd == nil {
		c.Bad("R06.2", "runtime.typehash", 0, "function not found")
		return
	}
	c.nfuncs++
	info := rp.TypesInfo
	var sw *ast.SwitchStmt
	ast.Inspect(fd.Body, func(n ast.Node) bool {
		if s, ok := n.(*ast.SwitchStmt); ok && s.Tag != nil && strings.Contains(exprStr(s.Tag), "Kind()") {
			sw = s
		}
		return true
	})
	if sw == nil {
		c.Undecided("R06.2", "runtime.typehash kind switch", fd.Pos(), "no switch on t.Kind()")
		return
	}
	have := map[string]*ast.CaseClause{}
	var def *ast.CaseClause
	for _, cs := range sw.Body.List {
		cc := cs.(*ast.CaseClause)
		if cc.List == nil {
			def = cc
		}
		for _, e := range cc.List {
			have[strings.TrimPrefix(objName(usedObj(info, e)), "abi.")] = cc
		}
	}
	// kinds that are comparable but not raw memory (abi.Builder.IsRegularMemory false and EqualName non-empty)
	for _, k := range []string{"Float32", "Float64", "Complex64", "Complex128", "String", "Interface", "Array", "Struct"} {
		c.Check(have[k] != nil, "R06.2", "runtime.typehash kind "+k, sw.Pos(), "dedicated hash", "keys of kind "+k+" fall to the 'unhashable' panic although Go allows them as map keys")
	}
	okDef := def != nil && containsPanic(info, def)
	c.Check(okDef, "R06.2", "runtime.typehash unhashable kinds panic", sw.Pos(), "default arm panics", "an unhashable dynamic key type does not panic")
	for _, k := range []string{"Slice", "Map", "Func"} {
		c.Check(have[k] == nil, "R06.2", "runtime.typehash kind "+k+" unhashable", sw.Pos(), "no arm: reaches the panic", "an uncomparable kind is hashed instead of panicking")
	}
	// float hashes must not be raw memory hashes (+0/-0, NaN)
	for k, want := range map[string]string{"Float32": "f32hash", "Float64": "f64hash", "Complex64": "c64hash", "Complex128": "c128hash", "String": "strhash"} {
		if cc := have[k]; cc != nil {
			c.Check(containsCallTo(info, cc, "internal/runtime."+want), "R06.2", "runtime.typehash "+k+" uses "+want, cc.Pos(), want, "kind "+k+" is not hashed with "+want+" (signed zeros / NaN / string contents would hash by representation)")
		}
	}
	// interface arm: empty vs non-empty
	if cc := have["Interface"]; cc != nil {
		c.Check(containsCallTo(info, cc, "internal/runtime.nilinterhash") && containsCallTo(info, cc, "internal/runtime.interhash"), "R06.2", "runtime.typehash interface split", cc.Pos(), "eface -> nilinterhash, iface -> interhash", "interface keys are not split into empty/non-empty interface hashing")
	}
	// struct arm skips blank fields and hashes at field offsets
	if cc := have["Struct"]; cc != nil {
		s := strings.ReplaceAll(nodeSrc(cc), " ", "")
		c.Check(strings.Contains(s, "f.Name_==\"_\"") && strings.Contains(s, "typehash(f.Typ,add(p,f.Offset),h)"), "R06.2", "runtime.typehash struct fields", cc.Pos(), "blank fields skipped; field hashed at its offset", "struct keys are not hashed field by field at their offsets (or blank fields are included)")
	}
}

// checkKeyPredicates: quantifier and base cases of the key-property functions in ssa/abi/map.go
func checkKeyPredicates(c *Ctx, ap *packages.Package) {
	type spec struct {
		fn     string
		quant  string            // "any" or "all" over struct fields
		leaves map[string]string // arm -> returned literal
		basics map[string]string // basic kind -> literal
	}
	specs := []spec{
		{"hashMightPanic", "any", map[string]string{"Interface": "true"}, nil},
		{"needkeyupdate", "any", map[string]string{"Interface": "true", "Pointer": "false"}, map[string]string{"Float64": "true", "Complex128": "true", "String": "true"}},
		{"IsReflexive", "all", map[string]string{"Interface": "false", "Pointer": "true"}, map[string]string{"Float32": "false", "Float64": "false", "Complex64": "false", "Complex128": "false"}},
		{"HasPtrData", "any", map[string]string{"Pointer": "true", "Interface": "true", "Slice": "true"}, map[string]string{"String": "true", "UnsafePointer": "true"}},
	}
	for _, sp := range specs {
		fd := findFunc(ap, sp.fn)
		if fd == nil {
			c.Bad("R06.2", "abi."+sp.fn, 0, "function not found")
			continue
		}
		c.nfuncs++
		arms, _ := typeSwitchArms(fd)
		if arms == nil {
			c.Undecided("R06.2", "abi."+sp.fn, fd.Pos(), "no type switch")
			continue
		}
		// struct quantifier
		sc := arms["Struct"]
		got := "?"
		if sc != nil {
			var loop *ast.ForStmt
			for _, st := range sc.Body {
				if f, ok := st.(*ast.ForStmt); ok {
					loop = f
				}
			}
			if loop != nil && len(loop.Body.List) == 1 {
				if is, ok := loop.Body.List[0].(*ast.IfStmt); ok && len(is.Body.List) == 1 {
					neg := false
					cond := ast.Unparen(is.Cond)
					if u, ok := cond.(*ast.UnaryExpr); ok && u.Op == token.NOT {
						neg = true
						cond = u.X
					}
					rec := false
					if call, ok := cond.(*ast.CallExpr); ok {
						if f := calleeOf(ap.TypesInfo, call); f != nil && f.Name() == sp.fn {
							rec = true
						}
					}
					inner := ""
					if r, ok := is.Body.List[0].(*ast.ReturnStmt); ok && len(r.Results) == 1 {
						inner = exprStr(r.Results[0])
					}
					after := ""
					if r, ok := sc.Body[len(sc.Body)-1].(*ast.ReturnStmt); ok && len(r.Results) == 1 {
						after = exprStr(r.Results[0])
					}
					switch {
					case rec && !neg && inner == "true" && after == "false":
						got = "any"
					case rec && neg && inner == "false" && after == "true":
						got = "all"
					}
				}
			}
		}
		why := map[string]string{
			"hashMightPanic": "a struct key with one interface field among plain fields is flagged as never panicking: m[k] on an empty map with an unhashable dynamic value returns silently",
			"needkeyupdate":  "a struct key with one float/string/interface field is not refreshed on overwrite (+0/-0, shorter backing store)",
			"IsReflexive":    "a struct key with one float/interface field among plain fields is treated as reflexive: NaN-containing keys are looked up as if k == k",
			"HasPtrData":     "a bucket whose keys/elems contain a pointer in one field is marked pointer-free",
		}[sp.fn]
		c.Check(got == sp.quant, "R06.2", "abi."+sp.fn+" struct quantifier", fd.Pos(), sp.quant+" field", fmt.Sprintf("struct arm is %q over fields, the property requires %q: %s", got, sp.quant, why))
		// array arm recurses on the element
		if ac := arms["Array"]; ac != nil {
			rec := false
			for _, call := range callsIn(ac) {
				if f := calleeOf(ap.TypesInfo, call); f != nil && f.Name() == sp.fn && len(call.Args) == 1 && strings.Contains(exprStr(call.Args[0]), "Elem()") {
					rec = true
				}
			}
			c.Check(rec, "R06.2", "abi."+sp.fn+" array arm", ac.Pos(), "recurses on the element type", "arrays are not classified by their element type")
		} else {
			c.Bad("R06.2", "abi."+sp.fn+" array arm", fd.Pos(), "no array arm")
		}
		retLit := func(cc *ast.CaseClause) string {
			if cc == nil || len(cc.Body) != 1 {
				return ""
			}
			if r, ok := cc.Body[0].(*ast.ReturnStmt); ok && len(r.Results) == 1 {
				return exprStr(r.Results[0])
			}
			return ""
		}
		for arm, want := range sp.leaves {
			c.Check(retLit(arms[arm]) == want, "R06.2", "abi."+sp.fn+" "+arm, fd.Pos(), want, fmt.Sprintf("%s(%s) returns %q, expected %s", sp.fn, arm, retLit(arms[arm]), want))
		}
		if bc := arms["Basic"]; bc != nil && sp.basics != nil {
			var inner *ast.SwitchStmt
			for _, st := range bc.Body {
				if s, ok := st.(*ast.SwitchStmt); ok {
					inner = s
				}
			}
			got := map[string]string{}
			def := ""
			if inner != nil {
				for _, cs := range inner.Body.List {
					cc := cs.(*ast.CaseClause)
					if cc.List == nil {
						def = retLit(cc)
					}
					for _, e := range cc.List {
						got[strings.TrimPrefix(exprStr(e), "types.")] = retLit(cc)
					}
				}
			}
			for k, want := range sp.basics {
				g := got[k]
				if g == "" {
					g = def
				}
				c.Check(g == want, "R06.2", "abi."+sp.fn+" basic "+k, bc.Pos(), want, fmt.Sprintf("%s(%s) returns %q, expected %s", sp.fn, k, g, want))
			}
		}
	}
}

func checkMapFlagBits(c *Ctx, ap, rtabi, rp *packages.Package) {
	// compiler side: MapTypeFlags "flags |= N" under named predicates
	fd := findFunc(ap, "MapTypeFlags")
	if fd == nil {
		c.Bad("R06.3", "abi.MapTypeFlags", 0, "function not found")
		return
	}
	bits := map[string]int64{}
	for _, st := range fd.Body.List {
		is, ok := st.(*ast.IfStmt)
		if !ok || len(is.Body.List) != 1 {
			continue
		}
		as, ok := is.Body.List[0].(*ast.AssignStmt)
		if !ok || as.Tok != token.OR_ASSIGN {
			continue
		}
		v, _ := constInt(ap.TypesInfo, as.Rhs[0])
		cond := strings.ReplaceAll(exprStr(is.Cond), " ", "")
		switch {
		case strings.Contains(cond, "t.Key()") && strings.Contains(cond, "MAXKEYSIZE"):
			bits["IndirectKey"] = v
		case strings.Contains(cond, "t.Elem()") && strings.Contains(cond, "MAXELEMSIZE"):
			bits["IndirectElem"] = v
		case strings.HasPrefix(cond, "IsReflexive("):
			bits["ReflexiveKey"] = v
		case strings.HasPrefix(cond, "needkeyupdate("):
			bits["NeedKeyUpdate"] = v
		case strings.HasPrefix(cond, "hashMightPanic("):
			bits["HashMightPanic"] = v
		}
	}
	for _, acc := range []string{"IndirectKey", "IndirectElem", "ReflexiveKey", "NeedKeyUpdate", "HashMightPanic"} {
		m := findFunc(rtabi, "MapType."+acc)
		if m == nil {
			c.Bad("R06.3", "abi.MapType."+acc, 0, "runtime accessor not found")
			continue
		}
		var mask int64 = -1
		ast.Inspect(m.Body, func(n ast.Node) bool {
			if be, ok := n.(*ast.BinaryExpr); ok && be.Op == token.AND {
				if v, isC := constInt(rtabi.TypesInfo, be.Y); isC {
					mask = v
				}
			}
			return true
		})
		got, has := bits[acc]
		c.Check(has && got == mask, "R06.3", "map flag "+acc, m.Pos(), fmt.Sprintf("bit %d on both sides", mask), fmt.Sprintf("compiler sets bit %d for %s, the runtime tests bit %d", got, acc, mask))
	}
	// IsReflexive flag must be set when the key IS reflexive (not inverted)
	for _, st := range fd.Body.List {
		if is, ok := st.(*ast.IfStmt); ok {
			cond := strings.ReplaceAll(exprStr(is.Cond), " ", "")
			if strings.Contains(cond, "IsReflexive(") {
				c.Check(cond == "IsReflexive(t.Key())", "R06.3", "map flag ReflexiveKey polarity", is.Pos(), "set when k == k for all keys", "reflexive flag is set from "+cond)
			}
		}
	}
	// runtime constants derive from the shared abi constants
	for name, want := range map[string]string{"bucketCnt": "MapBucketCount", "maxKeySize": "MapMaxKeyBytes", "maxElemSize": "MapMaxElemBytes"} {
		o, ok := rp.Types.Scope().Lookup(name).(*types.Const)
		a, ok2 := rtabi.Types.Scope().Lookup(want).(*types.Const)
		if !ok || !ok2 {
			c.Bad("R06.3", "runtime const "+name, 0, "constant not found")
			continue
		}
		v1, _ := constValInt(o)
		v2, _ := constValInt(a)
		c.Check(v1 == v2, "R06.3", "runtime const "+name, o.Pos(), fmt.Sprintf("= abi.%s = %d", want, v2), fmt.Sprintf("runtime %s = %d but the compiler lays buckets out with abi.%s = %d", name, v1, want, v2))
	}
}

// checkDescriptorLayoutOnly runs the descriptor contract and keeps only the obligations about one runtime struct.
func checkDescriptorLayoutOnly(c *Ctx, rule string, sp, abiP *packages.Package, rt string) {
	sub := newCtx(c.Prop, c.Tier)
	sub.fset = c.fset
	sub.Rule(rule, "", 0)
	checkDescriptorLayout(sub, rule, sp, abiP)
	for _, o := range sub.obls {
		if strings.Contains(o.Construct, rt) {
			c.add(rule, o.Construct, 0, o.Verdict, o.Witness, true)
			c.obls[len(c.obls)-1].Pos = o.Pos
		}
	}
}

func checkLookupCommaOk(c *Ctx, sp *packages.Package) {
	fd := findFunc(sp, "Builder.Lookup")
	if fd == nil {
		c.Bad("R06.4", "ssa.Builder.Lookup", 0, "function not found")
		return
	}
	v := newFnView(sp, fd)
	// under commaOk: MapAccess2; else MapAccess1
	var a1, a2 []*ast.CallExpr
	a1 = v.findRTCalls(fd.Body, "MapAccess1")
	a2 = v.findRTCalls(fd.Body, "MapAccess2")
	ok := len(a1) >= 1 && len(a2) >= 1
	if ok {
		for _, call := range a2 {
			in := false
			for _, e := range enclosingStmts(fd.Body, call) {
				if is, isIf := e.(*ast.IfStmt); isIf && strings.Contains(exprStr(is.Cond), "commaOk") && call.Pos() > is.Body.Pos() && call.End() < is.Body.End() {
					in = true
				}
			}
			if !in {
				ok = false
			}
		}
	}
	c.Check(ok, "R06.4", "ssa.Lookup comma-ok entry", fd.Pos(), "v, ok := m[k] uses MapAccess2; v := m[k] uses MapAccess1", "the comma-ok form does not use the two-result runtime entry (or vice versa)")
}

func checkMapThresholds(c *Ctx, ap *packages.Package) {
	// MapBucketType and MapTypeFlags must compare the same quantity with the same operator and bound
	grab := func(fn, what, bound string) (string, token.Pos) {
		fd := findFunc(ap, fn)
		if fd == nil {
			return "", 0
		}
		res := ""
		var pos token.Pos
		ast.Inspect(fd.Body, func(n ast.Node) bool {
			is, ok := n.(*ast.IfStmt)
			if !ok {
				return true
			}
			x, y, op, ok := binCmp(is.Cond)
			if !ok || exprStr(y) != bound || !strings.Contains(exprStr(x), "Sizeof") {
				return true
			}
			arg := strings.ReplaceAll(exprStr(x), " ", "")
			// normalise the operand: keytype (initially t.Key()) vs t.Key()
			arg = strings.NewReplacer("keytype", "KEY", "t.Key()", "KEY", "elemtype", "ELEM", "t.Elem()", "ELEM").Replace(arg)
			if strings.Contains(arg, what) && res == "" {
				res = arg + " " + op.String() + " " + bound
				pos = is.Pos()
			}
			return true
		})
		return res, pos
	}
	for _, side := range []struct{ what, bound, name string }{{"KEY", "MAXKEYSIZE", "key"}, {"ELEM", "MAXELEMSIZE", "elem"}} {
		b, bp := grab("MapBucketType", side.what, side.bound)
		f, _ := grab("MapTypeFlags", side.what, side.bound)
		c.Check(b != "" && b == f && strings.Contains(b, " > "), "R06.5", "indirect "+side.name+" threshold agrees", bp, b, fmt.Sprintf("bucket layout switches to pointer slots when %q, the indirect flag is set when %q: for a %s exactly at the limit the bucket and the descriptor describe different slot sizes", b, f, side.name))
	}
}

func init() {
	m := "runtime/internal/runtime/map.go"
	addMutant(Mutant{Prop: "C06", Name: "mapaccess2-nil-order", File: m, Old: "func mapclear(t *maptype, h *hmap) {", New: "func mapclear(t *maptype, h *hmap) {\n\th.flags ^= 0", Expect: "R06.1 runtime.mapclear"})
	addMutant(Mutant{Prop: "C06", Name: "accessK-mask-unguarded", File: m, Old: "func mapaccessK(", New: "func mapaccessK_(t *maptype, h *hmap, m uintptr) uintptr {\n\tm >>= 1\n\treturn m\n}\n\nfunc mapaccessK(", Expect: "R06.6 runtime.mapaccessK_"})
	addMutant(Mutant{Prop: "C06", Name: "typehash-float-arm-dropped", File: "runtime/internal/runtime/alg.go", Old: "\tcase abi.Float64:\n\t\treturn f64hash(p, h)\n", New: "", Expect: "R06.2 runtime.typehash kind Float64"})
	addMutant(Mutant{Prop: "C06", Name: "hashmightpanic-all", File: "ssa/abi/map.go", Old: "\t\t\tif hashMightPanic(t.Field(i).Type()) {\n\t\t\t\treturn true\n\t\t\t}\n\t\t}\n\t\treturn false", New: "\t\t\tif !hashMightPanic(t.Field(i).Type()) {\n\t\t\t\treturn false\n\t\t\t}\n\t\t}\n\t\treturn true", Expect: "R06.2 abi.hashMightPanic struct quantifier"})
	addMutant(Mutant{Prop: "C06", Name: "reflexive-float", File: "ssa/abi/map.go", Old: "\t\tcase types.Float32, types.Float64, types.Complex64, types.Complex128:\n\t\t\treturn false\n\t\tdefault:\n\t\t\treturn true\n\t\t}\n\tcase *types.Pointer, *types.Chan:\n\t\treturn true\n\tcase *types.Interface:\n\t\treturn false", New: "\t\tcase types.Float32, types.Float64, types.Complex64:\n\t\t\treturn false\n\t\tdefault:\n\t\t\treturn true\n\t\t}\n\tcase *types.Pointer, *types.Chan:\n\t\treturn true\n\tcase *types.Interface:\n\t\treturn false", Expect: "R06.2 abi.IsReflexive basic Complex128"})
	addMutant(Mutant{Prop: "C06", Name: "flag-bits-swapped", File: "ssa/abi/map.go", Old: "\t\tflags |= 8 // need key update", New: "\t\tflags |= 16 // need key update", Expect: "R06.3 map flag NeedKeyUpdate"})
	addMutant(Mutant{Prop: "C06", Name: "bucket-threshold-ge", File: "ssa/abi/map.go", Old: "\tif sizes.Sizeof(elemtype) > MAXELEMSIZE {\n\t\telemtype = types.NewPointer(elemtype)", New: "\tif sizes.Sizeof(elemtype) >= MAXELEMSIZE {\n\t\telemtype = types.NewPointer(elemtype)", Expect: "R06.5 indirect elem threshold"})
	addMutant(Mutant{Prop: "C06", Name: "map-valuesize-unconditional", File: "ssa/abitype.go", Old: "\t\tif flags&2 != 0 { // indirect elem\n\t\t\telemSize = prog.abi.PtrSize\n\t\t}\n", New: "", Expect: "R06.5 map descriptor ValueSize"})
	addMutant(Mutant{Prop: "C06", Name: "maptype-fields-swapped", File: "ssa/abitype.go", Old: "\t\t\tprog.IntVal(uint64(prog.abi.Size(bucket)), prog.Uint16()).impl,\n\t\t\tprog.IntVal(uint64(flags), prog.Uint32()).impl,", New: "\t\t\tprog.IntVal(uint64(flags), prog.Uint32()).impl,\n\t\t\tprog.IntVal(uint64(prog.abi.Size(bucket)), prog.Uint16()).impl,", Expect: "R06.3 descriptor MapType"})
}
