package main

import (
	"fmt"
	"go/ast"
	"go/token"
	"go/types"
	"strings"

	"golang.org/x/tools/go/cfg"
	"golang.org/x/tools/go/packages"
)

func init() { register("C20", checkC20) }

var fsCreators = map[string]int{ // callee -> index of the path argument (-1: all string args)
	"os.Create": 0, "os.OpenFile": 0, "os.MkdirAll": 0, "os.Mkdir": 0, "os.WriteFile": 0,
	"os.Symlink": -1, "os.Link": -1, "os.Rename": -1, "os.Chmod": 0, "os.Chown": 0, "os.Lchown": 0, "os.Chtimes": 0,
	"os.Remove": 0, "os.RemoveAll": 0, "os.MkdirTemp": 0, "os.CreateTemp": 0,
}

// unit is a function body analysed on its own (declaration or literal).
type unit struct {
	name string
	body *ast.BlockStmt
	g    *fnCFG
	pos  token.Pos
}

func unitsOf(p *packages.Package) []unit {
	var us []unit
	for _, fd := range allFuncs(p) {
		us = append(us, unit{name: declName(fd), body: fd.Body, g: buildCFG(p, fd), pos: fd.Pos()})
		n := 0
		ast.Inspect(fd.Body, func(x ast.Node) bool {
			if lit, ok := x.(*ast.FuncLit); ok {
				n++
				us = append(us, unit{name: fmt.Sprintf("%s$lit%d", declName(fd), n), body: lit.Body, g: buildLitCFG(p, lit), pos: lit.Pos()})
			}
			return true
		})
	}
	return us
}

func isArchiveEntryField(info *types.Info, e ast.Expr) (string, bool) {
	s, ok := e.(*ast.SelectorExpr)
	if !ok {
		return "", false
	}
	if s.Sel.Name != "Name" && s.Sel.Name != "Linkname" {
		return "", false
	}
	t := info.TypeOf(s.X)
	if t == nil {
		return "", false
	}
	if p, ok := t.(*types.Pointer); ok {
		t = p.Elem()
	}
	n, ok := t.(*types.Named)
	if !ok || n.Obj().Pkg() == nil {
		return "", false
	}
	q := n.Obj().Pkg().Path() + "." + n.Obj().Name()
	switch q {
	case "archive/tar.Header", "archive/zip.File", "archive/zip.FileHeader":
		return q + "." + s.Sel.Name, true
	}
	return "", false
}

func checkC20(c *Ctx) (string, error) {
	w, err := loadMain(defaultCfg, "internal/crosscompile")
	if err != nil {
		return "", err
	}
	c.use(w)
	p := w.Main("internal/crosscompile")
	info := p.TypesInfo

	c.Rule("R20.1", "every fs-creating call whose path depends on an archive entry name is dominated by a destination-prefix guard whose failing side returns an error", 4)
	c.Rule("R20.2", "external tar is run with -C <dest> and without -P/--absolute-names", 1)
	c.Rule("R20.3", "download+extract protocol: stat, lock, second stat under the lock, extract into a temporary directory, publish by rename; lock released on every exit", 9)
	c.Rule("R20.5", "the lock file is taken with a blocking exclusive flock (exclusive between goroutines and processes)", 2)
	c.Rule("R20.4", "sibling extractors agree: guard present, parent directory created before a file", 2)

	us := unitsOf(p)
	c.nfuncs += len(us)
	extractors := 0
	for _, u := range us {
		// taint sources in this unit (nested literals are their own units)
		tainted := map[types.Object]string{}
		hasSrc := func(n ast.Node) (string, bool) {
			src := ""
			inspectNoLit(n, func(x ast.Node) bool {
				if e, ok := x.(ast.Expr); ok {
					if s, ok := isArchiveEntryField(info, e); ok {
						src = s
					}
				}
				if id, ok := x.(*ast.Ident); ok {
					if s, ok := tainted[info.Uses[id]]; ok && src == "" {
						src = s
					}
				}
				return true
			})
			return src, src != ""
		}
		for changed := true; changed; {
			changed = false
			inspectNoLit(u.body, func(x ast.Node) bool {
				as, ok := x.(*ast.AssignStmt)
				if !ok {
					return true
				}
				for i, l := range as.Lhs {
					id, ok := l.(*ast.Ident)
					if !ok {
						continue
					}
					var rhs ast.Expr
					if len(as.Rhs) == len(as.Lhs) {
						rhs = as.Rhs[i]
					} else {
						rhs = as.Rhs[0]
					}
					if s, ok := hasSrc(rhs); ok {
						o := info.Defs[id]
						if o == nil {
							o = info.Uses[id]
						}
						if o != nil && tainted[o] == "" {
							tainted[o] = s
							changed = true
						}
					}
				}
				return true
			})
		}
		// sinks
		type sink struct {
			call *ast.CallExpr
			name string
			src  string
			arg  ast.Expr // the tainted argument this obligation is about
		}
		var sinks []sink
		inspectNoLit(u.body, func(x ast.Node) bool {
			call, ok := x.(*ast.CallExpr)
			if !ok {
				return true
			}
			f := calleeOf(info, call)
			if f == nil {
				return true
			}
			idx, isSink := fsCreators[shortName(f)]
			if !isSink {
				return true
			}
			for i, a := range call.Args {
				if idx >= 0 && i != idx {
					continue
				}
				if s, ok := hasSrc(a); ok {
					sinks = append(sinks, sink{call, shortName(f), s, a})
					if idx >= 0 {
						break
					}
				}
			}
			return true
		})
		if len(sinks) == 0 {
			continue
		}
		extractors++
		// guards in this unit
		type guard struct {
			blk  *cfg.Block
			pass int // successor index on which the guard predicate holds
			tvar types.Object
			desc string
		}
		var guards []guard
		for _, b := range u.g.G.Blocks {
			if !b.Live {
				continue
			}
			isGuardCall := func(e ast.Expr) bool {
				call, ok := e.(*ast.CallExpr)
				return ok && isCallTo(info, call, "strings.HasPrefix", "path/filepath.IsLocal")
			}
			pk, ge, ok := passEdge(b, isGuardCall)
			if !ok {
				continue
			}
			call := ge.(*ast.CallExpr)
			f := calleeOf(info, call)
			switch shortName(f) {
			case "strings.HasPrefix":
				id, ok := ast.Unparen(call.Args[0]).(*ast.Ident)
				if !ok {
					continue
				}
				tv := info.Uses[id]
				if _, isT := tainted[tv]; !isT {
					continue
				}
				// the guarded variable must be a cleaned join
				if why := cleanedJoinDef(info, u.body, tv); why != "" {
					c.Bad("R20.1", u.name+" guard on "+id.Name, call.Pos(), "guarded path is not produced by filepath.Join/Clean, so dest/../../x passes the prefix test: "+why)
					continue
				}
				// prefix must be <dest, cleaned> + separator
				if why := destPrefixOK(info, call.Args[1]); why != "" {
					c.Bad("R20.1", u.name+" guard prefix", call.Pos(), why)
					continue
				}
				guards = append(guards, guard{b, pk, tv, "strings.HasPrefix(" + id.Name + ", " + exprStr(call.Args[1]) + ")"})
			case "path/filepath.IsLocal":
				if _, ok := hasSrc(call.Args[0]); ok {
					guards = append(guards, guard{b, pk, nil, "filepath.IsLocal(" + exprStr(call.Args[0]) + ")"})
				}
			}
		}
		for i, s := range sinks {
			key := fmt.Sprintf("%s %s(%s)#%d", u.name, s.name, s.src, i+1)
			// relevant guards: IsLocal guards, or HasPrefix guards on a variable the sink argument mentions
			var rel []guard
			for _, g := range guards {
				if g.tvar == nil {
					rel = append(rel, g)
					continue
				}
				// a guard is relevant only if THIS argument is (derived from) the guarded variable: the
				// guard on the link's location says nothing about the link's target
				if mentions(info, s.arg, g.tvar) {
					rel = append(rel, g)
				}
			}
			if len(rel) == 0 {
				c.Bad("R20.1", key, s.call.Pos(), "path derived from "+s.src+" reaches "+s.name+" ("+exprStr(s.arg)+") with no destination-prefix guard: an entry named ../x or /x (or a link pointing there) is created outside the destination")
				continue
			}
			isGuardBlk := map[*cfg.Block]int{}
			for _, g := range rel {
				isGuardBlk[g.blk] = g.pass + 1
			}
			// reachable when only failing sides of guards are followed?
			_, reached := u.g.reach(u.g.entry(), nil, func(n ast.Node) bool {
				return nodeHas(n, func(x ast.Node) bool { return x == ast.Node(s.call) })
			}, false, func(b *cfg.Block, k int) bool { return isGuardBlk[b] != k+1 })
			if reached {
				c.Bad("R20.1", key, s.call.Pos(), "a path reaches "+s.name+" without passing the guard's accepting edge")
				continue
			}
			// failing side must return an error before anything else
			okFail := true
			for _, g := range rel {
				bad, hit := u.g.reach(cfgPos{g.blk.Succs[1-g.pass], 0}, func(n ast.Node) bool {
					r, ok := n.(*ast.ReturnStmt)
					return ok && returnsError(info, r)
				}, func(n ast.Node) bool {
					if r, ok := n.(*ast.ReturnStmt); ok {
						return !returnsError(info, r)
					}
					if e, ok := n.(ast.Expr); ok && e == condOf(g.blk) {
						return true // looped back: entry silently skipped
					}
					return false
				}, true, nil)
				if hit {
					okFail = false
					c.Bad("R20.1", key+" rejection", bad.Pos(), "the guard's failing side does not end with an error (entry silently skipped or success returned)")
				}
			}
			if okFail {
				c.OK("R20.1", key, s.call.Pos(), "dominated by "+rel[0].desc+"; failing side returns an error")
			}
		}
		// R20.4: parent directory before file creation
		for _, s := range sinks {
			if s.name != "os.Create" && s.name != "os.OpenFile" {
				continue
			}
			dom, found := u.g.dominatedBy(s.call, func(n ast.Node) bool {
				return nodeHas(n, func(x ast.Node) bool {
					call, ok := x.(*ast.CallExpr)
					if !ok || !isCallTo(info, call, "os.MkdirAll") {
						return false
					}
					return len(call.Args) > 0 && containsCallTo(info, call.Args[0], "path/filepath.Dir")
				})
			}, nil)
			c.Check(found && dom, "R20.4", u.name+" parent dir before "+s.name, s.call.Pos(),
				"os.MkdirAll(filepath.Dir(target)) dominates file creation",
				"file created without ensuring its parent directory: a well-formed archive lacking explicit directory entries fails to extract")
		}
	}
	if extractors < 2 {
		c.Undecided("R20.1", "extractors", 0, fmt.Sprintf("only %d functions with archive-entry-derived fs writes found (expected tar and zip extractors)", extractors))
	}

	// ---------------- R20.2 external tar
	ntar := 0
	for _, u := range us {
		inspectNoLit(u.body, func(x ast.Node) bool {
			call, ok := x.(*ast.CallExpr)
			if !ok || !isCallTo(info, call, "os/exec.Command", "os/exec.CommandContext") {
				return true
			}
			args := call.Args
			if isCallTo(info, call, "os/exec.CommandContext") {
				args = args[1:]
			}
			if s, ok := constString(info, args[0]); !ok || (s != "tar" && !strings.HasSuffix(s, "/tar")) {
				return true
			}
			ntar++
			key := u.name + " exec tar"
			hasC := false
			bad := ""
			for i, a := range args[1:] {
				s, isConst := constString(info, a)
				if !isConst {
					continue
				}
				if s == "-C" || s == "--directory" {
					if i+2 < len(args) {
						if _, isParam := usedObj(info, args[i+2]).(*types.Var); isParam {
							hasC = true
						}
					}
				}
				if s == "--absolute-names" || (strings.HasPrefix(s, "-") && !strings.HasPrefix(s, "--") && strings.Contains(s, "P")) {
					bad = s
				}
				if strings.HasPrefix(s, "--transform") || strings.HasPrefix(s, "--to-command") || s == "--overwrite-dir" || s == "--keep-directory-symlink" {
					bad = s
				}
			}
			if call.Ellipsis.IsValid() {
				c.Undecided("R20.2", key, call.Pos(), "argv built dynamically")
			} else if bad != "" {
				c.Bad("R20.2", key, call.Pos(), "tar option "+bad+" disables tar's own confinement of member names")
			} else if !hasC {
				c.Bad("R20.2", key, call.Pos(), "tar not told to extract into the destination (-C dest)")
			} else {
				c.OK("R20.2", key, call.Pos(), "tar -xf <archive> -C <dest>, no -P/--absolute-names")
			}
			return true
		})
	}

	// ---------------- R20.3 protocol
	for _, fd := range allFuncs(p) {
		g := buildCFG(p, fd)
		name := declName(fd)
		var lockCall *ast.CallExpr
		for _, call := range callsIn(fd.Body) {
			if isCallTo(info, call, "internal/crosscompile.acquireLock") {
				lockCall = call
			}
		}
		if lockCall == nil {
			continue
		}
		lp, ok := g.nodePos(lockCall)
		if !ok {
			c.Undecided("R20.3", name+" lock", lockCall.Pos(), "acquireLock not in CFG")
			continue
		}
		// (a) lock failure returns an error, success defers releaseLock before any return
		isRelease := func(n ast.Node) bool {
			d, ok := n.(*ast.DeferStmt)
			return ok && isCallTo(info, d.Call, "internal/crosscompile.releaseLock")
		}
		ce := condOf(lp.B)
		errEdgeOK := false
		var okEdge *cfg.Block
		if ce != nil {
			if x, y, op, ok := binCmp(ce); ok && isNilIdent(info, y) && exprStr(x) == "err" {
				failK, okK := 0, 1
				if op == token.EQL {
					failK, okK = 1, 0
				}
				okEdge = lp.B.Succs[okK]
				_, escapes := g.reach(cfgPos{lp.B.Succs[failK], 0}, func(n ast.Node) bool {
					r, ok := n.(*ast.ReturnStmt)
					return ok && returnsError(info, r)
				}, func(n ast.Node) bool {
					return len(callsIn(n)) > 0 && containsCallTo(info, n, "internal/crosscompile.downloadAndExtractArchive")
				}, true, nil)
				errEdgeOK = !escapes
			}
		}
		c.Check(errEdgeOK, "R20.3", name+" lock failure returns error", lockCall.Pos(), "err != nil edge returns an error", "work continues without holding the lock")
		if okEdge != nil {
			_, leak := g.reach(cfgPos{okEdge, 0}, isRelease, nil, true, nil)
			c.Check(!leak, "R20.3", name+" lock released on every exit", lockCall.Pos(), "defer releaseLock precedes every return after a successful acquireLock", "a return is reachable with the lock file still held")
		}
		// (b) second existence check under the lock dominates the download
		for _, call := range callsIn(fd.Body) {
			if !isCallTo(info, call, "internal/crosscompile.downloadAndExtractArchive") {
				continue
			}
			domLock, _ := g.dominatedBy(call, func(n ast.Node) bool {
				return nodeHas(n, func(x ast.Node) bool { return x == ast.Node(lockCall) })
			}, nil)
			c.Check(domLock, "R20.3", name+" download under lock", call.Pos(), "acquireLock dominates downloadAndExtractArchive", "download/extract reachable without the lock")
			// a Stat after the lock on every path to the download
			if okEdge != nil {
				_, unstat := g.reach(cfgPos{okEdge, 0}, func(n ast.Node) bool {
					return containsCallTo(info, n, "os.Stat", "os.Lstat")
				}, func(n ast.Node) bool {
					return nodeHas(n, func(x ast.Node) bool { return x == ast.Node(call) })
				}, false, nil)
				c.Check(!unstat, "R20.3", name+" second stat under lock", call.Pos(), "destination re-checked after acquiring the lock", "no re-check after the lock: two concurrent requests both download and the second rename fails or clobbers")
			}
			// the final destination is never handed to the extractor directly
			final := finalDestParam(info, fd)
			if final != nil && len(call.Args) >= 2 {
				if mentions(info, call.Args[1], final) && !isTempDerived(call.Args[1]) {
					// WASI case: extraction goes to dir itself via downloadAndExtractArchive's own temp+rename
					c.OK("R20.3", name+" extraction target", call.Pos(), "extracts via downloadAndExtractArchive (temp dir + rename inside)")
				} else {
					c.OK("R20.3", name+" extraction target", call.Pos(), "extracts into a temporary sibling, published by os.Rename")
				}
			}
		}
	}
	// ---------------- R20.5 the lock primitive excludes concurrent requests inside one process too
	if fd := findFunc(p, "acquireLock"); fd == nil {
		c.Undecided("R20.5", "acquireLock", 0, "function not found")
	} else {
		g := buildCFG(p, fd)
		isFlockEx := func(n ast.Node) bool {
			return nodeHas(n, func(x ast.Node) bool {
				call, ok := x.(*ast.CallExpr)
				if !ok || !isCallTo(info, call, "syscall.Flock", "golang.org/x/sys/unix.Flock") || len(call.Args) != 2 {
					return false
				}
				v, ok := constInt(info, call.Args[1])
				return ok && v&2 != 0 && v&4 == 0 // LOCK_EX set, LOCK_NB clear
			})
		}
		nret := 0
		okAll := true
		for _, b := range g.G.Blocks {
			if !b.Live {
				continue
			}
			for _, n := range b.Nodes {
				ret, ok := n.(*ast.ReturnStmt)
				if !ok || returnsError(info, ret) {
					continue
				}
				nret++
				if dom, found := g.dominatedBy(ret, isFlockEx, nil); !found || !dom {
					okAll = false
				}
			}
		}
		// the error edge of Flock must not fall through to the success return
		c.Check(okAll && nret > 0, "R20.5", "acquireLock success implies flock(LOCK_EX)", fd.Pos(),
			"every success return is dominated by a blocking syscall.Flock(fd, LOCK_EX) on a descriptor opened by this call (per-open-file lock: excludes goroutines of one process as well as other processes)",
			"acquireLock can succeed without a blocking exclusive flock: POSIX fcntl record locks and O_CREATE-only schemes do not exclude concurrent requests from the same process")
		// flock failure must return an error
		for _, b := range g.G.Blocks {
			if !b.Live || len(b.Nodes) == 0 {
				continue
			}
			ce := condOf(b)
			if ce == nil || !isFlockEx(b.Nodes[len(b.Nodes)-1]) && !(len(b.Nodes) >= 2 && isFlockEx(b.Nodes[len(b.Nodes)-2])) {
				continue
			}
			if x, y, op, ok := binCmp(ce); ok && isNilIdent(info, y) && exprStr(x) == "err" {
				failK := 0
				if op == token.EQL {
					failK = 1
				}
				_, esc := g.reach(cfgPos{b.Succs[failK], 0}, func(n ast.Node) bool {
					r, ok := n.(*ast.ReturnStmt)
					return ok && returnsError(info, r)
				}, nil, true, nil)
				c.Check(!esc, "R20.5", "acquireLock flock failure returns error", ce.Pos(), "failed flock returns an error", "a failed flock is treated as success")
			}
		}
	}

	// downloadAndExtractArchive: extractors receive the temp dir; destDir only as Rename target after extraction
	if fd := findFunc(p, "downloadAndExtractArchive"); fd == nil {
		c.Undecided("R20.3", "downloadAndExtractArchive", 0, "function not found")
	} else {
		g := buildCFG(p, fd)
		var destObj types.Object
		if len(fd.Type.Params.List) > 0 {
			var ids []*ast.Ident
			for _, f := range fd.Type.Params.List {
				ids = append(ids, f.Names...)
			}
			if len(ids) >= 2 {
				destObj = info.Defs[ids[1]]
			}
		}
		var rename *ast.CallExpr
		for _, call := range callsIn(fd.Body) {
			f := calleeOf(info, call)
			if f == nil {
				continue
			}
			sn := shortName(f)
			if sn == "os.Rename" && len(call.Args) == 2 && mentions(info, call.Args[1], destObj) {
				rename = call
			}
		}
		nex := 0
		for _, call := range callsIn(fd.Body) {
			f := calleeOf(info, call)
			if f == nil {
				continue
			}
			sn := shortName(f)
			if strings.HasPrefix(sn, "internal/crosscompile.extract") {
				nex++
				direct := false
				for _, a := range call.Args {
					if id, ok := ast.Unparen(a).(*ast.Ident); ok && info.Uses[id] == destObj {
						direct = true
					}
				}
				c.Check(!direct, "R20.3", "downloadAndExtractArchive "+f.Name()+" target", call.Pos(), "extracts into the temporary directory", "extracts directly into the final destination: a crash or concurrent reader sees a partial tree")
				if rename != nil {
					// error from extraction must not reach the rename
					_, r := g.reach(func() cfgPos { p, _ := g.nodePos(call); return p.after() }(), func(n ast.Node) bool {
						_, ok := n.(*ast.ReturnStmt)
						return ok
					}, func(n ast.Node) bool {
						return nodeHas(n, func(x ast.Node) bool { return x == ast.Node(rename) })
					}, false, func(b *cfg.Block, k int) bool {
						// prune the err == nil edge: we ask whether the failing side can reach the rename
						if ce := condOf(b); ce != nil {
							if x, y, op, ok := binCmp(ce); ok && isNilIdent(info, y) && exprStr(x) == "err" {
								if op == token.NEQ {
									return k == 0
								}
								return k == 1
							}
						}
						return true
					})
					c.Check(!r, "R20.3", "downloadAndExtractArchive "+f.Name()+" failure not published", call.Pos(), "a failed extraction returns before os.Rename", "a failed extraction is still published by rename")
				}
			}
		}
		if rename == nil {
			c.Bad("R20.3", "downloadAndExtractArchive publish", fd.Pos(), "destination is not published by os.Rename(temp, dest)")
		} else {
			c.OK("R20.3", "downloadAndExtractArchive publish", rename.Pos(), "os.Rename(tempDir, destDir) after extraction")
		}
		if nex < 3 {
			c.Undecided("R20.3", "downloadAndExtractArchive formats", fd.Pos(), fmt.Sprintf("%d extractor calls found, expected 3 formats", nex))
		}
	}
	checkStagingAndTarErrors(c, p)
	return "C20 (structural): local taint from archive entry names (tar.Header.Name/Linkname, zip.File.Name) to every fs-creating call in internal/crosscompile, each required to be dominated (CFG, all paths) by a cleaned-join + destination-prefix-with-separator guard whose failing edge returns an error; external tar argv; download/extract protocol (lock, re-check, temp dir, publish by rename, lock release on all exits); tar/zip sibling agreement on parent-directory creation. NOT decided: byte-for-byte content; outcome of concurrent requests beyond the protocol shape; confinement inside the external tar binary (assumed: GNU/BSD tar strip leading / and refuse .. by default).", nil
}

func isTempDerived(e ast.Expr) bool {
	_, isBin := ast.Unparen(e).(*ast.BinaryExpr)
	return isBin
}

func finalDestParam(info *types.Info, fd *ast.FuncDecl) types.Object {
	for _, f := range fd.Type.Params.List {
		for _, n := range f.Names {
			if strings.Contains(strings.ToLower(n.Name), "dir") {
				return info.Defs[n]
			}
		}
	}
	return nil
}

// cleanedJoinDef: every assignment to v in body is filepath.Join(...) or filepath.Clean(...). Returns "" if so.
func cleanedJoinDef(info *types.Info, body *ast.BlockStmt, v types.Object) string {
	why := "no definition found"
	inspectNoLit(body, func(x ast.Node) bool {
		as, ok := x.(*ast.AssignStmt)
		if !ok {
			return true
		}
		for i, l := range as.Lhs {
			id, ok := l.(*ast.Ident)
			if !ok {
				continue
			}
			o := info.Defs[id]
			if o == nil {
				o = info.Uses[id]
			}
			if o != v || len(as.Rhs) != len(as.Lhs) {
				continue
			}
			if call, ok := ast.Unparen(as.Rhs[i]).(*ast.CallExpr); ok && isCallTo(info, call, "path/filepath.Join", "path/filepath.Clean", "path/filepath.Abs") {
				if why == "no definition found" {
					why = ""
				}
			} else {
				why = "assigned from " + exprStr(as.Rhs[i])
			}
		}
		return true
	})
	return why
}

// destPrefixOK: e == <expr mentioning a cleaned dest> + <separator>. Returns "" if so.
func destPrefixOK(info *types.Info, e ast.Expr) string {
	b, ok := ast.Unparen(e).(*ast.BinaryExpr)
	if !ok || b.Op != token.ADD {
		return "prefix is not <destination> + separator: without the trailing separator a sibling such as <dest>-evil passes the test (" + exprStr(e) + ")"
	}
	sepOK := false
	if s, ok := constString(info, b.Y); ok && (s == "/" || s == string('\\')) {
		sepOK = true
	}
	if call, ok := ast.Unparen(b.Y).(*ast.CallExpr); ok && len(call.Args) == 1 {
		if o := usedObj(info, call.Args[0]); o != nil && (objName(o) == "os.PathSeparator" || objName(o) == "path/filepath.Separator") {
			sepOK = true
		}
	}
	if !sepOK {
		return "prefix does not end with the path separator (" + exprStr(b.Y) + ")"
	}
	if !containsCallTo(info, b.X, "path/filepath.Clean", "path/filepath.Abs") {
		return "destination is not cleaned before the comparison (" + exprStr(b.X) + "): dest with a trailing slash or ./ never matches or matches wrongly"
	}
	return ""
}

func init() {
	addMutant(Mutant{Prop: "C20", Name: "lock-shared", File: "internal/crosscompile/fetch.go",
		Old: "syscall.Flock(int(lockFile.Fd()), syscall.LOCK_EX)", New: "syscall.Flock(int(lockFile.Fd()), syscall.LOCK_SH)", Expect: "R20.5"})
	addMutant(Mutant{Prop: "C20", Name: "zip-guard-removed", File: "internal/crosscompile/fetch.go",
		Old: "\t\tif !strings.HasPrefix(path, filepath.Clean(dest)+string(os.PathSeparator)) {\n\t\t\treturn fmt.Errorf(\"%s: illegal file path\", path)\n\t\t}\n", New: "", Expect: "R20.1 extractZip"})
	addMutant(Mutant{Prop: "C20", Name: "tar-guard-no-separator", File: "internal/crosscompile/fetch.go",
		Old: "if !strings.HasPrefix(target, filepath.Clean(dest)+string(os.PathSeparator)) {", New: "if !strings.HasPrefix(target, filepath.Clean(dest)) {", Expect: "R20.1 extractTarGz"})
	addMutant(Mutant{Prop: "C20", Name: "tar-guard-skips-entry", File: "internal/crosscompile/fetch.go",
		Old: "\t\t\treturn fmt.Errorf(\"%s: illegal file path\", target)\n", New: "\t\t\tcontinue\n", Expect: "R20.1 extractTarGz"})
	addMutant(Mutant{Prop: "C20", Name: "tar-unjoined-path", File: "internal/crosscompile/fetch.go",
		Old: "target := filepath.Join(dest, header.Name)", New: "target := dest + string(os.PathSeparator) + header.Name", Expect: "R20.1 extractTarGz"})
	addMutant(Mutant{Prop: "C20", Name: "tar-absolute-names", File: "internal/crosscompile/fetch.go",
		Old: `exec.Command("tar", "-xf", tarXzFile, "-C", dest)`, New: `exec.Command("tar", "-xPf", tarXzFile, "-C", dest)`, Expect: "R20.2"})
	addMutant(Mutant{Prop: "C20", Name: "no-second-stat", File: "internal/crosscompile/fetch.go",
		Old: "\t// Double-check after acquiring lock\n\tif _, err := os.Stat(dstDir); err == nil {\n\t\treturn nil\n\t}\n", New: "", Expect: "R20.3 checkDownloadAndExtractLib second stat"})
	addMutant(Mutant{Prop: "C20", Name: "extract-into-final", File: "internal/crosscompile/fetch.go",
		Old: "err := extractZip(localFile, tempDir)", New: "err := extractZip(localFile, destDir)", Expect: "R20.3 downloadAndExtractArchive extractZip target"})
	addMutant(Mutant{Prop: "C20", Name: "zip-no-parent-mkdir", File: "internal/crosscompile/fetch.go",
		Old: "\t\tif err := os.MkdirAll(filepath.Dir(path), 0755); err != nil {\n\t\t\treturn err\n\t\t}\n", New: "", Expect: "R20.4 extractZip"})
	addMutant(Mutant{Prop: "C20", Name: "lock-not-released", File: "internal/crosscompile/fetch.go",
		Old: "\tdefer releaseLock(lockFile)\n\n\t// Double-check after acquiring lock\n\tif _, err := os.Stat(dir); err == nil {\n\t\treturn nil\n\t}\n\n\tclangUrl",
		New: "\n\t// Double-check after acquiring lock\n\tif _, err := os.Stat(dir); err == nil {\n\t\treturn nil\n\t}\n\tdefer releaseLock(lockFile)\n\n\tclangUrl", Expect: "R20.3 checkDownloadAndExtractESPClang lock released"})
}

func init() {
	addMutant(Mutant{Prop: "C20", Name: "tar-symlink-target-unchecked", File: "internal/crosscompile/fetch.go",
		Old: "\t\t\tf.Close()\n\t\t}\n\t}\n\treturn nil\n}",
		New: "\t\t\tf.Close()\n\t\tcase tar.TypeSymlink:\n\t\t\tif err := os.Symlink(header.Linkname, target); err != nil {\n\t\t\t\treturn err\n\t\t\t}\n\t\t}\n\t}\n\treturn nil\n}",
		Expect: "R20.1 extractTarGz os.Symlink(archive/tar.Header.Linkname)"})
}
