package main

import (
	"fmt"
	"go/ast"
	"go/token"
	"go/types"
	"strings"

	"golang.org/x/tools/go/packages"
)

// checkFloatNegation (R02.8): -x on floating-point and complex operands flips the sign bit (fneg), also for
// zeros and NaNs; 0 - x is a different function (0 - (+0) = +0).
func checkFloatNegation(c *Ctx, sp *packages.Package) {
	c.Rule("R02.8", "unary minus on float and complex operands is emitted as fneg on each part, never as a subtraction from zero (which loses the sign of zero)", 2)
	fd := findFunc(sp, "Builder.UnOp")
	if fd == nil {
		c.Undecided("R02.8", "ssa.Builder.UnOp", 0, "function not found")
		return
	}
	c.nfuncs++
	info := sp.TypesInfo
	// locate the arms by the go/types info flag tested on their path
	for _, kind := range []string{"IsFloat", "IsComplex"} {
		fneg, sub := 0, ""
		n := 0
		ast.Inspect(fd.Body, func(x ast.Node) bool {
			call, ok := x.(*ast.CallExpr)
			if !ok {
				return true
			}
			onPath := false
			for _, cp := range pathConds(fd.Body, call) {
				if cp.pol && strings.Contains(exprStr(cp.cond), "types."+kind) {
					onPath = true
				}
			}
			if !onPath {
				return true
			}
			n++
			f := calleeOf(info, call)
			if f == nil {
				return true
			}
			switch f.Name() {
			case "CreateFNeg":
				fneg++
			case "CreateFSub", "CreateSub", "BinOp":
				sub = f.Name()
			}
			return true
		})
		want := 1
		if kind == "IsComplex" {
			want = 2
		}
		key := "ssa.Builder.UnOp minus on " + strings.TrimPrefix(kind, "Is") + " operands"
		if n == 0 {
			c.Undecided("R02.8", key, fd.Pos(), "arm guarded by types."+kind+" not found")
			continue
		}
		c.Check(fneg == want && sub == "", "R02.8", key, fd.Pos(), fmt.Sprintf("%d fneg", want), fmt.Sprintf("%d fneg and a %s in the arm: -x computed as 0 - x gives +0 for x = +0 where Go (IEEE negation) gives -0", fneg, sub))
	}
}

// checkClTypeArgQualifier (R07.5/R14.1 sibling): cl.typeArgName renders named type arguments with the package
// PATH, like ssa/abi.typeArgString which it must stay aligned with.
func checkClTypeArgQualifier(c *Ctx, rule string, cp *packages.Package) {
	fd := findFunc(cp, "context.typeArgName")
	if fd == nil {
		c.Undecided(rule, "cl.context.typeArgName named type arguments", 0, "function not found")
		return
	}
	c.nfuncs++
	arms, _ := typeSwitchArms(fd)
	cc := arms["Named"]
	if cc == nil {
		c.Undecided(rule, "cl.context.typeArgName named type arguments", fd.Pos(), "no arm for *types.Named")
		return
	}
	info := cp.TypesInfo
	path, name := false, false
	helper := ""
	for _, call := range callsIn(cc) {
		f := calleeOf(info, call)
		if f == nil {
			continue
		}
		if sig, ok := f.Type().(*types.Signature); ok && sig.Recv() != nil && recvNamed(f) == "Package" {
			switch f.Name() {
			case "Path":
				path = true
			case "Name":
				name = true
			}
		}
		// one level of helper in the same package
		if f.Pkg() == cp.Types && f.Name() != "localNamedName" && f.Name() != "isLocalType" {
			if hd := findFunc(cp, f.Name()); hd != nil {
				hs := srcOf(hd.Body)
				if strings.Contains(hs, ".Name()") && !strings.Contains(hs, ".Path()") && strings.Contains(strings.ToLower(f.Name()), "qualif") {
					name, helper = true, f.Name()
				}
				if strings.Contains(hs, ".Path()") && strings.Contains(strings.ToLower(f.Name()), "qualif") {
					path = true
				}
			}
		}
	}
	c.Check(path && !name, rule, "cl.context.typeArgName qualifies named type arguments by package path", cc.Pos(), "pkg.Path() + \".\" + name",
		"named type arguments are qualified by the package NAME"+map[bool]string{true: " (through " + helper + ")", false: ""}[helper != ""]+": instances over a/model.Rec and b/model.Rec rename their local types identically and share one descriptor")
}

// checkImplementsFullTable (R07.7): an interface may contain unexported methods; the run-time check that a
// concrete type implements it must scan the type's complete method table.
func checkImplementsFullTable(c *Ctx, rp *packages.Package) {
	c.Rule("R07.7", "runtime.Implements scans the complete method table of the concrete type (exported and unexported methods) and rejects a nil dynamic type first", 2)
	fd := findFunc(rp, "Implements")
	if fd == nil {
		c.Undecided("R07.7", "runtime.Implements", 0, "function not found")
		return
	}
	c.nfuncs++
	info := rp.TypesInfo
	full, prefix := false, false
	for _, call := range callsIn(fd.Body) {
		f := calleeOf(info, call)
		if f == nil || recvNamed(f) != "UncommonType" {
			continue
		}
		switch f.Name() {
		case "Methods":
			full = true
		case "ExportedMethods":
			prefix = true
		}
	}
	// a nil dynamic type implements nothing - not even the empty interface: x.(any) on a nil interface panics
	g := buildCFG(rp, fd)
	isNilGuard := func(n ast.Node) bool {
		e, ok := n.(ast.Expr)
		if !ok {
			return false
		}
		x, y, op, isCmp := binCmp(e)
		return isCmp && op == token.EQL && exprStr(x) == "V" && isNilIdent(info, y)
	}
	retTrue := func(n ast.Node) bool {
		r, ok := n.(*ast.ReturnStmt)
		if !ok || len(r.Results) != 1 {
			return false
		}
		bv, isC := constBool(info, r.Results[0])
		return isC && bv
	}
	hit, reached := g.reach(g.entry(), isNilGuard, retTrue, false, nil)
	c.Check(!reached, "R07.7", "runtime.Implements rejects a nil dynamic type before anything else", fd.Pos(), "V == nil is tested on every path to `return true`",
		"`return true` ("+c.posStr(posOf(hit))+") is reachable without testing V == nil: a nil interface value asserted to an empty interface type succeeds instead of panicking")
	bound := strings.Contains(strings.ReplaceAll(srcOf(fd.Body), " ", ""), "int(v.Mcount)") || strings.Contains(strings.ReplaceAll(srcOf(fd.Body), " ", ""), "len(vmethods)")
	c.Check(full && !prefix && bound, "R07.7", "runtime.Implements scans all methods of the concrete type", fd.Pos(), "UncommonType.Methods(), Mcount entries",
		"the concrete type's methods are taken from ExportedMethods (or the scan is bounded by Xcount): an interface with an unexported method is reported as not implemented, so x.(ast.Expr) fails for *ast.Ident at run time although the static conversion works")
}

func init() {
	addMutant(Mutant{Prop: "C02", Name: "complex-neg-as-zero-minus-x", File: "ssa/expr.go",
		Old: "\t\t\t\tr := b.impl.CreateExtractValue(x.impl, 0, \"\")\n\t\t\t\ti := b.impl.CreateExtractValue(x.impl, 1, \"\")\n\t\t\t\treturn b.aggregateValue(x.Type, llvm.CreateFNeg(b.impl, r), llvm.CreateFNeg(b.impl, i))",
		New: "\t\t\t\treturn b.BinOp(token.SUB, b.Prog.Zero(x.Type), x)", Expect: "R02.8 ssa.Builder.UnOp minus on Complex"})
	addMutant(Mutant{Prop: "C07", Name: "implements-scans-exported-only", File: "runtime/internal/runtime/z_face.go",
		Old: "\tvmethods := v.Methods()\n\tfor j := 0; j < int(v.Mcount); j++ {", New: "\tvmethods := v.ExportedMethods()\n\tfor j := 0; j < len(vmethods); j++ {", Expect: "R07.7"})
	addMutant(Mutant{Prop: "C07", Name: "cl-typearg-named-by-pkg-name", File: "cl/compile.go",
		Old: "\t\tif pkg := t.Obj().Pkg(); pkg != nil {\n\t\t\treturn pkg.Path() + \".\" + name\n\t\t}", New: "\t\tif pkg := t.Obj().Pkg(); pkg != nil {\n\t\t\treturn pkg.Name() + \".\" + name\n\t\t}", Expect: "R07.5 cl.context.typeArgName"})
}

// checkNotifyOneUnderLock (R11.9): the decision "is there an un-notified waiter" and the increment of the
// notify counter form one critical section; a test made before the lock is taken can be shared by two
// signallers that then both increment.
func checkNotifyOneUnderLock(c *Ctx, lp *packages.Package) {
	c.Rule("R11.9", "notifyListNotifyOne advances the notify ticket only after comparing it with the wait ticket while holding the list's mutex", 1)
	fd := findFunc(lp, "sync_runtime_notifyListNotifyOne")
	if fd == nil {
		c.Undecided("R11.9", "libruntime.sync_runtime_notifyListNotifyOne", 0, "function not found")
		return
	}
	c.nfuncs++
	g := buildCFG(lp, fd)
	isLock := func(n ast.Node) bool {
		return nodeHas(n, func(x ast.Node) bool {
			call, ok := x.(*ast.CallExpr)
			if !ok {
				return false
			}
			se, ok := call.Fun.(*ast.SelectorExpr)
			return ok && se.Sel.Name == "Lock"
		})
	}
	isCmp := func(n ast.Node) bool {
		e, ok := n.(ast.Expr)
		if !ok {
			return false
		}
		s := strings.ReplaceAll(exprStr(e), " ", "")
		return strings.Contains(s, ".notify)") && strings.Contains(s, ".wait)") && (strings.Contains(s, "!=") || strings.Contains(s, "=="))
	}
	isAdd := func(n ast.Node) bool {
		return nodeHas(n, func(x ast.Node) bool {
			call, ok := x.(*ast.CallExpr)
			return ok && strings.Contains(strings.ReplaceAll(exprStr(call), " ", ""), "AddUint32(&l.notify")
		})
	}
	var lock ast.Node
	for _, b := range g.G.Blocks {
		for _, nd := range b.Nodes {
			if isLock(nd) && lock == nil {
				lock = nd
			}
		}
	}
	if lock == nil {
		c.Bad("R11.9", "libruntime.notifyListNotifyOne compares tickets under the lock", fd.Pos(), "no Lock call")
		return
	}
	lp2, _ := g.nodePos(lock)
	hit, reached := g.reach(lp2.after(), isCmp, isAdd, false, nil)
	c.Check(!reached, "R11.9", "libruntime.notifyListNotifyOne compares tickets under the lock", fd.Pos(), "notify != wait tested between Lock and the increment",
		"the notify ticket is advanced ("+c.posStr(posOf(hit))+") without comparing it with the wait ticket inside the critical section: two concurrent Signals with one waiter both advance it, notify passes wait, and the next Wait returns without a Signal")
}

// checkAddReturnNew (R11.10): the value returned by atomic.AddT is the result of the read-modify-write itself
// (old + delta); a separate load may already contain another thread's update.
func checkAddReturnNew(c *Ctx, cp *packages.Package) {
	c.Rule("R11.10", "atomic.AddT returns rmw-result + delta from a single atomic access (no second load of the word)", 1)
	fd := findFunc(cp, "context.callEx")
	if fd == nil {
		c.Undecided("R11.10", "cl.context.callEx", 0, "function not found")
		return
	}
	c.nfuncs++
	var arm *ast.CaseClause
	ast.Inspect(fd.Body, func(n ast.Node) bool {
		if cc, ok := n.(*ast.CaseClause); ok && len(cc.List) == 1 && exprStr(cc.List[0]) == "llgoAtomicAddReturnNew" {
			arm = cc
		}
		return true
	})
	if arm == nil {
		c.Undecided("R11.10", "cl.context.callEx llgoAtomicAddReturnNew arm", fd.Pos(), "arm not found")
		return
	}
	info := cp.TypesInfo
	rmw, other := 0, ""
	ast.Inspect(arm, func(n ast.Node) bool { // including the emission closure
		call, ok := n.(*ast.CallExpr)
		if !ok {
			return true
		}
		f := calleeOf(info, call)
		if f == nil {
			return true
		}
		switch f.Name() {
		case "atomic":
			rmw++
		case "atomicLoad", "atomicStore", "atomicCmpXchg", "Load":
			other = f.Name()
		}
		return true
	})
	s := strings.ReplaceAll(srcOf(arm), " ", "")
	okRet := strings.Contains(s, "returnb.BinOp(token.ADD,p.atomic(b,llssa.OpAdd,args),args[1])")
	c.Check(rmw == 1 && other == "" && okRet, "R11.10", "cl.context.callEx AddT result", arm.Pos(), "BinOp(ADD, atomicrmw add result, delta)",
		fmt.Sprintf("the new value is not computed from the read-modify-write result alone (%d rmw, extra access %q): another thread's update between the two accesses is returned as this call's result, so two WaitGroup.Done can both observe zero", rmw, other))
}

// checkNoStoreThroughCast (R09.8): the C-ABI rewriter reinterprets values through memory.  A value is always
// stored into a slot of ITS OWN type and read back through a cast; a store through a cast pointer can be
// wider than the slot (an 8-byte coerced register into a 3-byte struct).
func checkNoStoreThroughCast(c *Ctx, ab *packages.Package) {
	c.Rule("R09.8", "the C-ABI rewriter never stores through a reinterpreting cast: values are stored into a slot of their own type and read back through the cast", 6)
	n := 0
	for _, name := range []string{"Transformer.transformFuncBody", "Transformer.transformCallInstr", "Transformer.transformCallbackFunc"} {
		fd := findFunc(ab, name)
		if fd == nil {
			c.Undecided("R09.8", "cabi."+name, 0, "function not found")
			continue
		}
		c.nfuncs++
		v := newFnView(ab, fd)
		for _, call := range v.findCalls(fd.Body, "llvm.Builder.CreateStore") {
			_, args, _ := v.call(call)
			if len(args) != 2 {
				continue
			}
			n++
			dst := v.res(args[1])
			dn, _, isCall := v.call(dst)
			viaCast := isCall && (dn == "llvm.Builder.CreateBitCast" || dn == "llvm.Builder.CreatePointerCast")
			for _, d := range v.allDefs(args[1]) {
				if d != nil {
					if nm, _, ok := v.call(d); ok && (nm == "llvm.Builder.CreateBitCast" || nm == "llvm.Builder.CreatePointerCast") {
						viaCast = true
					}
				}
			}
			c.Check(!viaCast, "R09.8", fmt.Sprintf("cabi.%s store #%d goes to a slot of the stored type", name, n), call.Pos(), exprStr(args[1]),
				"the value is stored through a cast pointer ("+exprStr(dst)+"): a coerced register wider than the struct (i64 for a 3-byte struct on arm64) overruns the slot; at -O2 LLVM drops the store and the parameter's fields read undef")
		}
	}
	if n == 0 {
		c.Undecided("R09.8", "cabi stores", 0, "no CreateStore found")
	}
}

// checkCFuncCallbackWrapping (R09.9): in C-functions-only mode every C function's call sites are scanned for Go
// callbacks that need a C-ABI wrapper, whatever the C function's own prototype looks like.
func checkCFuncCallbackWrapping(c *Ctx, ab *packages.Package) {
	c.Rule("R09.9", "in ModeCFunc the callback arguments of every C function are wrapped, independently of whether the C function's own signature contains aggregates", 1)
	fd := findFunc(ab, "Transformer.TransformModule")
	if fd == nil {
		c.Undecided("R09.9", "cabi.Transformer.TransformModule", 0, "function not found")
		return
	}
	c.nfuncs++
	info := ab.TypesInfo
	n := 0
	for _, call := range callsIn(fd.Body) {
		f := calleeOf(info, call)
		if f == nil || f.Name() != "transformFuncCall" {
			continue
		}
		n++
		gated := ""
		for _, cp := range pathConds(fd.Body, call) {
			if s := exprStr(cp.cond); strings.Contains(s, "isWrapFunctionType") || strings.Contains(s, "IsWrapType") {
				gated = s
			}
		}
		c.Check(gated == "", "R09.9", "cabi.Transformer.TransformModule wraps callbacks of every C function", call.Pos(), "transformFuncCall guarded only by isCFunc / skip list",
			"callback wrapping runs only when "+gated+": a Go callback handed to a C function with a scalar-only prototype (qsort-like, set_handler(cb, ud)) reaches C with its Go-level signature")
	}
	if n == 0 {
		c.Undecided("R09.9", "cabi.Transformer.TransformModule callback wrapping", fd.Pos(), "transformFuncCall is not called")
	}
}

func init() {
	addMutant(Mutant{Prop: "C11", Name: "notifyone-check-outside-lock", File: "runtime/internal/lib/runtime/sema_llgo.go",
		Old: "\tst.mu.Lock()\n\tif latomic.LoadUint32(&l.notify) != latomic.LoadUint32(&l.wait) {\n\t\tlatomic.AddUint32(&l.notify, 1)",
		New: "\tif latomic.LoadUint32(&l.notify) == latomic.LoadUint32(&l.wait) {\n\t\treturn\n\t}\n\tst.mu.Lock()\n\tif true {\n\t\tlatomic.AddUint32(&l.notify, 1)", Expect: "R11.9"})
	addMutant(Mutant{Prop: "C11", Name: "add-returns-second-load", File: "cl/instr.go",
		Old: "\t\t\t\treturn b.BinOp(token.ADD, p.atomic(b, llssa.OpAdd, args), args[1])", New: "\t\t\t\tp.atomic(b, llssa.OpAdd, args)\n\t\t\t\treturn p.atomicLoad(b, args[:1])", Expect: "R11.10"})
	addMutant(Mutant{Prop: "C09", Name: "body-widthtype-store-through-cast", File: "internal/cabi/cabi.go",
		Old: "\t\t\tiptr := llvm.CreateAlloca(b, ti.Type1)\n\t\t\tb.CreateStore(params[index], iptr)\n\t\t\tptr := b.CreateBitCast(iptr, llvm.PointerType(ti.Type, 0), \"\")\n\t\t\tnv = b.CreateLoad(ti.Type, ptr, \"\")\n\t\t\tif p.optimize {",
		New: "\t\t\tptr := llvm.CreateAlloca(b, ti.Type)\n\t\t\tiptr := b.CreateBitCast(ptr, llvm.PointerType(ti.Type1, 0), \"\")\n\t\t\tb.CreateStore(params[index], iptr)\n\t\t\tnv = b.CreateLoad(ti.Type, ptr, \"\")\n\t\t\tif p.optimize {", Expect: "R09.8"})
	addMutant(Mutant{Prop: "C09", Name: "cfunc-callbacks-only-for-aggregate-prototypes", File: "internal/cabi/cabi.go",
		Old: "\t\t\t\tp.transformFuncCall(m, fn)\n\t\t\t\tif p.isWrapFunctionType(ctx, fn.GlobalValueType()) {\n\t\t\t\t\tfns = append(fns, fn)\n\t\t\t\t}",
		New: "\t\t\t\tif p.isWrapFunctionType(ctx, fn.GlobalValueType()) {\n\t\t\t\t\tp.transformFuncCall(m, fn)\n\t\t\t\t\tfns = append(fns, fn)\n\t\t\t\t}", Expect: "R09.9"})
}

// checkStagingAndTarErrors (R20.6): (a) the staging directory of a download is emptied RECURSIVELY before it
// is used - a crashed earlier run may have left files that would be published with the new tree;
// (b) a failure of the external tar is always an error - tar reports members it refused (names with ..) only
// through its exit status.
func checkStagingAndTarErrors(c *Ctx, p *packages.Package) {
	c.Rule("R20.6", "the staging directory is wiped recursively before extraction, and a failing external tar is always reported as an error", 2)
	info := p.TypesInfo
	if fd := findFunc(p, "downloadAndExtractArchive"); fd == nil {
		c.Undecided("R20.6", "crosscompile.downloadAndExtractArchive staging directory", 0, "function not found")
	} else {
		c.nfuncs++
		g := buildCFG(p, fd)
		isWipe := func(n ast.Node) bool {
			return nodeHas(n, func(x ast.Node) bool {
				call, ok := x.(*ast.CallExpr)
				if !ok || !isCallTo(info, call, "os.RemoveAll") || len(call.Args) != 1 {
					return false
				}
				return strings.Contains(strings.ToLower(exprStr(call.Args[0])), "temp")
			})
		}
		isUse := func(n ast.Node) bool {
			if _, isDefer := n.(*ast.DeferStmt); isDefer {
				return false
			}
			return nodeHas(n, func(x ast.Node) bool {
				call, ok := x.(*ast.CallExpr)
				return ok && (isCallTo(info, call, "os.MkdirAll") || isCallTo(info, call, "internal/crosscompile.downloadFile"))
			})
		}
		hit, reached := g.reach(g.entry(), isWipe, isUse, false, nil)
		c.Check(!reached, "R20.6", "crosscompile.downloadAndExtractArchive wipes the staging directory recursively", fd.Pos(), "os.RemoveAll(tempDir) before it is (re)created",
			"the staging directory is used ("+c.posStr(posOf(hit))+") without a recursive wipe: files left by an interrupted earlier run are published together with the new tree (os.Remove only deletes an empty directory)")
	}
	if fd := findFunc(p, "extractTarXz"); fd == nil {
		c.Undecided("R20.6", "crosscompile.extractTarXz propagates tar's failure", 0, "function not found")
	} else {
		c.nfuncs++
		// every return of the function either returns the Run() result itself or, on the err != nil branch, an error
		bad := ""
		runDirect := false
		ast.Inspect(fd.Body, func(n ast.Node) bool {
			r, ok := n.(*ast.ReturnStmt)
			if !ok || len(r.Results) != 1 {
				return true
			}
			if call, isCall := r.Results[0].(*ast.CallExpr); isCall {
				if se, ok := call.Fun.(*ast.SelectorExpr); ok && se.Sel.Name == "Run" {
					runDirect = true
					return true
				}
			}
			if isNilIdent(info, r.Results[0]) {
				for _, cp := range pathConds(fd.Body, r) {
					s := strings.ReplaceAll(exprStr(cp.cond), " ", "")
					if cp.pol && (s == "err!=nil") {
						bad = c.posStr(r.Pos())
					}
				}
			}
			return true
		})
		hasRun := strings.Contains(srcOf(fd.Body), ".Run()")
		c.Check(hasRun && bad == "" && (runDirect || strings.Contains(srcOf(fd.Body), "err != nil")), "R20.6", "crosscompile.extractTarXz propagates tar's failure", fd.Pos(), "no `return nil` under err != nil",
			"`return nil` at "+bad+" is reached although tar failed: tar reports a member it refused to extract (a name containing ..) only through its exit status, so an incomplete or hostile archive is published as a complete copy")
	}
}

func init() {
	addMutant(Mutant{Prop: "C20", Name: "staging-dir-remove-nonrecursive", File: "internal/crosscompile/fetch.go",
		Old: "\ttempDir := destDir + \".temp\"\n\tos.RemoveAll(tempDir)", New: "\ttempDir := destDir + \".temp\"\n\tos.Remove(tempDir)", Expect: "R20.6 crosscompile.downloadAndExtractArchive"})
	addMutant(Mutant{Prop: "C20", Name: "tarxz-previous-errors-swallowed", File: "internal/crosscompile/fetch.go",
		Old: "\tcmd := exec.Command(\"tar\", \"-xf\", tarXzFile, \"-C\", dest)\n\treturn cmd.Run()", New: "\tcmd := exec.Command(\"tar\", \"-xf\", tarXzFile, \"-C\", dest)\n\tif err := cmd.Run(); err != nil {\n\t\tif strings.HasSuffix(err.Error(), \"2\") {\n\t\t\treturn nil\n\t\t}\n\t\treturn err\n\t}\n\treturn nil", Expect: "R20.6 crosscompile.extractTarXz"})
}

// checkEmitDoEverywhere (R04.8): inside a range-over-func body a defer belongs to the enclosing function's
// frame; emitDo routes it to that frame's explicit stack.  Every call lowering of callEx must go through it.
func checkEmitDoEverywhere(c *Ctx, cp *packages.Package) {
	c.Rule("R04.8", "every call lowering in cl.callEx goes through emitDo, which sends a defer made inside a range-over-func body to the enclosing frame (direct Builder.Do is used by emitDo only)", 1)
	info := cp.TypesInfo
	exempt := map[string]string{"llgoBoolToUint8": "an intrinsic conversion that is evaluated inline and cannot be the operand of defer/go"}
	fd := findFunc(cp, "context.callEx")
	if fd == nil {
		c.Undecided("R04.8", "cl.context.callEx", 0, "function not found")
		return
	}
	c.nfuncs++
	n := 0
	ast.Inspect(fd.Body, func(x ast.Node) bool {
		call, ok := x.(*ast.CallExpr)
		if !ok {
			return true
		}
		f := calleeOf(info, call)
		if f == nil || f.Name() != "Do" || recvNamed(f) != "aBuilder" && recvNamed(f) != "Builder" {
			return true
		}
		if len(call.Args) < 2 || exprStr(call.Args[0]) != "act" {
			return true
		}
		n++
		arm := "?"
		for _, cc := range enclosingCases(fd.Body, call) {
			if len(cc.List) > 0 {
				arm = exprStr(cc.List[0])
			}
		}
		if arm == "?" {
			for _, cp2 := range pathConds(fd.Body, call) {
				if cp2.pol {
					arm = "if " + exprStr(cp2.cond)
				}
			}
		}
		key := "cl.context.callEx direct Builder.Do in arm " + arm
		if why, ok := exempt[arm]; ok {
			c.OK("R04.8", key, call.Pos(), why)
			return true
		}
		c.Bad("R04.8", key, call.Pos(), "this lowering bypasses emitDo: a defer of this call shape made inside a range-over-func body is recorded on the synthetic yield closure, which has no defer frame, and never runs")
		return true
	})
	if n == 0 {
		c.OK("R04.8", "cl.context.callEx has no direct Builder.Do", fd.Pos(), "all lowerings use emitDo")
	}
}

// checkRelPathSeparator (R16.7): "outside the package directory" means the relative path IS ".." or starts with
// "../"; a name that merely starts with two dots (..note.txt) is inside.
func checkRelPathSeparator(c *Ctx, p *packages.Package) {
	c.Rule("R16.7", "a path is outside the package directory only if its relative form is \"..\" or starts with \"..\" + separator", 1)
	fd := findFunc(p, "RelPath")
	if fd == nil {
		c.Undecided("R16.7", "goembed.RelPath", 0, "function not found")
		return
	}
	c.nfuncs++
	info := p.TypesInfo
	n := 0
	for _, call := range callsIn(fd.Body) {
		if !isCallTo(info, call, "strings.HasPrefix") || len(call.Args) != 2 {
			continue
		}
		n++
		arg := ast.Unparen(call.Args[1])
		ok := false
		if be, isBin := arg.(*ast.BinaryExpr); isBin && be.Op == token.ADD {
			if s, isC := constString(info, be.X); isC && s == ".." {
				ok = true
			}
		}
		if s, isC := constString(info, arg); isC && (s == "../" || s == "..\\") {
			ok = true
		}
		c.Check(ok, "R16.7", "goembed.RelPath outside test includes the separator", call.Pos(), "HasPrefix(rel, \"..\"+separator)",
			"the test is HasPrefix(rel, "+exprStr(arg)+"): a top-level file or directory whose name starts with two dots (..note.txt) is rejected as outside the package, while the Go toolchain embeds it")
	}
	if n == 0 {
		c.Undecided("R16.7", "goembed.RelPath outside test", fd.Pos(), "no strings.HasPrefix test")
	}
}

// checkStructFieldOffsetSource / checkStructAlignAllFields (R08.9)
func checkStructDescriptorSources(c *Ctx, sp, ap *packages.Package) {
	c.Rule("R08.9", "descriptor field offsets come from the same LLVM struct as generated code (the raw type, not converted a second time), and a struct's alignment is the maximum over ALL its fields, blank ones included", 2)
	if fd := findFunc(sp, "Builder.abiStructFields"); fd == nil {
		c.Undecided("R08.9", "ssa.Builder.abiStructFields offsets", 0, "function not found")
	} else {
		c.nfuncs++
		v := newFnView(sp, fd)
		n := 0
		for _, call := range callsIn(fd.Body) {
			f := calleeOf(sp.TypesInfo, call)
			if f == nil || f.Name() != "OffsetOf" || len(call.Args) != 2 {
				continue
			}
			n++
			name, _, isCall := v.call(v.res(call.Args[0]))
			c.Check(isCall && strings.HasSuffix(name, "Program.rawType"), "R08.9", "ssa.Builder.abiStructFields offsets are taken from the raw struct", call.Pos(), "prog.OffsetOf(prog.rawType(t), i)",
				"the struct used for the offsets is produced by "+name+": converting an already raw struct again turns the one-word C function pointers of a C-background struct into two-word closures, so every later field is recorded one word late")
		}
		if n == 0 {
			c.Undecided("R08.9", "ssa.Builder.abiStructFields offsets", fd.Pos(), "no OffsetOf call")
		}
	}
	if fd := findFunc(ap, "Builder.Align"); fd == nil {
		c.Undecided("R08.9", "abi.Builder.Align struct fields", 0, "function not found")
	} else {
		arms, _ := typeSwitchArms(fd)
		cc := arms["Struct"]
		if cc == nil {
			c.Undecided("R08.9", "abi.Builder.Align struct fields", fd.Pos(), "no struct arm")
		} else {
			skip := ""
			ast.Inspect(cc, func(n ast.Node) bool {
				is, ok := n.(*ast.IfStmt)
				if !ok {
					return true
				}
				for _, st := range is.Body.List {
					if br, isBr := st.(*ast.BranchStmt); isBr && br.Tok == token.CONTINUE {
						skip = exprStr(is.Cond)
					}
				}
				return true
			})
			c.Check(skip == "", "R08.9", "abi.Builder.Align considers every field of a struct", cc.Pos(), "no field is skipped", "fields are skipped when "+skip+": struct{_ [0]uint64; v uint32} gets descriptor alignment 4 while unsafe.Alignof and LLVM use 8")
		}
	}
}

func init() {
	addMutant(Mutant{Prop: "C16", Name: "relpath-bare-dotdot-prefix", File: "internal/goembed/goembed.go",
		Old: "if rel == \"..\" || strings.HasPrefix(rel, \"..\"+string(filepath.Separator)) {", New: "if strings.HasPrefix(rel, \"..\") {", Expect: "R16.7"})
	addMutant(Mutant{Prop: "C08", Name: "structfields-offsets-from-converted-type", File: "ssa/abitype.go",
		Old: "\t\ttyp := prog.rawType(t)\n", New: "\t\ttyp := prog.Type(t, InGo)\n", Expect: "R08.9 ssa.Builder.abiStructFields"})
	addMutant(Mutant{Prop: "C08", Name: "align-skips-blank-fields", File: "ssa/abi/type.go",
		Old: "\t\tfor i := 0; i < n; i++ {\n\t\t\tft := t.Field(i).Type()\n\t\t\tif align := b.Align(ft); align > typalign {", New: "\t\tfor i := 0; i < n; i++ {\n\t\t\tif t.Field(i).Name() == \"_\" {\n\t\t\t\tcontinue\n\t\t\t}\n\t\t\tft := t.Field(i).Type()\n\t\t\tif align := b.Align(ft); align > typalign {", Expect: "R08.9 abi.Builder.Align"})
}

func init() {
	addMutant(Mutant{Prop: "C04", Name: "method-call-bypasses-emitdo", File: "cl/instr.go",
		Old: "\t\tret = p.emitDo(b, act, ds, fn, llssa.Builder.Call, args...)\n\t\treturn\n\t}\n\tkind := p.funcKind(cv)", New: "\t\tret = b.Do(act, fn, llssa.Builder.Call, args...)\n\t\treturn\n\t}\n\tkind := p.funcKind(cv)", Expect: "R04.8"})
}

// checkSliceDataLenPairs (R19.8): a Go slice handed to the Python C API is (data pointer, LENGTH).
func checkSliceDataLenPairs(c *Ctx, sp *packages.Package) {
	c.Rule("R19.8", "every slice passed to the Python C API is described by its data pointer and its length (never its capacity)", 1)
	info := sp.TypesInfo
	n := 0
	for _, fd := range allFuncs(sp) {
		if fileOf(c.fset, fd.Pos()) != "python.go" {
			continue
		}
		for _, call := range callsIn(fd.Body) {
			var data, lens, caps []string
			for _, a := range call.Args {
				if inner, ok := ast.Unparen(a).(*ast.CallExpr); ok && len(inner.Args) == 1 {
					if f := calleeOf(info, inner); f != nil {
						switch f.Name() {
						case "SliceData":
							data = append(data, exprStr(inner.Args[0]))
						case "SliceLen":
							lens = append(lens, exprStr(inner.Args[0]))
						case "SliceCap":
							caps = append(caps, exprStr(inner.Args[0]))
						}
					}
				}
			}
			for _, d := range data {
				n++
				hasLen, hasCap := false, false
				for _, l := range lens {
					hasLen = hasLen || l == d
				}
				for _, k := range caps {
					hasCap = hasCap || k == d
				}
				c.Check(hasLen && !hasCap, "R19.8", fmt.Sprintf("ssa.%s passes (data, len) of %s", declName(fd), d), call.Pos(), "SliceData(v), SliceLen(v)",
					"the slice is described by its capacity: Python receives the bytes between len and cap (stale or zero) in addition to the value")
			}
		}
	}
	if n == 0 {
		c.Undecided("R19.8", "ssa/python.go slice arguments", 0, "no SliceData argument found")
	}
}

// checkMetadataRoundTrip (R13.12): what saveToCache records about a package (link arguments, whether it needs
// the runtime, whether it needs the Python interpreter) must come back from parseManifestMetadata field by
// field: a build that reuses the archive relies on it instead of recompiling the package.
func checkMetadataRoundTrip(c *Ctx, bp *packages.Package) {
	c.Rule("R13.12", "every field of the cached package metadata is restored when the manifest is parsed", 3)
	st := structOf(lookupNamed(bp.Types, "cacheArchiveMetadata"))
	fd := findFunc(bp, "parseManifestMetadata")
	if st == nil || fd == nil {
		c.Undecided("R13.12", "build.parseManifestMetadata", 0, "struct or function not found")
		return
	}
	c.nfuncs++
	assigned := map[string]bool{}
	ast.Inspect(fd.Body, func(n ast.Node) bool {
		as, ok := n.(*ast.AssignStmt)
		if !ok {
			return true
		}
		for i, l := range as.Lhs {
			se, ok := l.(*ast.SelectorExpr)
			if !ok {
				continue
			}
			if i < len(as.Rhs) && strings.Contains(exprStr(as.Rhs[i]), "."+se.Sel.Name) {
				assigned[se.Sel.Name] = true
			}
		}
		return true
	})
	// a whole-struct copy also restores every field
	whole := strings.Contains(strings.ReplaceAll(srcOf(fd.Body), " ", ""), "*meta=*data.Metadata")
	for i := 0; i < st.NumFields(); i++ {
		f := st.Field(i).Name()
		c.Check(assigned[f] || whole, "R13.12", "build.parseManifestMetadata restores "+f, fd.Pos(), "meta."+f+" = data.Metadata."+f,
			"the field is not restored from the manifest: a build that reuses the cached archive sees the zero value (e.g. NeedPyInit=false: the entry function no longer starts the Python interpreter)")
	}
}

// checkPkgKindOrder (R12.4): cl decides "this imported package has no init to call" by an ORDERED comparison
// (kind >= PkgNoInit); the constants at or above that threshold must be exactly the kinds without an init.
func checkPkgKindOrder(c *Ctx, cp *packages.Package) {
	c.Rule("R12.4", "the package kinds at or above the no-init threshold are exactly the kinds that have no initialiser (noinit, decl, link); kinds with an init (normal, llgo, py module) are below it", 1)
	noInit := map[string]bool{"PkgNoInit": true, "PkgDeclOnly": true, "PkgLinkIR": true, "PkgLinkExtern": true}
	th, ok := pkgConst(cp.Types, "PkgNoInit")
	if !ok {
		c.Undecided("R12.4", "cl package kinds", 0, "PkgNoInit not found")
		return
	}
	// is the ordered comparison still there?
	ordered := false
	if fd := findFunc(cp, "context.pkgNoInit"); fd != nil {
		s := strings.ReplaceAll(srcOf(fd.Body), " ", "")
		ordered = strings.Contains(s, ">=PkgNoInit")
	}
	if !ordered {
		c.Exists("R12.4", "cl.context.pkgNoInit no longer uses an ordered comparison", 0, "nothing to check")
		return
	}
	var bad []string
	sc := cp.Types.Scope()
	for _, name := range sc.Names() {
		k, isC := sc.Lookup(name).(*types.Const)
		if !isC || !strings.HasPrefix(name, "Pkg") || len(name) < 4 {
			continue
		}
		if b, isB := k.Type().Underlying().(*types.Basic); !isB || b.Info()&types.IsInteger == 0 {
			continue
		}
		v, ok := constValInt(k)
		if !ok {
			continue
		}
		if (v >= th) != noInit[name] {
			bad = append(bad, fmt.Sprintf("%s=%d", name, v))
		}
	}
	c.Check(len(bad) == 0, "R12.4", "cl package kinds vs the no-init threshold", 0, "PkgNoInit <= {NoInit, DeclOnly, LinkIR, LinkExtern}; Normal, LLGo, PyModule below",
		"kinds on the wrong side of `kind >= PkgNoInit`: "+strings.Join(bad, ", ")+": importers drop the init call of a package that has one (a Python module package is never imported) or call one that does not exist")
}

func init() {
	addMutant(Mutant{Prop: "C19", Name: "bytearray-cap-for-len", File: "ssa/python.go",
		Old: "return b.Call(fn, b.SliceData(v), b.SliceLen(v))", New: "return b.Call(fn, b.SliceData(v), b.SliceCap(v))", Expect: "R19.8"})
	addMutant(Mutant{Prop: "C13", Name: "metadata-needpyinit-not-restored", File: "internal/build/collect.go",
		Old: "\t\t\tmeta.NeedRt = data.Metadata.NeedRt\n\t\t\tmeta.NeedPyInit = data.Metadata.NeedPyInit\n", New: "\t\t\tmeta.NeedRt = data.Metadata.NeedRt\n", Expect: "R13.12 build.parseManifestMetadata restores NeedPyInit"})
	addMutant(Mutant{Prop: "C12", Name: "pymodule-above-noinit-threshold", File: "cl/compile.go",
		Old: "\tPkgLLGo\n\tPkgPyModule   // py.<module>\n\tPkgNoInit     // noinit: a package that don't need to be initialized\n\tPkgDeclOnly   // decl: a package that only have declarations\n",
		New: "\tPkgLLGo\n\tPkgNoInit     // noinit: a package that don't need to be initialized\n\tPkgDeclOnly   // decl: a package that only have declarations\n\tPkgPyModule   // py.<module>\n", Expect: "R12.4"})
}
