package main

import (
	"fmt"
	"go/ast"
	"go/token"
	"go/types"
	"strings"

	"golang.org/x/tools/go/packages"
)

// checkFloatNegation (R02.8): -x on floating-point and complex operands flips the sign bit (fneg), also for
// zeros and NaNs; 0 - x is a different function (0 - (+0) = +0).
func checkFloatNegation(c *Ctx, sp *packages.Package) {
	c.Rule("R02.8", "unary minus on float and complex operands is emitted as fneg on each part, never as a subtraction from zero (which loses the sign of zero)", 2)
	fd := findFunc(sp, "Builder.UnOp")
	if fd == nil {
		c.Undecided("R02.8", "ssa.Builder.UnOp", 0, "function not found")
		return
	}
	c.nfuncs++
	info := sp.TypesInfo
	// locate the arms by the go/types info flag tested on their path
	for _, kind := range []string{"IsFloat", "IsComplex"} {
		fneg, sub := 0, ""
		n := 0
		ast.Inspect(fd.Body, func(x ast.Node) bool {
			call, ok := x.(*ast.CallExpr)
			if !ok {
				return true
			}
			onPath := false
			for _, cp := range pathConds(fd.Body, call) {
				if cp.pol && strings.Contains(exprStr(cp.cond), "types."+kind) {
					onPath = true
				}
			}
			if !onPath {
				return true
			}
			n++
			f := calleeOf(info, call)
			if f == nil {
				return true
			}
			switch f.Name() {
			case "CreateFNeg":
				fneg++
			case "CreateFSub", "CreateSub", "BinOp":
				sub = f.Name()
			}
			return true
		})
		want := 1
		if kind == "IsComplex" {
			want = 2
		}
		key := "ssa.Builder.UnOp minus on " + strings.TrimPrefix(kind, "Is") + " operands"
		if n == 0 {
			c.Undecided("R02.8", key, fd.Pos(), "arm guarded by types."+kind+" not found")
			continue
		}
		c.Check(fneg == want && sub == "", "R02.8", key, fd.Pos(), fmt.Sprintf("%d fneg", want), fmt.Sprintf("%d fneg and a %s in the arm: -x computed as 0 - x gives +0 for x = +0 where Go (IEEE negation) gives -0", fneg, sub))
	}
}

// checkClTypeArgQualifier (R07.5/R14.1 sibling): cl.typeArgName renders named type arguments with the package
// PATH, like ssa/abi.typeArgString which it must stay aligned with.
func checkClTypeArgQualifier(c *Ctx, rule string, cp *packages.Package) {
	fd := findFunc(cp, "context.typeArgName")
	if fd == nil {
		c.Undecided(rule, "cl.context.typeArgName named type arguments", 0, "function not found")
		return
	}
	c.nfuncs++
	arms, _ := typeSwitchArms(fd)
	cc := arms["Named"]
	if cc == nil {
		c.Undecided(rule, "cl.context.typeArgName named type arguments", fd.Pos(), "no arm for *types.Named")
		return
	}
	info := cp.TypesInfo
	path, name := false, false
	helper := ""
	for _, call := range callsIn(cc) {
		f := calleeOf(info, call)
		if f == nil {
			continue
		}
		if sig, ok := f.Type().(*types.Signature); ok && sig.Recv() != nil && recvNamed(f) == "Package" {
			switch f.Name() {
			case "Path":
				path = true
			case "Name":
				name = true
			}
		}
		// one level of helper in the same package
		if f.Pkg() == cp.Types && f.Name() != "localNamedName" && f.Name() != "isLocalType" {
			if hd := findFunc(cp, f.Name()); hd != nil {
				hs := srcOf(hd.Body)
				if strings.Contains(hs, ".Name()") && !strings.Contains(hs, ".Path()") && strings.Contains(strings.ToLower(f.Name()), "qualif") {
					name, helper = true, f.Name()
				}
				if strings.Contains(hs, ".Path()") && strings.Contains(strings.ToLower(f.Name()), "qualif") {
					path = true
				}
			}
		}
	}
	c.Check(path && !name, rule, "cl.context.typeArgName qualifies named type arguments by package path", cc.Pos(), "pkg.Path() + \".\" + name",
		"named type arguments are qualified by the package NAME"+map[bool]string{true: " (through " + helper + ")", false: ""}[helper != ""]+": instances over a/model.Rec and b/model.Rec rename their local types identically and share one descriptor")
}

// checkImplementsFullTable (R07.7): an interface may contain unexported methods; the run-time check that a
// concrete type implements it must scan the type's complete method table.
func checkImplementsFullTable(c *Ctx, rp *packages.Package) {
	c.Rule("R07.7", "runtime.Implements scans the complete method table of the concrete type (exported and unexported methods) and rejects a nil dynamic type first", 2)
	fd := findFunc(rp, "Implements")
	if fd == nil {
		c.Undecided("R07.7", "runtime.Implements", 0, "function not found")
		return
	}
	c.nfuncs++
	info := rp.TypesInfo
	full, prefix := false, false
	for _, call := range callsIn(fd.Body) {
		f := calleeOf(info, call)
		if f == nil || recvNamed(f) != "UncommonType" {
			continue
		}
		switch f.Name() {
		case "Methods":
			full = true
		case "ExportedMethods":
			prefix = true
		}
	}
	// a nil dynamic type implements nothing - not even the empty interface: x.(any) on a nil interface panics
	g := buildCFG(rp, fd)
	isNilGuard := func(n ast.Node) bool {
		e, ok := n.(ast.Expr)
		if !ok {
			return false
		}
		x, y, op, isCmp := binCmp(e)
		return isCmp && op == token.EQL && exprStr(x) == "V" && isNilIdent(info, y)
	}
	retTrue := func(n ast.Node) bool {
		r, ok := n.(*ast.ReturnStmt)
		if !ok || len(r.Results) != 1 {
			return false
		}
		bv, isC := constBool(info, r.Results[0])
		return isC && bv
	}
	hit, reached := g.reach(g.entry(), isNilGuard, retTrue, false, nil)
	c.Check(!reached, "R07.7", "runtime.Implements rejects a nil dynamic type before anything else", fd.Pos(), "V == nil is tested on every path to `return true`",
		"`return true` ("+c.posStr(posOf(hit))+") is reachable without testing V == nil: a nil interface value asserted to an empty interface type succeeds instead of panicking")
	bound := strings.Contains(strings.ReplaceAll(srcOf(fd.Body), " ", ""), "int(v.Mcount)") || strings.Contains(strings.ReplaceAll(srcOf(fd.Body), " ", ""), "len(vmethods)")
	c.Check(full && !prefix && bound, "R07.7", "runtime.Implements scans all methods of the concrete type", fd.Pos(), "UncommonType.Methods(), Mcount entries",
		"the concrete type's methods are taken from ExportedMethods (or the scan is bounded by Xcount): an interface with an unexported method is reported as not implemented, so x.(ast.Expr) fails for *ast.Ident at run time although the static conversion works")
}

func init() {
	addMutant(Mutant{Prop: "C02", Name: "complex-neg-as-zero-minus-x", File: "ssa/expr.go",
		Old: "\t\t\t\tr := b.impl.CreateExtractValue(x.impl, 0, \"\")\n\t\t\t\ti := b.impl.CreateExtractValue(x.impl, 1, \"\")\n\t\t\t\treturn b.aggregateValue(x.Type, llvm.CreateFNeg(b.impl, r), llvm.CreateFNeg(b.impl, i))",
		New: "\t\t\t\treturn b.BinOp(token.SUB, b.Prog.Zero(x.Type), x)", Expect: "R02.8 ssa.Builder.UnOp minus on Complex"})
	addMutant(Mutant{Prop: "C07", Name: "implements-scans-exported-only", File: "runtime/internal/runtime/z_face.go",
		Old: "\tvmethods := v.Methods()\n\tfor j := 0; j < int(v.Mcount); j++ {", New: "\tvmethods := v.ExportedMethods()\n\tfor j := 0; j < len(vmethods); j++ {", Expect: "R07.7"})
	addMutant(Mutant{Prop: "C07", Name: "cl-typearg-named-by-pkg-name", File: "cl/compile.go",
		Old: "\t\tif pkg := t.Obj().Pkg(); pkg != nil {\n\t\t\treturn pkg.Path() + \".\" + name\n\t\t}", New: "\t\tif pkg := t.Obj().Pkg(); pkg != nil {\n\t\t\treturn pkg.Name() + \".\" + name\n\t\t}", Expect: "R07.5 cl.context.typeArgName"})
}
