package main

import (
	"bytes"
	"go/ast"
	"go/printer"
	"go/constant"
	"go/token"
	"go/types"
	"strings"

	"golang.org/x/tools/go/cfg"
	"golang.org/x/tools/go/packages"
	"golang.org/x/tools/go/types/typeutil"
)

// calleeOf resolves the static callee of a call through type information.
func calleeOf(info *types.Info, call *ast.CallExpr) *types.Func {
	f, _ := typeutil.Callee(info, call).(*types.Func)
	return f
}

// qualName renders a function object as "pkgpath.Name" or "pkgpath.T.M".
func qualName(f *types.Func) string {
	if f == nil {
		return ""
	}
	sig, _ := f.Type().(*types.Signature)
	pk := ""
	if f.Pkg() != nil {
		pk = f.Pkg().Path()
	}
	if sig != nil && sig.Recv() != nil {
		t := sig.Recv().Type()
		if p, ok := t.(*types.Pointer); ok {
			t = p.Elem()
		}
		if n, ok := t.(*types.Named); ok {
			return pk + "." + n.Obj().Name() + "." + f.Name()
		}
		if a, ok := t.(*types.Alias); ok {
			return pk + "." + a.Obj().Name() + "." + f.Name()
		}
		return pk + ".?." + f.Name()
	}
	return pk + "." + f.Name()
}

// shortName is qualName without the module prefix.
func shortName(f *types.Func) string {
	q := qualName(f)
	q = strings.TrimPrefix(q, rtMod+"/")
	q = strings.TrimPrefix(q, mainMod+"/")
	return q
}

// isCallTo reports whether n is a call whose resolved callee has one of the short names.
func isCallTo(info *types.Info, n ast.Node, names ...string) bool {
	call, ok := n.(*ast.CallExpr)
	if !ok {
		return false
	}
	f := calleeOf(info, call)
	if f == nil {
		return false
	}
	s := shortName(f)
	for _, nm := range names {
		if s == nm {
			return true
		}
	}
	return false
}

// inspectNoLit walks n without descending into function literals.
func inspectNoLit(n ast.Node, f func(ast.Node) bool) {
	ast.Inspect(n, func(x ast.Node) bool {
		if _, ok := x.(*ast.FuncLit); ok && x != n {
			return false
		}
		if x == nil {
			return false
		}
		return f(x)
	})
}

// callsIn lists the calls syntactically inside n (not inside nested function literals).
func callsIn(n ast.Node) []*ast.CallExpr {
	var out []*ast.CallExpr
	if n == nil {
		return nil
	}
	inspectNoLit(n, func(x ast.Node) bool {
		if c, ok := x.(*ast.CallExpr); ok {
			out = append(out, c)
		}
		return true
	})
	return out
}

// containsCallTo reports whether n contains a call to one of names.
func containsCallTo(info *types.Info, n ast.Node, names ...string) bool {
	for _, c := range callsIn(n) {
		if isCallTo(info, c, names...) {
			return true
		}
	}
	return false
}

// isPanicCall reports a call to the builtin panic.
func isPanicCall(info *types.Info, n ast.Node) bool {
	call, ok := n.(*ast.CallExpr)
	if !ok {
		return false
	}
	id, ok := ast.Unparen(call.Fun).(*ast.Ident)
	if !ok {
		return false
	}
	b, ok := info.Uses[id].(*types.Builtin)
	return ok && b.Name() == "panic"
}

func containsPanic(info *types.Info, n ast.Node) bool {
	for _, c := range callsIn(n) {
		if isPanicCall(info, c) {
			return true
		}
	}
	return false
}

// constInt evaluates e to an int64 constant through go/types.
func constInt(info *types.Info, e ast.Expr) (int64, bool) {
	tv, ok := info.Types[e]
	if !ok || tv.Value == nil {
		return 0, false
	}
	v := constant.ToInt(tv.Value)
	if v.Kind() != constant.Int {
		return 0, false
	}
	i, exact := constant.Int64Val(v)
	if !exact {
		u, ex := constant.Uint64Val(v)
		return int64(u), ex
	}
	return i, true
}

func constString(info *types.Info, e ast.Expr) (string, bool) {
	tv, ok := info.Types[e]
	if !ok || tv.Value == nil || tv.Value.Kind() != constant.String {
		return "", false
	}
	return constant.StringVal(tv.Value), true
}

// usedObj returns the object an identifier or selector expression denotes.
func usedObj(info *types.Info, e ast.Expr) types.Object {
	switch x := ast.Unparen(e).(type) {
	case *ast.Ident:
		if o := info.Uses[x]; o != nil {
			return o
		}
		return info.Defs[x]
	case *ast.SelectorExpr:
		if s := info.Selections[x]; s != nil {
			return s.Obj()
		}
		return info.Uses[x.Sel]
	}
	return nil
}

// objName is pkgpath-short "pkg.Name" of an object ("" if nil).
func objName(o types.Object) string {
	if o == nil {
		return ""
	}
	if o.Pkg() == nil {
		return o.Name()
	}
	p := o.Pkg().Path()
	p = strings.TrimPrefix(p, rtMod+"/")
	p = strings.TrimPrefix(p, mainMod+"/")
	return p + "." + o.Name()
}

// mentions reports whether expression/stmt n uses the object o.
func mentions(info *types.Info, n ast.Node, o types.Object) bool {
	found := false
	if n == nil || o == nil {
		return false
	}
	ast.Inspect(n, func(x ast.Node) bool {
		if id, ok := x.(*ast.Ident); ok && (info.Uses[id] == o || info.Defs[id] == o) {
			found = true
		}
		return !found
	})
	return found
}

// ---------------------------------------------------------------------------
// CFG path queries

type fnCFG struct {
	G    *cfg.CFG
	Info *types.Info
	Decl *ast.FuncDecl
}

// mayReturn tells go/cfg which calls never return (panic and the repo's fatal helpers).
func mayReturnFn(info *types.Info) func(*ast.CallExpr) bool {
	return func(call *ast.CallExpr) bool {
		if isPanicCall(info, call) {
			return false
		}
		if f := calleeOf(info, call); f != nil {
			switch shortName(f) {
			// NOTE: runtime.fatal and runtime.throw only print and RETURN in this tree (stubs.go), so they are
			// deliberately not listed: the paths after them are real.
			case "internal/runtime.panicmakeslicelen", "internal/runtime.panicmakeslicecap",
				"internal/runtime.panicunsafeslicelen", "internal/runtime.panicunsafeslicenilptr",
				"internal/clite.Siglongjmp", "internal/clite.Longjmp", "internal/clite.Exit", "internal/clite/pthread.Exit",
				"os.Exit", "log.Fatal", "log.Fatalf", "log.Panicf", "log.Panic", "log.Panicln", "log.Fatalln":
				return false
			}
		}
		return true
	}
}

func buildCFG(p *packages.Package, fd *ast.FuncDecl) *fnCFG {
	return &fnCFG{G: cfg.New(fd.Body, mayReturnFn(p.TypesInfo)), Info: p.TypesInfo, Decl: fd}
}

func buildLitCFG(p *packages.Package, lit *ast.FuncLit) *fnCFG {
	return &fnCFG{G: cfg.New(lit.Body, mayReturnFn(p.TypesInfo)), Info: p.TypesInfo}
}

type cfgPos struct {
	B *cfg.Block
	I int // index into B.Nodes; len(B.Nodes) = end of block
}

// nodePos finds the (block, index) of the CFG node containing the AST node target.
func (f *fnCFG) nodePos(target ast.Node) (cfgPos, bool) {
	best := cfgPos{}
	bestLen := token.Pos(-1)
	for _, b := range f.G.Blocks {
		if !b.Live {
			continue
		}
		for i, n := range b.Nodes {
			if within(n, target) {
				nl, nh := spanOf(n)
				if l := nh - nl; bestLen < 0 || l < bestLen {
					best, bestLen = cfgPos{b, i}, l
				}
			}
		}
	}
	return best, bestLen >= 0
}

// isExit reports a block with no successors that ends by return or falling off the end (not by panic).
func (f *fnCFG) isReturnBlock(b *cfg.Block) bool {
	if len(b.Succs) != 0 {
		return false
	}
	if len(b.Nodes) == 0 {
		return true
	}
	last := b.Nodes[len(b.Nodes)-1]
	switch s := last.(type) {
	case *ast.ReturnStmt:
		return true
	case *ast.ExprStmt:
		if c, ok := s.X.(*ast.CallExpr); ok && !mayReturnFn(f.Info)(c) {
			return false
		}
	}
	return true
}

// edgeFilter may prune a successor edge: from block b (whose last node is the branch condition) to its k-th successor.
type edgeFilter func(b *cfg.Block, k int) bool

// reach explores forward from start. It does not continue past nodes for which stop returns true.
// It reports the first node for which target returns true (visited before being tested for stop),
// or, if wantExit, reaching a returning exit. Returns a witness description, or "" if unreachable.
func (f *fnCFG) reach(start cfgPos, stop func(ast.Node) bool, target func(ast.Node) bool, wantExit bool, ef edgeFilter) (ast.Node, bool) {
	type key struct {
		b *cfg.Block
	}
	seen := map[*cfg.Block]bool{}
	var work []cfgPos
	work = append(work, start)
	first := true
	for len(work) > 0 {
		p := work[len(work)-1]
		work = work[:len(work)-1]
		if p.I == 0 && !first {
			if seen[p.B] {
				continue
			}
			seen[p.B] = true
		}
		first = false
		stopped := false
		for i := p.I; i < len(p.B.Nodes); i++ {
			n := p.B.Nodes[i]
			if target != nil && target(n) {
				return n, true
			}
			if stop != nil && stop(n) {
				stopped = true
				break
			}
		}
		if stopped {
			continue
		}
		if len(p.B.Succs) == 0 {
			if wantExit && f.isReturnBlock(p.B) {
				if len(p.B.Nodes) > 0 {
					return p.B.Nodes[len(p.B.Nodes)-1], true
				}
				return f.Decl, true
			}
			continue
		}
		for k, s := range p.B.Succs {
			if ef != nil && !ef(p.B, k) {
				continue
			}
			work = append(work, cfgPos{s, 0})
		}
	}
	return nil, false
}

func (f *fnCFG) entry() cfgPos { return cfgPos{f.G.Blocks[0], 0} }

// after returns the position just after p.
func (p cfgPos) after() cfgPos { return cfgPos{p.B, p.I + 1} }

// dominatedBy reports whether every path from entry to the node `sink` passes a node satisfying guard.
func (f *fnCFG) dominatedBy(sink ast.Node, guard func(ast.Node) bool, ef edgeFilter) (bool, bool) {
	sp, ok := f.nodePos(sink)
	if !ok {
		return false, false
	}
	hit := false
	_, reached := f.reach(f.entry(), guard, func(n ast.Node) bool {
		if hit {
			return true
		}
		if b, i := sp.B, sp.I; b.Nodes[i] == n {
			// guard inside the same node before the sink? treat node-level
			hit = true
			return true
		}
		return false
	}, false, ef)
	return !reached, true
}

// condOf returns the branch condition ending block b, if any.
func condOf(b *cfg.Block) ast.Expr {
	if len(b.Succs) != 2 || len(b.Nodes) == 0 {
		return nil
	}
	e, _ := b.Nodes[len(b.Nodes)-1].(ast.Expr)
	return e
}

// nodeHas applies pred to every sub-node (no FuncLit descent).
func nodeHas(n ast.Node, pred func(ast.Node) bool) bool {
	found := false
	inspectNoLit(n, func(x ast.Node) bool {
		if found {
			return false
		}
		if pred(x) {
			found = true
			return false
		}
		return true
	})
	return found
}

// exprStr renders an expression compactly. types.ExprString elides composite literal bodies and
// function literals ("T{…}"), so those are rendered in full with go/printer instead.
func exprStr(e ast.Expr) string {
	if e == nil {
		return ""
	}
	elided := false
	ast.Inspect(e, func(n ast.Node) bool {
		switch n.(type) {
		case *ast.CompositeLit, *ast.FuncLit:
			elided = true
		}
		return !elided
	})
	if !elided {
		return types.ExprString(e)
	}
	var buf bytes.Buffer
	if err := printer.Fprint(&buf, token.NewFileSet(), e); err != nil {
		return types.ExprString(e)
	}
	return strings.Join(strings.Fields(buf.String()), " ")
}

// binCmp decomposes "x op y" comparisons.
func binCmp(e ast.Expr) (x, y ast.Expr, op token.Token, ok bool) {
	b, isb := ast.Unparen(e).(*ast.BinaryExpr)
	if !isb {
		return nil, nil, 0, false
	}
	switch b.Op {
	case token.EQL, token.NEQ, token.LSS, token.LEQ, token.GTR, token.GEQ:
		return b.X, b.Y, b.Op, true
	}
	return nil, nil, 0, false
}

func isNilIdent(info *types.Info, e ast.Expr) bool {
	id, ok := ast.Unparen(e).(*ast.Ident)
	if !ok {
		return false
	}
	_, isNil := info.Uses[id].(*types.Nil)
	return isNil
}

// condImplies reports whether "e evaluates to val" implies that some sub-expression G (recognised by isG)
// has a definite truth value; returns that value and G.
func condImplies(e ast.Expr, val bool, isG func(ast.Expr) bool) (gval bool, g ast.Expr, ok bool) {
	e = ast.Unparen(e)
	if isG(e) {
		return val, e, true
	}
	switch x := e.(type) {
	case *ast.UnaryExpr:
		if x.Op == token.NOT {
			return condImplies(x.X, !val, isG)
		}
	case *ast.BinaryExpr:
		if (x.Op == token.LAND && val) || (x.Op == token.LOR && !val) {
			if gv, g, ok := condImplies(x.X, val, isG); ok {
				return gv, g, true
			}
			return condImplies(x.Y, val, isG)
		}
	}
	return false, nil, false
}

// passEdge: if block b ends in a condition one of whose outcomes implies G is true, returns the successor
// index of that outcome (0 = condition true, 1 = false).
func passEdge(b *cfg.Block, isG func(ast.Expr) bool) (int, ast.Expr, bool) {
	ce := condOf(b)
	if ce == nil {
		return 0, nil, false
	}
	if gv, g, ok := condImplies(ce, true, isG); ok && gv {
		return 0, g, true
	}
	if gv, g, ok := condImplies(ce, false, isG); ok && gv {
		return 1, g, true
	}
	return 0, nil, false
}

// failEdge: successor index on which G is implied false.
func failEdge(b *cfg.Block, isG func(ast.Expr) bool) (int, ast.Expr, bool) {
	ce := condOf(b)
	if ce == nil {
		return 0, nil, false
	}
	if gv, g, ok := condImplies(ce, true, isG); ok && !gv {
		return 0, g, true
	}
	if gv, g, ok := condImplies(ce, false, isG); ok && !gv {
		return 1, g, true
	}
	return 0, nil, false
}

type cfgBlk = cfg.Block

// srcOf prints any node (statements, clauses, blocks) as normalised source text.
func srcOf(n ast.Node) string {
	if n == nil {
		return ""
	}
	if cc, ok := n.(*ast.CaseClause); ok { // not printable on its own
		var parts []string
		for _, e := range cc.List {
			parts = append(parts, exprStr(e))
		}
		for _, s := range cc.Body {
			parts = append(parts, srcOf(s))
		}
		return strings.Join(parts, " ; ")
	}
	var buf bytes.Buffer
	if err := printer.Fprint(&buf, token.NewFileSet(), n); err != nil {
		return ""
	}
	return strings.Join(strings.Fields(buf.String()), " ")
}

// spanOf returns the true source extent of n.  After canonicalComparisons swapped the operands of a comparison
// the node's own Pos/End are no longer its extent, so containment tests use the extent of the leaves.
func spanOf(n ast.Node) (lo, hi token.Pos) {
	lo, hi = n.Pos(), n.End()
	ast.Inspect(n, func(x ast.Node) bool {
		if x == nil {
			return false
		}
		switch x.(type) {
		case *ast.Ident, *ast.BasicLit:
			if x.Pos() < lo {
				lo = x.Pos()
			}
			if x.End() > hi {
				hi = x.End()
			}
		}
		return true
	})
	if lo > hi {
		lo, hi = hi, lo
	}
	return
}

// within reports whether inner lies inside outer (by true extents).
func within(outer, inner ast.Node) bool {
	ol, oh := spanOf(outer)
	il, ih := spanOf(inner)
	return ol <= il && ih <= oh
}
