package main

import (
	"fmt"
	"go/ast"
	"go/token"
	"strings"

	"golang.org/x/tools/go/packages"
)

// checkOffsetsExtra: the closure adjustment of field i is the sum of the extras of the fields BEFORE i: in the
// accumulation loop the offset is updated before the running sum takes in the field's own extra.
func checkOffsetsExtra(c *Ctx, sp *packages.Package) {
	fd := findFunc(sp, "goProgram.Offsetsof")
	if fd == nil {
		c.Undecided("R08.4", "ssa.goProgram.Offsetsof accumulation order", 0, "function not found")
		return
	}
	var body *ast.BlockStmt
	ast.Inspect(fd.Body, func(n ast.Node) bool {
		if r, ok := n.(*ast.RangeStmt); ok && body == nil {
			body = r.Body
		}
		return true
	})
	if body == nil {
		c.Undecided("R08.4", "ssa.goProgram.Offsetsof accumulation order", fd.Pos(), "field loop not found")
		return
	}
	use, upd := -1, -1
	for i, st := range body.List {
		as, ok := st.(*ast.AssignStmt)
		if !ok || as.Tok != token.ADD_ASSIGN || len(as.Lhs) != 1 {
			use, upd = -2, -2 // an unexpected statement shape
			break
		}
		l := strings.ReplaceAll(exprStr(as.Lhs[0]), " ", "")
		r := strings.ReplaceAll(exprStr(as.Rhs[0]), " ", "")
		switch {
		case strings.HasPrefix(l, "ret[") && r == "extra":
			use = i
		case l == "extra" && strings.Contains(r, "extraSize("):
			upd = i
		default:
			use, upd = -2, -2
		}
	}
	switch {
	case use == -2:
		c.Undecided("R08.4", "ssa.goProgram.Offsetsof accumulation order", body.Pos(), "loop body is not `ret[i] += extra; extra += extraSize(...)`")
	default:
		c.Check(use >= 0 && upd > use, "R08.4", "ssa.goProgram.Offsetsof accumulation order", body.Pos(), "ret[i] += extra precedes extra += extraSize(field i)",
			"a field's offset includes its own closure words: unsafe.Offsetof of a func-valued field is one word too large, while the descriptor and the generated code use the right offset")
	}
}

// checkLayoutEquivalence (R08.8): a predicate that licenses the reuse of an already built LLVM struct for another
// named type must compare the field types themselves; comparing a coarser attribute (kind, count) lets
// int32 and int64 fields share one layout.
func checkLayoutEquivalence(c *Ctx, sp *packages.Package) {
	c.Rule("R08.8", "a cached LLVM struct layout is reused for another named type only if every field type is identical (not merely of the same kind)", 1)
	fd := findFunc(sp, "Program.namedStructLayoutEquivalent")
	if fd == nil {
		c.Undecided("R08.8", "ssa.Program.namedStructLayoutEquivalent", 0, "function not found")
		return
	}
	c.nfuncs++
	var loop *ast.RangeStmt
	ast.Inspect(fd.Body, func(n ast.Node) bool {
		if r, ok := n.(*ast.RangeStmt); ok && loop == nil {
			loop = r
		}
		return true
	})
	if loop == nil {
		c.Undecided("R08.8", "ssa.Program.namedStructLayoutEquivalent field comparison", fd.Pos(), "field loop not found")
		return
	}
	n := 0
	ast.Inspect(loop.Body, func(x ast.Node) bool {
		is, ok := x.(*ast.IfStmt)
		if !ok {
			return true
		}
		l, r, op, isCmp := binCmp(is.Cond)
		if !isCmp || op != token.NEQ {
			return true
		}
		n++
		exact := func(e ast.Expr) bool {
			s := strings.ReplaceAll(exprStr(e), " ", "")
			// fields[i]  or  fields[i].String()
			s = strings.TrimSuffix(s, ".String()")
			return strings.HasSuffix(s, "]") && !strings.Contains(s, "(")
		}
		c.Check(exact(l) && exact(r), "R08.8", fmt.Sprintf("ssa.Program.namedStructLayoutEquivalent field comparison #%d", n), is.Pos(), exprStr(is.Cond),
			"fields are compared through "+exprStr(is.Cond)+", which is coarser than type identity: two same-named local types whose fields share a kind but not a width (int32/int64, [2]byte/[4]int64) get one LLVM layout while Sizeof and the descriptor differ")
		return true
	})
	if n == 0 {
		c.Undecided("R08.8", "ssa.Program.namedStructLayoutEquivalent field comparison", loop.Pos(), "no inequality test in the field loop")
	}
}

func init() {
	addMutant(Mutant{Prop: "C08", Name: "offsetsof-own-extra-first", File: "ssa/type.go",
		Old: "\t\tret[i] += extra\n\t\textra += p.extraSize(f.Type(), ptrSize)", New: "\t\textra += p.extraSize(f.Type(), ptrSize)\n\t\tret[i] += extra", Expect: "R08.4 ssa.goProgram.Offsetsof accumulation order"})
	addMutant(Mutant{Prop: "C08", Name: "layout-equivalent-by-kind", File: "ssa/type.go",
		Old: "\t\tif existingFields[i].String() != rawFields[i].String() {", New: "\t\tif existingFields[i].TypeKind() != rawFields[i].TypeKind() {", Expect: "R08.8"})
}

// checkPtrBytesStruct: the pointer-prefix of a struct ends after the LAST field that contains pointers: the
// index of that field and its own pointer-prefix must be remembered together.
func checkPtrBytesStruct(c *Ctx, ap *packages.Package) {
	fd := findFunc(ap, "Builder.PtrBytes")
	if fd == nil {
		c.Undecided("R08.1", "abi.Builder.PtrBytes struct arm", 0, "function not found")
		return
	}
	arms, _ := typeSwitchArms(fd)
	cc := arms["Struct"]
	if cc == nil {
		c.Undecided("R08.1", "abi.Builder.PtrBytes struct arm", fd.Pos(), "no arm for *types.Struct")
		return
	}
	// return <offset of fields[idx]> + <pb>
	var idxVar, pbVar string
	ast.Inspect(cc, func(n ast.Node) bool {
		r, ok := n.(*ast.ReturnStmt)
		if !ok || len(r.Results) != 1 {
			return true
		}
		be, ok := ast.Unparen(r.Results[0]).(*ast.BinaryExpr)
		if !ok || be.Op != token.ADD {
			return true
		}
		if id, ok := ast.Unparen(be.Y).(*ast.Ident); ok {
			pbVar = id.Name
		}
		ast.Inspect(be.X, func(x ast.Node) bool {
			if ix, ok := x.(*ast.IndexExpr); ok {
				if id, ok := ix.Index.(*ast.Ident); ok {
					idxVar = id.Name
				}
			}
			return true
		})
		return true
	})
	if idxVar == "" || pbVar == "" {
		c.Undecided("R08.1", "abi.Builder.PtrBytes struct arm", cc.Pos(), "result is not `offset(fields[i]) + prefix`")
		return
	}
	// every assignment to pbVar and to idxVar inside the loop must sit in the same block
	blockOf := func(name string) []ast.Node {
		var out []ast.Node
		ast.Inspect(cc, func(n ast.Node) bool {
			as, ok := n.(*ast.AssignStmt)
			if !ok {
				return true
			}
			for _, l := range as.Lhs {
				if id, ok := l.(*ast.Ident); ok && id.Name == name {
					chain := enclosingStmts(cc, as)
					// innermost enclosing block or if statement (an assignment in an if-init runs on both outcomes)
					for i := len(chain) - 2; i >= 0; i-- {
						switch chain[i].(type) {
						case *ast.BlockStmt, *ast.IfStmt:
							out = append(out, chain[i])
							i = -1
						}
					}
				}
			}
			return true
		})
		return out
	}
	inLoop := func(nodes []ast.Node) []ast.Node {
		var out []ast.Node
		for _, n := range nodes {
			for _, anc := range enclosingStmts(cc, n) {
				if _, ok := anc.(*ast.ForStmt); ok {
					out = append(out, n)
					break
				}
				if _, ok := anc.(*ast.RangeStmt); ok {
					out = append(out, n)
					break
				}
			}
		}
		return out
	}
	ib, pb := inLoop(blockOf(idxVar)), inLoop(blockOf(pbVar))
	same := len(ib) > 0 && len(ib) == len(pb)
	for i := range ib {
		if i < len(pb) && ib[i] != pb[i] {
			same = false
		}
	}
	c.Check(same, "R08.1", "abi.Builder.PtrBytes struct arm keeps (field, prefix) together", cc.Pos(), idxVar+" and "+pbVar+" are assigned in the same block",
		"the pointer-prefix "+pbVar+" is overwritten on iterations that do not update "+idxVar+": for struct{p *int; x int} the result is offset(p)+PtrBytes(x) = 0 instead of 8, so a struct with a pointer followed by a scalar is described as pointer-free")
}

func init() {
	addMutant(Mutant{Prop: "C08", Name: "ptrbytes-prefix-overwritten", File: "ssa/abi/type.go",
		Old: "\t\t\tif pb := b.PtrBytes(f.Type()); pb != 0 {\n\t\t\t\tfield = i\n\t\t\t\tbytes = pb\n\t\t\t}", New: "\t\t\tif bytes = b.PtrBytes(f.Type()); bytes != 0 {\n\t\t\t\tfield = i\n\t\t\t}", Expect: "R08.1 abi.Builder.PtrBytes struct arm"})
}
