package main

import (
	"fmt"
	"go/ast"
	"go/token"
	"go/types"
	"strings"

	"golang.org/x/tools/go/packages"
)

func init() { register("C10", checkC10) }

var chanGuarded = map[string]bool{"data": true, "getp": true, "len": true, "sops": true, "sends": true, "selsends": true, "close": true}
var selOpGuarded = map[string]bool{"sem": true}

func chanFileFuncs(c *Ctx, rp *packages.Package) []*ast.FuncDecl {
	var out []*ast.FuncDecl
	for _, fd := range allFuncs(rp) {
		if fileOf(c.fset, fd.Pos()) == "z_chan.go" {
			out = append(out, fd)
		}
	}
	return out
}

func checkC10(c *Ctx) (string, error) {
	c.Rule("R10.1", "guarded fields of Chan/selectOp are accessed only with the owning mutex held (helpers: all callers hold it)", 30)
	c.Rule("R10.2", "Lock/Unlock are paired on every path; no Lock while held; cond.Wait only with the mutex held", 9)
	c.Rule("R10.3", "every cond.Wait re-tests guarded state in a loop (selectOp.wait: every caller re-polls in a loop)", 4)
	c.Rule("R10.4", "every state change that can enable a waiter is followed, on every path, by notifyOps (lock held) and cond.Broadcast; conditional wake-ups cover every enabling transition of the blocking predicates", 12)
	c.Rule("R10.5", "Select registers and unregisters on the same channels with the same direction on every path; register/unregister bodies are symmetric", 3)
	c.Rule("R10.6", "compiler-built ChanOp records and Select result tuples match the runtime declarations", 4)
	c.Rule("R10.7", "buffered channel operations implement a bounded FIFO on every (cap,len,getp,closed) state (abstract evaluation)", 4)

	cfgs := []LoadCfg{defaultCfg}
	if c.Tier == "thorough" {
		cfgs = append(cfgs, LoadCfg{GOOS: "linux", GOARCH: "arm64"}, LoadCfg{GOOS: "darwin", GOARCH: "arm64"}, LoadCfg{GOOS: "linux", GOARCH: "386"})
	}
	var rpDefault *packages.Package
	for _, lc := range cfgs {
		rw, err := loadRT(lc, "internal/runtime")
		if err != nil {
			return "", err
		}
		c.use(rw)
		c.Config = lc.String()
		rp := rw.RT("internal/runtime")
		if rpDefault == nil {
			rpDefault = rp
		}
		checkChanLocks(c, rp)
		checkChanWake(c, rp)
		checkSelectPairing(c, rp)
		evalBufferedChan(c, rp)
		checkSelfRendezvous(c, rp)
		checkSelectNotifyOrder(c, rp)
		c.Config = ""
	}
	w, err := loadMain(defaultCfg, "ssa")
	if err != nil {
		return "", err
	}
	c.use(w)
	checkChanOpLayout(c, w.Main("ssa"), rpDefault)
	checkRecvSlots(c, w.Main("ssa"))
	return "C10 (structural necessary conditions): must/may lockset dataflow over the CFG of every function of runtime z_chan.go (guarded-field accesses, Lock/Unlock pairing, Wait under lock, exits), wait-in-loop, wake-after-write on all paths, finite-domain check that the conditional wake-ups in ChanSend/prepareSelect cover every transition of chanTryRecv's blocking predicates from blocking to enabled (sends,selsends in 0..3), Select register/unregister symmetry, ChanOp/result tuple layout against the runtime declarations, and abstract evaluation of the buffered send/receive paths against a bounded-FIFO specification on all small states. NOT decided: FIFO order and exactly-once delivery across interleavings, absence of deadlock or lost wake-ups under all schedules, unbuffered rendezvous protocol.", nil
}

func checkChanLocks(c *Ctx, rp *packages.Package) {
	info := rp.TypesInfo
	exempt := map[string]string{"NewChan": "constructor: object not yet shared", "selectOp.init": "initialisation before the op is published", "selectOp.end": "destruction after unregistration"}
	requiresLock := map[string]string{"notifyOps": "p.mutex"} // helper -> mutex key held by every caller
	funcs := chanFileFuncs(c, rp)
	if len(funcs) < 10 {
		c.Undecided("R10.1", "z_chan.go functions", 0, fmt.Sprintf("only %d functions found", len(funcs)))
	}
	for _, fd := range funcs {
		name := declName(fd)
		c.nfuncs++
		g := buildCFG(rp, fd)
		var entry []string
		if k, ok := requiresLock[name]; ok {
			entry = []string{k}
		}
		la := analyzeLocks(rp, g, entry)
		// R10.2
		nops := 0
		for _, b := range g.G.Blocks {
			for _, n := range b.Nodes {
				nops += len(lockOpsIn(info, n))
			}
		}
		if nops > 0 || len(entry) > 0 {
			c.Check(len(la.issues) == 0, "R10.2", "runtime."+name+" lock pairing", fd.Pos(), fmt.Sprintf("%d mutex operations balanced on all paths", nops), describeIssues(c, la))
		}
		if why, ok := exempt[name]; ok {
			c.Exists("R10.1", "runtime."+name+" (exempt)", fd.Pos(), why)
			continue
		}
		// R10.1
		for tname, fields := range map[string]map[string]bool{"Chan": chanGuarded, "selectOp": selOpGuarded} {
			seen := map[string]bool{}
			for _, a := range guardedAccesses(info, fd.Body, tname, fields) {
				key := fmt.Sprintf("runtime.%s access %s.%s", name, a.base, a.field)
				if seen[key] {
					continue
				}
				mu := a.base + ".mutex"
				// all accesses of this base.field in the function must be protected
				ok := true
				var where token.Pos
				for _, b := range guardedAccesses(info, fd.Body, tname, fields) {
					if b.base != a.base || b.field != a.field {
						continue
					}
					held, found := la.heldAt(b.sel, mu)
					if !found || !held {
						ok = false
						where = b.sel.Pos()
					}
				}
				seen[key] = true
				if ok {
					c.OK("R10.1", key, a.sel.Pos(), mu+" held at every access")
				} else {
					c.Bad("R10.1", key, where, "field accessed without holding "+mu+" (data race with every other channel operation)")
				}
			}
		}
		// calls to lock-requiring helpers
		for _, call := range callsIn(fd.Body) {
			f := calleeOf(info, call)
			if f == nil {
				continue
			}
			if _, ok := requiresLock[f.Name()]; ok && f.Pkg() == rp.Types && len(call.Args) == 1 {
				mu := exprStr(call.Args[0]) + ".mutex"
				held, found := la.heldAt(call, mu)
				c.Check(found && held, "R10.1", fmt.Sprintf("runtime.%s calls %s(%s) with lock", name, f.Name(), exprStr(call.Args[0])), call.Pos(), mu+" held", "helper that walks the select list is called without "+mu)
			}
		}
		// R10.3
		for _, b := range g.G.Blocks {
			for _, n := range b.Nodes {
				for _, op := range lockOpsIn(info, n) {
					if op.kind != "wait" {
						continue
					}
					fields := chanGuarded
					if strings.HasPrefix(name, "selectOp.") {
						fields = selOpGuarded
					}
					ok, why := waitInLoop(info, fd.Body, op.call, fields)
					key := fmt.Sprintf("runtime.%s Wait(&%s) re-tests state", name, op.key)
					if ok {
						c.OK("R10.3", key, op.call.Pos(), why)
					} else if name == "selectOp.wait" {
						// accepted only if every caller re-polls in a loop
						okCallers, n := selectWaitCallersLoop(rp, funcs)
						c.Check(okCallers && n > 0, "R10.3", key, op.call.Pos(), fmt.Sprintf("single-shot wait; all %d callers re-poll trySelect in a loop", n), "selectOp.wait is not in a loop and a caller does not re-poll after waking")
					} else {
						c.Bad("R10.3", key, op.call.Pos(), why)
					}
				}
			}
		}
	}
}

func selectWaitCallersLoop(rp *packages.Package, funcs []*ast.FuncDecl) (bool, int) {
	info := rp.TypesInfo
	n, ok := 0, true
	for _, fd := range funcs {
		for _, call := range callsIn(fd.Body) {
			f := calleeOf(info, call)
			if f == nil || shortName(f) != "internal/runtime.selectOp.wait" {
				continue
			}
			n++
			inLoop := false
			for _, e := range enclosingStmts(fd.Body, call) {
				if loop, isFor := e.(*ast.ForStmt); isFor {
					// the loop polls before waiting and leaves only on success
					polls := false
					for _, cc := range callsIn(loop.Body) {
						if g := calleeOf(info, cc); g != nil && g.Name() == "trySelect" && cc.Pos() < call.Pos() {
							polls = true
						}
					}
					if polls {
						inLoop = true
					}
				}
			}
			if !inLoop {
				ok = false
			}
		}
	}
	return ok, n
}

// checkChanWake: R10.4
func checkChanWake(c *Ctx, rp *packages.Package) {
	info := rp.TypesInfo
	enabling := map[string]bool{"getp": true, "len": true, "close": true}
	for _, name := range []string{"ChanSend", "ChanTrySend", "ChanRecv", "chanTryRecv", "ChanClose"} {
		fd := findFunc(rp, name)
		if fd == nil {
			c.Bad("R10.4", "runtime."+name, 0, "function not found")
			continue
		}
		g := buildCFG(rp, fd)
		nw := 0
		for _, a := range guardedAccesses(info, fd.Body, "Chan", enabling) {
			if !a.write {
				continue
			}
			nw++
			pos, ok := g.nodePos(a.sel)
			if !ok {
				c.Undecided("R10.4", fmt.Sprintf("runtime.%s write#%d %s.%s", name, nw, a.base, a.field), a.sel.Pos(), "write not found in CFG")
				continue
			}
			isNotify := func(n ast.Node) bool {
				for _, call := range callsIn(n) {
					if f := calleeOf(info, call); f != nil && f.Name() == "notifyOps" && len(call.Args) == 1 && exprStr(call.Args[0]) == a.base {
						// unconditional at this node
						return true
					}
				}
				return false
			}
			isBroadcast := func(n ast.Node) bool {
				for _, call := range callsIn(n) {
					if f := calleeOf(info, call); f != nil && strings.HasSuffix(shortName(f), "sync.Cond.Broadcast") {
						if sel, ok := call.Fun.(*ast.SelectorExpr); ok && exprStr(sel.X) == a.base+".cond" {
							return true
						}
					}
				}
				return false
			}
			_, missNotify := g.reach(pos.after(), isNotify, nil, true, nil)
			_, missBroadcast := g.reach(pos.after(), isBroadcast, nil, true, nil)
			key := fmt.Sprintf("runtime.%s write#%d %s.%s wakes waiters", name, nw, a.base, a.field)
			switch {
			case missNotify:
				c.Bad("R10.4", key, a.sel.Pos(), "a return is reachable after the write without notifyOps("+a.base+"): a select sleeping on this channel is never woken")
			case missBroadcast:
				c.Bad("R10.4", key, a.sel.Pos(), "a return is reachable after the write without "+a.base+".cond.Broadcast(): blocked senders/receivers are not woken (Signal would wake only one of several kinds of waiter)")
			default:
				c.OK("R10.4", key, a.sel.Pos(), "notifyOps + cond.Broadcast on every path to return")
			}
		}
		if nw == 0 {
			c.Undecided("R10.4", "runtime."+name+" state writes", fd.Pos(), "no write to getp/len/close found")
		}
	}
	// conditional wake-ups after sends/selsends increments
	tr := findFunc(rp, "chanTryRecv")
	if tr == nil {
		return
	}
	// blocking predicates: conditions of the early returns in the unbuffered branch that read sends
	var preds []ast.Expr
	ast.Inspect(tr.Body, func(n ast.Node) bool {
		is, ok := n.(*ast.IfStmt)
		if !ok {
			return true
		}
		if !strings.Contains(exprStr(is.Cond), ".sends") {
			return true
		}
		// body returns without committing
		ret := false
		for _, st := range is.Body.List {
			if _, isRet := st.(*ast.ReturnStmt); isRet {
				ret = true
			}
		}
		if ret {
			preds = append(preds, is.Cond)
		}
		return true
	})
	if len(preds) == 0 {
		c.Undecided("R10.4", "chanTryRecv blocking predicates", tr.Pos(), "no early-return condition over sends found")
		return
	}
	blocked := func(base string, s, ss, acc int64) (bool, bool) {
		env := map[string]int64{base + ".sends": s, base + ".selsends": ss, base + ".getp": 0, base + ".close": 0, "acceptSelectSend": acc}
		any := false
		for _, pe := range preds {
			// the predicates are written over the receiver's parameter name p
			penv := map[string]int64{}
			for k, v := range env {
				penv[strings.Replace(k, base+".", "p.", 1)] = v
			}
			v, ok := evalBool(info, pe, penv)
			if !ok {
				return false, false
			}
			any = any || v
		}
		return any, true
	}
	for _, name := range []string{"ChanSend", "prepareSelect"} {
		fd := findFunc(rp, name)
		if fd == nil {
			continue
		}
		// bump groups: consecutive IncDec(INC) statements on X.sends / X.selsends in one statement list
		ast.Inspect(fd.Body, func(n ast.Node) bool {
			blk, ok := n.(*ast.BlockStmt)
			if !ok {
				return true
			}
			for i := 0; i < len(blk.List); i++ {
				inc, ok := blk.List[i].(*ast.IncDecStmt)
				if !ok || inc.Tok != token.INC {
					continue
				}
				sel, ok := inc.X.(*ast.SelectorExpr)
				if !ok || (sel.Sel.Name != "sends" && sel.Sel.Name != "selsends") {
					continue
				}
				base := exprStr(sel.X)
				dS, dSS := int64(0), int64(0)
				j := i
				for ; j < len(blk.List); j++ {
					inc2, ok := blk.List[j].(*ast.IncDecStmt)
					if !ok || inc2.Tok != token.INC {
						break
					}
					s2, ok := inc2.X.(*ast.SelectorExpr)
					if !ok || exprStr(s2.X) != base {
						break
					}
					if s2.Sel.Name == "sends" {
						dS++
					} else if s2.Sel.Name == "selsends" {
						dSS++
					} else {
						break
					}
				}
				// the wake condition: first statement after the group (in this list or, if the list ends,
				// in the enclosing function after the group) that calls notifyOps(base)
				var cond ast.Expr
				uncond := false
				found := false
				var scan func(list []ast.Stmt) bool
				scan = func(list []ast.Stmt) bool {
					for _, st := range list {
						if st.Pos() < blk.List[j-1].End() {
							continue
						}
						switch x := st.(type) {
						case *ast.ExprStmt:
							if call, ok := x.X.(*ast.CallExpr); ok {
								if f := calleeOf(info, call); f != nil && f.Name() == "notifyOps" {
									uncond, found = true, true
									return true
								}
								if len(lockOpsIn(info, x)) > 0 {
									return true // reached Wait/Unlock without a wake-up
								}
							}
						case *ast.IfStmt:
							for _, call := range callsIn(x.Body) {
								if f := calleeOf(info, call); f != nil && f.Name() == "notifyOps" {
									cond, found = x.Cond, true
									return true
								}
							}
						}
					}
					return false
				}
				if !scan(blk.List) {
					// continue in the enclosing statement list of the function body
					for _, e := range enclosingStmts(fd.Body, blk) {
						if outer, ok := e.(*ast.BlockStmt); ok && outer != blk {
							if scan(outer.List) {
								break
							}
						}
					}
				}
				key := fmt.Sprintf("runtime.%s %s.sends+=%d selsends+=%d wake condition", name, base, dS, dSS)
				bad := ""
				und := ""
				nt := 0
				for s := int64(0); s <= 3; s++ {
					for ss := int64(0); ss <= s; ss++ {
						for acc := int64(0); acc <= 1; acc++ {
							b0, ok0 := blocked(base, s, ss, acc)
							b1, ok1 := blocked(base, s+dS, ss+dSS, acc)
							if !ok0 || !ok1 {
								und = "blocking predicate not evaluable"
								continue
							}
							nt++
							if !(b0 && !b1) {
								continue // not an enabling transition
							}
							wake := uncond
							if !uncond && found && cond != nil {
								env := map[string]int64{base + ".sends": s + dS, base + ".selsends": ss + dSS, base + ".cap": 0, "isSend": 1}
								v, ok := evalBool(info, cond, env)
								if !ok {
									und = "wake condition not evaluable: " + exprStr(cond)
									continue
								}
								wake = v
							}
							if !wake && bad == "" {
								bad = fmt.Sprintf("with sends=%d selsends=%d before the increment, a select receiver (acceptSelectSend=%v) changes from blocked to able to proceed, but no notifyOps is issued: it sleeps forever although send and receive could complete together", s, ss, acc == 1)
							}
						}
					}
				}
				c.evals += nt
				if und != "" {
					c.Undecided("R10.4", key, inc.Pos(), und)
				} else {
					desc := "unconditional notifyOps"
					if cond != nil {
						desc = "notifyOps if " + exprStr(cond)
					}
					c.Check(bad == "", "R10.4", key, inc.Pos(), desc+" covers every blocked->enabled transition of chanTryRecv's predicates ("+fmt.Sprint(nt)+" states)", bad)
				}
				i = j - 1
			}
			return true
		})
	}
}

func checkSelectPairing(c *Ctx, rp *packages.Package) {
	info := rp.TypesInfo
	sel := findFunc(rp, "Select")
	if sel == nil {
		c.Bad("R10.5", "runtime.Select", 0, "function not found")
		return
	}
	type site struct {
		call   *ast.CallExpr
		loop   *ast.RangeStmt
		filter string
		args   string
	}
	var prep, end []site
	ast.Inspect(sel.Body, func(n ast.Node) bool {
		rs, ok := n.(*ast.RangeStmt)
		if !ok {
			return true
		}
		for _, call := range callsIn(rs.Body) {
			f := calleeOf(info, call)
			if f == nil {
				continue
			}
			var as []string
			for _, a := range call.Args {
				as = append(as, exprStr(a))
			}
			filter := ""
			for _, st := range rs.Body.List {
				if is, ok := st.(*ast.IfStmt); ok && len(is.Body.List) == 1 {
					if br, ok := is.Body.List[0].(*ast.BranchStmt); ok && br.Tok == token.CONTINUE {
						filter += exprStr(is.Cond) + ";"
					}
				}
			}
			s := site{call, rs, filter, strings.Join(as, ",")}
			switch f.Name() {
			case "prepareSelect":
				prep = append(prep, s)
			case "endSelect":
				end = append(end, s)
			}
		}
		return true
	})
	ok := len(prep) == 1 && len(end) == 1 && prep[0].filter == end[0].filter && prep[0].args == end[0].args && exprStr(prep[0].loop.X) == exprStr(end[0].loop.X) && end[0].loop.Pos() > prep[0].loop.End()
	why := "register and unregister loops differ in channel filter, arguments or order"
	if ok {
		// no return between registration and unregistration
		g := buildCFG(rp, sel)
		pp, _ := g.nodePos(prep[0].call)
		_, leaks := g.reach(pp.after(), func(n ast.Node) bool {
			return nodeHas(n, func(x ast.Node) bool { return x == ast.Node(end[0].call) })
		}, nil, true, func(b *cfgBlk, k int) bool {
			// ignore the "range exhausted without calling" exit of the unregister loop itself
			return true
		})
		// the unregister loop may skip nil channels: accept exits that pass through the end loop header
		if leaks {
			_, leaks = g.reach(pp.after(), func(n ast.Node) bool {
				return n.Pos() >= end[0].loop.Pos() && n.End() <= end[0].loop.End()
			}, nil, true, nil)
		}
		if leaks {
			ok, why = false, "a return is reachable after registration without running the unregister loop"
		}
	}
	c.Check(ok, "R10.5", "runtime.Select register/unregister", sel.Pos(), "prepareSelect and endSelect run over the same ops with the same nil filter and arguments; no exit in between", why)
	// symmetric bodies
	pf, ef := findFunc(rp, "prepareSelect"), findFunc(rp, "endSelect")
	if pf == nil || ef == nil {
		c.Bad("R10.5", "prepareSelect/endSelect", 0, "functions not found")
		return
	}
	type bump struct{ cond, field string }
	collect := func(fd *ast.FuncDecl, tok token.Token) []bump {
		var out []bump
		ast.Inspect(fd.Body, func(n ast.Node) bool {
			is, ok := n.(*ast.IfStmt)
			if !ok {
				return true
			}
			for _, st := range is.Body.List {
				if inc, ok := st.(*ast.IncDecStmt); ok && inc.Tok == tok {
					if s, ok := inc.X.(*ast.SelectorExpr); ok {
						out = append(out, bump{strings.ReplaceAll(exprStr(is.Cond), " ", ""), s.Sel.Name})
					}
				}
			}
			return true
		})
		return out
	}
	incs, decs := collect(pf, token.INC), collect(ef, token.DEC)
	same := len(incs) == len(decs) && len(incs) == 2
	for i := range incs {
		if i < len(decs) && incs[i] != decs[i] {
			same = false
		}
	}
	c.Check(same, "R10.5", "prepareSelect/endSelect counters symmetric", pf.Pos(), "sends/selsends incremented and decremented under the same condition", fmt.Sprintf("increments %v vs decrements %v", incs, decs))
	// sops: append in prepare, removal of exactly selOp in end
	appendOK := strings.Contains(strings.ReplaceAll(nodeSrc(pf.Body), " ", ""), "c.sops=append(c.sops,selOp)")
	removeOK := false
	ast.Inspect(ef.Body, func(n ast.Node) bool {
		if rs, ok := n.(*ast.RangeStmt); ok && exprStr(rs.X) == "c.sops" {
			s := strings.ReplaceAll(nodeSrc(rs.Body), " ", "")
			if (strings.Contains(s, "op==selOp") || strings.Contains(s, "selOp==op")) && strings.Contains(s, "c.sops=append(c.sops[:i],c.sops[i+1:]...)") {
				removeOK = true
			}
		}
		return true
	})
	c.Check(appendOK && removeOK, "R10.5", "prepareSelect/endSelect select list symmetric", pf.Pos(), "selOp appended on register and removed on unregister", "the select op is not removed from the channel's list on unregister (a stale op is notified after selOp.end)")
}

func nodeSrc(n ast.Node) string {
	var parts []string
	ast.Inspect(n, func(x ast.Node) bool {
		switch s := x.(type) {
		case *ast.AssignStmt:
			var l, r []string
			for _, e := range s.Lhs {
				l = append(l, exprStr(e))
			}
			for _, e := range s.Rhs {
				r = append(r, exprStr(e))
			}
			parts = append(parts, strings.Join(l, ",")+s.Tok.String()+strings.Join(r, ","))
		case *ast.IfStmt:
			parts = append(parts, "if "+exprStr(s.Cond))
		}
		return true
	})
	return strings.Join(parts, ";")
}

// evalBufferedChan: R10.7
func evalBufferedChan(c *Ctx, rp *packages.Package) {
	const elt = 8
	mk := func(capv, getp, ln int64, closed bool) *val {
		return ivStruct(map[string]*val{
			"mutex": ivOpaque("mutex"), "cond": ivOpaque("cond"), "data": ivOpaque("buf"),
			"getp": ivInt(getp), "len": ivInt(ln), "cap": ivInt(capv), "sops": {k: vNil},
			"sends": ivInt(0), "selsends": ivInt(0), "close": ivBool(closed),
		})
	}
	type copyRec struct{ dst, src, n string }
	type result struct {
		out    *outcome
		copies []copyRec
		depth  int
		waited bool
	}
	run := func(fd *ast.FuncDecl, p *val, extra ...*val) result {
		var r result
		hooks := rtHooks(&r.depth, nil)
		hooks["internal/clite.Memcpy"] = func(it *interp, call *ast.CallExpr, a []*val) (*val, bool) {
			r.copies = append(r.copies, copyRec{a[0].String(), a[1].String(), a[2].String()})
			return ivOpaque("void"), true
		}
		hooks["internal/runtime.notifyOps"] = func(it *interp, call *ast.CallExpr, a []*val) (*val, bool) { return ivOpaque("void"), true }
		base := hooks["*"]
		hooks["*"] = func(it *interp, call *ast.CallExpr, a []*val) (*val, bool) {
			if f := calleeOf(it.info, call); f != nil && strings.HasSuffix(shortName(f), "sync.Cond.Wait") {
				r.waited = true
				it.fail("blocks")
			}
			return base(it, call, a)
		}
		args := append([]*val{p, ivOpaque("v"), ivInt(elt)}, extra...)
		r.out = runFunc(rp.TypesInfo, fd, args, hooks)
		return r
	}
	offs := func(base string, idx int64) string {
		if idx == 0 {
			return base
		}
		return fmt.Sprintf("adv(%s,%d)", base, idx*elt)
	}
	type opSpec struct {
		fn    string
		recv  bool
		extra []*val
	}
	for _, op := range []opSpec{{"chanTryRecv", true, []*val{ivBool(true)}}, {"ChanRecv", true, nil}, {"ChanTrySend", false, nil}, {"ChanSend", false, nil}} {
		fd := findFunc(rp, op.fn)
		if fd == nil {
			c.Bad("R10.7", "runtime."+op.fn+" buffered FIFO", 0, "function not found")
			continue
		}
		c.nfuncs++
		n, bad, und := 0, "", ""
		for capv := int64(1); capv <= 3; capv++ {
			for ln := int64(0); ln <= capv; ln++ {
				for getp := int64(0); getp < capv; getp++ {
					for _, closed := range []bool{false, true} {
						if !op.recv && closed {
							continue // closed sends are decided by C03 R03.3
						}
						p := mk(capv, getp, ln, closed)
						r := run(fd, p, op.extra...)
						n++
						st := fmt.Sprintf("cap=%d len=%d getp=%d closed=%v", capv, ln, getp, closed)
						blocking := op.fn == "ChanRecv" || op.fn == "ChanSend"
						wouldBlock := (op.recv && ln == 0 && !closed) || (!op.recv && ln == capv)
						if r.waited {
							if !(blocking && wouldBlock) && bad == "" {
								bad = st + ": operation waits although it can complete"
							}
							continue
						}
						if r.out.Err != "" {
							und = st + ": " + r.out.Err
							continue
						}
						if r.out.Panicked {
							if bad == "" {
								bad = st + ": panics (" + r.out.PanicTag + ")"
							}
							continue
						}
						if blocking && wouldBlock {
							if bad == "" {
								bad = st + ": returns without waiting although the operation cannot complete"
							}
							continue
						}
						if r.depth != 0 && bad == "" {
							bad = st + ": returns with the channel mutex held"
						}
						q := r.out.Final["p"]
						if op.recv {
							// results: chanTryRecv (recvOK, tryOK); ChanRecv recvOK
							recvOK := r.out.Results[0].b
							if ln > 0 {
								okRes := recvOK && (len(r.out.Results) == 1 || r.out.Results[1].b)
								okState := q.f["len"].i == ln-1 && q.f["getp"].i == (getp+1)%capv
								okCopy := len(r.copies) == 1 && r.copies[0].dst == "v" && r.copies[0].src == offs("buf", getp) && r.copies[0].n == fmt.Sprint(elt)
								if !(okRes && okState && okCopy) && bad == "" {
									bad = fmt.Sprintf("%s: receive with %d buffered value(s) gives results %v, len=%s getp=%s, copies %v; a FIFO delivers the element at getp (also after close) and advances", st, ln, r.out.Results, q.f["len"], q.f["getp"], r.copies)
								}
							} else {
								// empty: only reachable without waiting when closed (or try)
								wantTry := closed
								if recvOK && bad == "" {
									bad = st + ": receive from an empty channel reports a value"
								}
								if len(r.out.Results) == 2 && r.out.Results[1].b != wantTry && bad == "" {
									bad = fmt.Sprintf("%s: tryOK=%v, want %v (a closed empty channel is ready, an open empty one is not)", st, r.out.Results[1].b, wantTry)
								}
								if (q.f["len"].i != 0 || len(r.copies) != 0) && bad == "" {
									bad = st + ": state changed by a receive that delivered nothing"
								}
							}
						} else {
							sent := r.out.Results[0].b
							if ln < capv {
								okState := q.f["len"].i == ln+1 && q.f["getp"].i == getp
								okCopy := len(r.copies) == 1 && r.copies[0].dst == offs("buf", (getp+ln)%capv) && r.copies[0].src == "v"
								if !(sent && okState && okCopy) && bad == "" {
									bad = fmt.Sprintf("%s: send gives %v, len=%s, copies %v; a FIFO stores at (getp+len)%%cap and grows by one", st, sent, q.f["len"], r.copies)
								}
							} else if sent || q.f["len"].i != ln {
								if bad == "" {
									bad = st + ": send into a full buffer succeeds (buffer holds more than its capacity)"
								}
							}
						}
					}
				}
			}
		}
		c.evals += n
		key := "runtime." + op.fn + " buffered FIFO"
		if und != "" && bad == "" {
			c.Undecided("R10.7", key, fd.Pos(), "outside the interpretable fragment: "+und)
		} else {
			c.Check(bad == "", "R10.7", key, fd.Pos(), fmt.Sprintf("agrees with a bounded FIFO on %d (cap,len,getp,closed) states", n), bad)
		}
	}
}

// checkChanOpLayout: R10.6
func checkChanOpLayout(c *Ctx, p *packages.Package, rp *packages.Package) {
	st := structOf(lookupNamed(rp.Types, "ChanOp"))
	fd := findFunc(p, "Builder.chanOp")
	if st == nil || fd == nil {
		c.Bad("R10.6", "ChanOp layout", 0, "runtime.ChanOp or ssa.Builder.chanOp not found")
		return
	}
	v := newFnView(p, fd)
	var agg *ast.CallExpr
	for _, call := range callsIn(fd.Body) {
		if name, _, ok := v.call(call); ok && name == "ssa.Builder.aggregateValue" {
			agg = call
		}
	}
	if agg == nil {
		c.Undecided("R10.6", "ChanOp layout", fd.Pos(), "no aggregateValue in chanOp")
		return
	}
	_, args, _ := v.call(agg)
	vals := args[1:]
	okN := len(vals) == st.NumFields()
	c.Check(okN, "R10.6", "ChanOp field count", agg.Pos(), fmt.Sprintf("%d values for %d fields", len(vals), st.NumFields()), fmt.Sprintf("compiler builds %d values, runtime.ChanOp has %d fields", len(vals), st.NumFields()))
	// roles by position
	want := []string{"C", "Val", "Size", "Send"}
	got := []string{}
	for i := 0; i < st.NumFields(); i++ {
		got = append(got, st.Field(i).Name())
	}
	roles := []string{"s.Chan.impl", "val.impl", "size.impl", "send.impl"}
	okOrder := strings.Join(got, ",") == strings.Join(want, ",")
	for i, r := range roles {
		if i >= len(vals) || exprStr(vals[i]) != r {
			okOrder = false
		}
	}
	c.Check(okOrder, "R10.6", "ChanOp field order", agg.Pos(), "channel, value pointer, size, direction in declaration order", fmt.Sprintf("runtime fields %v vs compiler values order", got))
	// Size width: runtime field type vs the prog.IntN() used for size
	okW := false
	if okN {
		ft := st.Field(2).Type().String()
		uses := ""
		ast.Inspect(fd.Body, func(n ast.Node) bool {
			if as, ok := n.(*ast.AssignStmt); ok && exprStr(as.Lhs[0]) == "size" {
				uses += exprStr(as.Rhs[0]) + ";"
			}
			return true
		})
		okW = ft == "int32" && strings.Count(uses, "prog.Int32()") == 2 || ft == "int" && strings.Count(uses, "prog.Int()") == 2
	}
	c.Check(okW, "R10.6", "ChanOp size width", agg.Pos(), "size emitted with the width of runtime.ChanOp.Size", "the size value's integer width differs from the runtime field (the following field is read at the wrong offset)")
	// result tuples
	for name, n := range map[string]int{"Select": 2, "TrySelect": 3} {
		o, ok := rp.Types.Scope().Lookup(name).(*types.Func)
		if !ok {
			c.Bad("R10.6", "runtime."+name+" results", 0, "not found")
			continue
		}
		res := o.Type().(*types.Signature).Results()
		okR := res.Len() == n && res.At(0).Type().String() == "int" && res.At(1).Type().String() == "bool"
		c.Check(okR, "R10.6", "runtime."+name+" results", o.Pos(), fmt.Sprintf("%d results (index, recvOK, ...)", n), fmt.Sprintf("compiler extracts %d results (int, bool, ...), runtime returns %s", n, res))
	}
}

func init() {
	z := "runtime/internal/runtime/z_chan.go"
	addMutant(Mutant{Prop: "C10", Name: "chanlen-unlocked", File: z, Old: "\tp.mutex.Lock()\n\tn = p.len\n\tp.mutex.Unlock()\n", New: "\tn = p.len\n", Expect: "R10.1 runtime.ChanLen access p.len"})
	addMutant(Mutant{Prop: "C10", Name: "trysend-early-return-locked", File: z, Old: "\t\tif p.len == n || p.close {\n\t\t\tp.mutex.Unlock()\n\t\t\treturn false\n\t\t}\n\t\toff := (p.getp + p.len) % n\n\t\tc.Memcpy(c.Advance(p.data, off*eltSize), v, uintptr(eltSize))\n\t\tp.len++\n\t}\n\tnotifyOps(p)\n\tp.mutex.Unlock()\n\tp.cond.Broadcast()\n\treturn true\n}\n\nfunc ChanSend",
		New: "\t\tif p.len == n || p.close {\n\t\t\treturn false\n\t\t}\n\t\toff := (p.getp + p.len) % n\n\t\tc.Memcpy(c.Advance(p.data, off*eltSize), v, uintptr(eltSize))\n\t\tp.len++\n\t}\n\tnotifyOps(p)\n\tp.mutex.Unlock()\n\tp.cond.Broadcast()\n\treturn true\n}\n\nfunc ChanSend", Expect: "R10.2 runtime.ChanTrySend lock pairing"})
	addMutant(Mutant{Prop: "C10", Name: "recv-wait-if", File: z, Old: "\t\tfor p.getp == chanHasRecv && !p.close {\n\t\t\tp.cond.Wait(&p.mutex)\n\t\t}\n\t\tif p.close {\n\t\t\tp.mutex.Unlock()\n\t\t\treturn false\n\t\t}\n\t\tp.getp = chanHasRecv", New: "\t\tif p.getp == chanHasRecv && !p.close {\n\t\t\tp.cond.Wait(&p.mutex)\n\t\t}\n\t\tif p.close {\n\t\t\tp.mutex.Unlock()\n\t\t\treturn false\n\t\t}\n\t\tp.getp = chanHasRecv", Expect: "R10.3 runtime.ChanRecv Wait"})
	addMutant(Mutant{Prop: "C10", Name: "close-no-broadcast", File: z, Old: "\tp.close = true\n\tnotifyOps(p)\n\tp.mutex.Unlock()\n\tp.cond.Broadcast()\n", New: "\tp.close = true\n\tnotifyOps(p)\n\tp.mutex.Unlock()\n\tp.cond.Signal()\n", Expect: "R10.4 runtime.ChanClose write#1 p.close"})
	addMutant(Mutant{Prop: "C10", Name: "close-no-notify", File: z, Old: "\tp.close = true\n\tnotifyOps(p)\n", New: "\tp.close = true\n", Expect: "R10.4 runtime.ChanClose write#1 p.close"})
	addMutant(Mutant{Prop: "C10", Name: "send-wake-only-first", File: z, Old: "if p.sends == 1 || p.sends-1 == p.selsends {", New: "if p.sends == 1 {", Expect: "R10.4 runtime.ChanSend p.sends+=1"})
	addMutant(Mutant{Prop: "C10", Name: "endselect-asymmetric", File: z, Old: "\tif c.cap == 0 && isSend {\n\t\tc.sends--\n\t\tc.selsends--\n\t}", New: "\tif isSend {\n\t\tc.sends--\n\t\tc.selsends--\n\t}", Expect: "R10.5 prepareSelect/endSelect counters"})
	addMutant(Mutant{Prop: "C10", Name: "tryrecv-closed-drops-buffer", File: z, Old: "\t} else {\n\t\tif p.len == 0 {\n\t\t\ttryOK = p.close", New: "\t} else {\n\t\tif p.len == 0 || p.close {\n\t\t\ttryOK = p.close", Expect: "R10.7 runtime.chanTryRecv buffered FIFO"})
	addMutant(Mutant{Prop: "C10", Name: "send-offset", File: z, Old: "\t\tfor p.len == n && !p.close {\n\t\t\tp.cond.Wait(&p.mutex)\n\t\t}\n\t\tif p.close {\n\t\t\tp.mutex.Unlock()\n\t\t\tpanic(plainError(\"send on closed channel\"))\n\t\t}\n\t\toff := (p.getp + p.len) % n", New: "\t\tfor p.len == n && !p.close {\n\t\t\tp.cond.Wait(&p.mutex)\n\t\t}\n\t\tif p.close {\n\t\t\tp.mutex.Unlock()\n\t\t\tpanic(plainError(\"send on closed channel\"))\n\t\t}\n\t\toff := p.len % n", Expect: "R10.7 runtime.ChanSend buffered FIFO"})
	addMutant(Mutant{Prop: "C10", Name: "chanop-size-int", File: "ssa/datastruct.go", Old: "size = prog.IntVal(prog.SizeOf(etyp), prog.Int32())", New: "size = prog.IntVal(prog.SizeOf(etyp), prog.Int())", Expect: "R10.6 ChanOp size width"})
}
