package main

import (
	"encoding/json"
	"fmt"
	"go/ast"
	"go/token"
	"go/types"
	"os"
	"path/filepath"
	"reflect"
	"sort"
	"strings"

	"golang.org/x/tools/go/packages"
)

// checkCacheOnlySuccess (R18.7): a Loader method that stores a value in one of the loader's maps must not store
// the result of a fallible step before that step's error was examined; otherwise a failed resolution is
// remembered as (nil, nil) and the error is reported once only.
func checkCacheOnlySuccess(c *Ctx, p *packages.Package) {
	c.Rule("R18.7", "loader caches remember successes only: a value produced together with an error is stored in a Loader map only after that error was tested", 1)
	info := p.TypesInfo
	n := 0
	for _, fd := range allFuncs(p) {
		if fd.Recv == nil || !strings.HasPrefix(declName(fd), "Loader.") {
			continue
		}
		recv := ""
		if len(fd.Recv.List) > 0 && len(fd.Recv.List[0].Names) > 0 {
			recv = fd.Recv.List[0].Names[0].Name
		}
		v := newFnView(p, fd)
		g := buildCFG(p, fd)
		ast.Inspect(fd.Body, func(x ast.Node) bool {
			as, ok := x.(*ast.AssignStmt)
			if !ok || len(as.Lhs) != 1 || len(as.Rhs) != 1 {
				return true
			}
			ix, ok := as.Lhs[0].(*ast.IndexExpr)
			if !ok {
				return true
			}
			se, ok := ast.Unparen(ix.X).(*ast.SelectorExpr)
			if !ok || exprStr(se.X) != recv {
				return true
			}
			if _, isMap := info.TypeOf(ix.X).Underlying().(*types.Map); !isMap {
				return true
			}
			n++
			key := fmt.Sprintf("targets.%s stores into %s", declName(fd), exprStr(ix.X))
			// identifiers of the stored expression that were defined together with an error
			var ids []*ast.Ident
			ast.Inspect(as.Rhs[0], func(y ast.Node) bool {
				if id, ok := y.(*ast.Ident); ok {
					if _, isVar := info.Uses[id].(*types.Var); isVar {
						ids = append(ids, id)
					}
				}
				return true
			})
			if len(ids) == 0 {
				c.OK("R18.7", key, as.Pos(), "stored value is not the result of a fallible call")
				return true
			}
			isStored := map[types.Object]bool{}
			for _, id := range ids {
				isStored[info.Uses[id]] = true
			}
			var defStmt *ast.AssignStmt
			var errObj types.Object
			ast.Inspect(fd.Body, func(y ast.Node) bool {
				da, ok := y.(*ast.AssignStmt)
				if !ok || len(da.Lhs) < 2 || len(da.Rhs) != 1 {
					return true
				}
				hasV := false
				var eo types.Object
				for _, l := range da.Lhs {
					lid, ok := l.(*ast.Ident)
					if !ok {
						continue
					}
					o := info.Defs[lid]
					if o == nil {
						o = info.Uses[lid]
					}
					if o != nil && isStored[o] {
						hasV = true
					}
					if o != nil && types.Identical(o.Type(), types.Universe.Lookup("error").Type()) {
						eo = o
					}
				}
				if hasV && eo != nil {
					defStmt, errObj = da, eo
				}
				return true
			})
			_ = v
			if defStmt == nil {
				c.OK("R18.7", key, as.Pos(), "stored value is not produced together with an error")
				return true
			}
			dp, ok1 := g.nodePos(defStmt)
			if !ok1 {
				c.Undecided("R18.7", key, as.Pos(), "definition not located in the CFG")
				return true
			}
			testsErr := func(nd ast.Node) bool {
				e, ok := nd.(ast.Expr)
				if !ok {
					return false
				}
				return mentions(info, e, errObj) && (strings.Contains(exprStr(e), "!= nil") || strings.Contains(exprStr(e), "== nil"))
			}
			_, reached := g.reach(dp.after(), testsErr, func(nd ast.Node) bool { return nd == ast.Node(as) }, false, nil)
			c.Check(!reached, "R18.7", key, as.Pos(), "the producing call's error is tested before the store", "the result of "+exprStr(defStmt.Rhs[0])+" is stored before its error is examined: a failed resolution is remembered, and the next request for the same name returns (nil, nil) instead of the error")
			return true
		})
	}
	if n == 0 {
		c.Undecided("R18.7", "targets.Loader map stores", 0, "no store into a Loader map found")
	}
}

func init() {
	addMutant(Mutant{Prop: "C18", Name: "memoised-failure", File: "internal/targets/loader.go",
		Old: "\treturn l.resolveInheritance(raw)\n}", New: "\tconfig, err := l.resolveInheritance(raw)\n\tl.resolving[name] = config == nil\n\treturn config, err\n}", Expect: "R18.7"})
}

// checkEnumValidation (R18.8): when validateConfig restricts a field to a set of values, every value the shipped
// target descriptions use for that field must be in the set.
func checkEnumValidation(c *Ctx, p *packages.Package) {
	c.Rule("R18.8", "every value a shipped target description gives to a field is accepted by the resolver's validation of that field", 0)
	fd := findFunc(p, "Resolver.validateConfig")
	if fd == nil {
		c.Undecided("R18.8", "targets.Resolver.validateConfig", 0, "function not found")
		return
	}
	c.nfuncs++
	info := p.TypesInfo
	cfgT := structOf(lookupNamed(p.Types, "Config"))
	tagOf := map[string]string{}
	if cfgT != nil {
		for i := 0; i < cfgT.NumFields(); i++ {
			tag := reflect.StructTag(cfgT.Tag(i)).Get("json")
			if j := strings.Index(tag, ","); j >= 0 {
				tag = tag[:j]
			}
			tagOf[cfgT.Field(i).Name()] = tag
		}
	}
	// allowed sets: switch config.F { case "a", "b": ... } and slices.Contains([]string{...}, config.F)
	allowed := map[string]map[string]bool{}
	at := map[string]token.Pos{}
	field := func(e ast.Expr) string {
		se, ok := ast.Unparen(e).(*ast.SelectorExpr)
		if !ok {
			return ""
		}
		if _, ok := tagOf[se.Sel.Name]; ok {
			return se.Sel.Name
		}
		return ""
	}
	ast.Inspect(fd.Body, func(n ast.Node) bool {
		switch x := n.(type) {
		case *ast.SwitchStmt:
			if f := field(x.Tag); f != "" {
				hasDefaultErr := false
				set := map[string]bool{}
				for _, st := range x.Body.List {
					cc := st.(*ast.CaseClause)
					if cc.List == nil {
						hasDefaultErr = nodeHas(cc, func(y ast.Node) bool { r, ok := y.(*ast.ReturnStmt); return ok && returnsError(info, r) })
					}
					for _, e := range cc.List {
						if s, ok := constString(info, e); ok {
							set[s] = true
						}
					}
				}
				if hasDefaultErr {
					allowed[f], at[f] = set, x.Pos()
				}
			}
		case *ast.CallExpr:
			if g := calleeOf(info, x); g != nil && g.Name() == "Contains" && len(x.Args) == 2 {
				if f := field(x.Args[1]); f != "" {
					if cl, ok := x.Args[0].(*ast.CompositeLit); ok {
						set := map[string]bool{}
						for _, e := range cl.Elts {
							if s, ok := constString(info, e); ok {
								set[s] = true
							}
						}
						allowed[f], at[f] = set, x.Pos()
					}
				}
			}
		}
		return true
	})
	if len(allowed) == 0 {
		c.Exists("R18.8", "targets.Resolver.validateConfig restricts no field to an enumeration", fd.Pos(), "nothing to compare")
		return
	}
	files, _ := filepath.Glob(filepath.Join(repoDir, "targets", "*.json"))
	sort.Strings(files)
	for f, set := range allowed {
		tag := tagOf[f]
		var missing []string
		seen := map[string]bool{}
		for _, file := range files {
			data, err := os.ReadFile(file)
			if err != nil {
				continue
			}
			var m map[string]any
			if json.Unmarshal(data, &m) != nil {
				continue
			}
			if v, ok := m[tag].(string); ok && v != "" && !set[v] && !seen[v] {
				seen[v] = true
				missing = append(missing, fmt.Sprintf("%q (%s)", v, filepath.Base(file)))
			}
		}
		c.Check(len(missing) == 0, "R18.8", "targets.Resolver.validateConfig accepts every shipped value of "+f, at[f], "all shipped values are in the allowed set",
			"shipped descriptions use "+strings.Join(missing, ", ")+" for "+tag+", which validateConfig rejects: these targets can no longer be resolved")
	}
}
