package main

import (
	"fmt"
	"go/ast"
	"go/token"
	"go/types"
	"strings"

	"golang.org/x/tools/go/packages"
)

func init() { register("C16", checkC16) }

// condCalls lists, for every condition in the function (if conditions incl. their init statements, switch tags),
// the callees it consults, together with the "outcome" of the controlled branch.
type condUse struct {
	callee  string
	cond    ast.Expr
	stmt    *ast.IfStmt
	outcome string // "error", "skipdir", "skip", "other"
}

func branchOutcome(info *types.Info, body *ast.BlockStmt) string {
	out := "other"
	for _, st := range body.List {
		if r, ok := st.(*ast.ReturnStmt); ok {
			if returnsError(info, r) {
				txt := ""
				for _, e := range r.Results {
					txt += exprStr(e)
				}
				if strings.Contains(txt, "SkipDir") {
					return "skipdir"
				}
				return "error"
			}
			return "skip"
		}
		if _, ok := st.(*ast.BranchStmt); ok {
			return "skip"
		}
		if is, ok := st.(*ast.IfStmt); ok {
			if o := branchOutcome(info, is.Body); o != "other" {
				out = o
			}
		}
	}
	return out
}

func condUses(p *packages.Package, root ast.Node) []condUse {
	info := p.TypesInfo
	var out []condUse
	// "x, err := f(...)" immediately followed by "if err != nil { ... }"
	ast.Inspect(root, func(n ast.Node) bool {
		blk, ok := n.(*ast.BlockStmt)
		if !ok {
			return true
		}
		for i := 0; i+1 < len(blk.List); i++ {
			as, ok := blk.List[i].(*ast.AssignStmt)
			if !ok || len(as.Rhs) != 1 {
				continue
			}
			call, ok := as.Rhs[0].(*ast.CallExpr)
			if !ok {
				continue
			}
			is, ok := blk.List[i+1].(*ast.IfStmt)
			if !ok || is.Init != nil || strings.ReplaceAll(exprStr(is.Cond), " ", "") != "err!=nil" {
				continue
			}
			if f := calleeOf(info, call); f != nil {
				out = append(out, condUse{shortName(f), is.Cond, is, branchOutcome(info, is.Body)})
			}
		}
		return true
	})
	ast.Inspect(root, func(n ast.Node) bool {
		is, ok := n.(*ast.IfStmt)
		if !ok {
			return true
		}
		var exprs []ast.Node
		exprs = append(exprs, is.Cond)
		if is.Init != nil {
			exprs = append(exprs, is.Init)
		}
		oc := branchOutcome(info, is.Body)
		for _, e := range exprs {
			ast.Inspect(e, func(x ast.Node) bool {
				if call, ok := x.(*ast.CallExpr); ok {
					if f := calleeOf(info, call); f != nil {
						out = append(out, condUse{shortName(f), is.Cond, is, oc})
					}
				}
				return true
			})
		}
		return true
	})
	return out
}

func hasUse(uses []condUse, callee string, outcomes ...string) *condUse {
	for i := range uses {
		u := &uses[i]
		if u.callee != callee {
			continue
		}
		if len(outcomes) == 0 {
			return u
		}
		for _, o := range outcomes {
			if u.outcome == o {
				return u
			}
		}
	}
	return nil
}

func checkC16(c *Ctx) (string, error) {
	w, err := loadMain(defaultCfg, "internal/goembed", "cl")
	if err != nil {
		return "", err
	}
	c.use(w)
	p := w.Main("internal/goembed")
	info := p.TypesInfo

	checkEmbedSyntaxAndGlob(c, w.Main("internal/goembed"))
	c.Rule("R16.1", "every predicate the go tool applies when resolving //go:embed patterns is consulted on every accepting path, with a rejecting outcome", 14)
	c.Rule("R16.2", "resolved files and embed.FS entries are emitted in the order the standard embed package searches (sorted by directory, then element; no map order)", 4)
	c.Rule("R16.3", "misplaced directives, multiple variables and a missing embed import are rejected", 3)

	rp := findFunc(p, "ResolvePatterns")
	cpth := findFunc(p, "CheckPath")
	if rp == nil || cpth == nil {
		return "", fmt.Errorf("goembed.ResolvePatterns/CheckPath not found")
	}
	c.nfuncs += 2
	ru := condUses(p, rp)
	req := func(ok bool, key string, pos token.Pos, okw, badw string) { c.Check(ok, "R16.1", key, pos, okw, badw) }

	req(hasUse(ru, "path.Match", "error") != nil, "pattern syntax checked", rp.Pos(), "path.Match(pattern, \"\") error rejects", "malformed glob patterns are not rejected")
	req(hasUse(ru, "internal/goembed.ValidPattern", "error") != nil, "pattern is a valid slash path", rp.Pos(), "ValidPattern rejects", "patterns such as '.', '../x', '/abs' or with backslashes are not rejected")
	if vp := findFunc(p, "ValidPattern"); vp != nil {
		s := strings.ReplaceAll(nodeText(vp.Body.List[0]), " ", "")
		req(strings.Contains(s, `pattern!="."`) && strings.Contains(s, "fs.ValidPath(pattern)"), "ValidPattern = not '.' and fs.ValidPath", vp.Pos(), s, "ValidPattern is "+s)
	}
	// all: prefix controls the hidden-file filter, per pattern
	allSet, allWhy := false, "the all: prefix is not handled"
	allScoped, scopeWhy := false, "no per-pattern `all` flag found"
	var patLoop *ast.RangeStmt
	ast.Inspect(rp.Body, func(n ast.Node) bool {
		if r, ok := n.(*ast.RangeStmt); ok && patLoop == nil && exprStr(r.X) == "patterns" {
			patLoop = r
		}
		return true
	})
	if patLoop != nil {
		src := strings.ReplaceAll(nodeSrc(patLoop.Body), " ", "")
		hasPrefixForm := strings.Contains(src, `ifstrings.HasPrefix(pat,"all:")`) && strings.Contains(src, "all=true") && strings.Contains(src, `pat=strings.TrimPrefix(pat,"all:")`)
		cutForm := strings.Contains(src, `strings.CutPrefix(pat,"all:")`) && (strings.Contains(src, "all=true") || strings.Contains(src, ",all=strings.CutPrefix") || strings.Contains(src, ",all:=strings.CutPrefix")) && (strings.Contains(src, "pat=rest") || strings.Contains(src, "pat,all=strings.CutPrefix") || strings.Contains(src, "pat,all:=strings.CutPrefix") || strings.Contains(src, "pat,_=strings.CutPrefix"))
		if hasPrefixForm || cutForm {
			allSet = true
		} else {
			allWhy = "the all: prefix is not recognised and stripped in a known form: " + src[:min(len(src), 160)]
		}
		// scope: the flag is declared inside the patLoop body, or unconditionally reset by a direct statement of the body
		for _, st := range patLoop.Body.List {
			switch x := st.(type) {
			case *ast.AssignStmt:
				for _, l := range x.Lhs {
					if id, ok := l.(*ast.Ident); ok && id.Name == "all" {
						allScoped = true
					}
				}
			case *ast.DeclStmt:
				if strings.Contains(exprStr2(x), "all") {
					allScoped = true
				}
			}
		}
		if !allScoped {
			scopeWhy = "`all` is declared outside the pattern loop and never reset at the top of an iteration: once one pattern carries all:, every later pattern of the directive also includes hidden and underscore files"
		}
	}
	req(allSet, "all: prefix recognised and stripped", rp.Pos(), "sets all and strips the prefix", allWhy)
	req(allScoped, "all: applies to its own pattern only", rp.Pos(), "flag declared or reset in every iteration of the pattern patLoop", scopeWhy)
	req(hasUse(ru, "internal/goembed.CheckPath", "error") != nil, "every match validated by CheckPath", rp.Pos(), "CheckPath error rejects", "glob matches are accepted without the per-path checks")
	// regular-file test on matches; irregular rejected
	okReg := false
	ast.Inspect(rp.Body, func(n ast.Node) bool {
		if sw, ok := n.(*ast.SwitchStmt); ok && sw.Tag == nil {
			var conds []string
			hasDef := false
			for _, cs := range sw.Body.List {
				cc := cs.(*ast.CaseClause)
				if cc.List == nil {
					hasDef = containsErrorReturn(info, cc)
				}
				for _, e := range cc.List {
					conds = append(conds, strings.ReplaceAll(exprStr(e), " ", ""))
				}
			}
			if len(conds) >= 2 && conds[0] == "info.Mode().IsRegular()" && conds[1] == "info.IsDir()" && hasDef {
				okReg = true
			}
		}
		return true
	})
	req(okReg, "matches: regular file | directory | otherwise rejected", rp.Pos(), "switch on Mode().IsRegular / IsDir / error", "irregular matches (symlinks, devices) are not rejected, or directories are tested before regular files")
	// walk callback
	var walkLit *ast.FuncLit
	for _, call := range callsIn(rp.Body) {
		if f := calleeOf(info, call); f != nil && qualName(f) == "path/filepath.WalkDir" && len(call.Args) == 2 {
			walkLit, _ = call.Args[1].(*ast.FuncLit)
		}
	}
	if walkLit == nil {
		c.Bad("R16.1", "directory walk", rp.Pos(), "directories are not walked with filepath.WalkDir callback")
	} else {
		wu := condUses(p, walkLit.Body)
		// hidden/bad-name filter
		var filt *ast.IfStmt
		ast.Inspect(walkLit.Body, func(n ast.Node) bool {
			if is, ok := n.(*ast.IfStmt); ok && strings.Contains(exprStr(is.Cond), "IsBadName") {
				filt = is
			}
			return true
		})
		okFilter := false
		why := "no IsBadName filter in the walk"
		if filt != nil {
			s := strings.ReplaceAll(exprStr(filt.Cond), " ", "")
			want := "cur!=m&&(IsBadName(name)||((name[0]=='.'||name[0]=='_')&&!all))"
			okFilter = s == want || s == strings.Replace(want, "cur!=m", "m!=cur", 1)
			why = "filter is " + s + ", the go tool uses " + want
			// outcome: SkipDir for directories, nil for files
			body := strings.ReplaceAll(nodeSrc(filt.Body), " ", "")
			if !strings.Contains(body, "ifd.IsDir()") {
				okFilter = false
				why = "filtered directories are not skipped as a whole"
			}
		}
		req(okFilter, "walk: bad names and hidden/underscore entries skipped unless all: (never the root)", walkLit.Pos(), "cur != m && (IsBadName || hidden && !all)", why)
		req(hasUse(wu, "os.Stat", "skipdir") != nil, "walk: nested modules skipped", walkLit.Pos(), "directory with go.mod -> SkipDir", "a sub-directory containing go.mod (a different module) is walked into")
		okIrr := false
		ast.Inspect(walkLit.Body, func(n ast.Node) bool {
			if is, ok := n.(*ast.IfStmt); ok && strings.ReplaceAll(exprStr(is.Cond), " ", "") == "!d.Type().IsRegular()" && branchOutcome(info, is.Body) == "skip" {
				okIrr = true
			}
			return true
		})
		req(okIrr, "walk: irregular files skipped", walkLit.Pos(), "!d.Type().IsRegular() -> skip", "symlinks/devices inside an embedded directory are read")
	}
	// empty results
	okCount, okList := false, false
	ast.Inspect(rp.Body, func(n ast.Node) bool {
		if is, ok := n.(*ast.IfStmt); ok && containsErrorReturn(info, is.Body) {
			s := strings.ReplaceAll(exprStr(is.Cond), " ", "")
			if s == "count==0" {
				okCount = true
			}
			if s == "listCount==0" {
				okList = true
			}
		}
		return true
	})
	req(okCount, "directory without embeddable files rejected", rp.Pos(), "count == 0 -> error", "an embedded directory with no embeddable files is accepted")
	req(okList, "pattern without matches rejected", rp.Pos(), "listCount == 0 -> error", "a pattern matching nothing is accepted")

	// CheckPath
	cu := condUses(p, cpth)
	usesLstat, usesStatOnMatch := false, false
	for _, call := range callsIn(cpth.Body) {
		if f := calleeOf(info, call); f != nil {
			if qualName(f) == "os.Lstat" && exprStr(call.Args[0]) == "abs" {
				usesLstat = true
			}
			if qualName(f) == "os.Stat" && exprStr(call.Args[0]) == "abs" {
				usesStatOnMatch = true
			}
		}
	}
	req(usesLstat && !usesStatOnMatch, "match inspected with Lstat (symlinks are not followed)", cpth.Pos(), "os.Lstat(abs)", "the matched path is inspected with Stat: a symlink to a regular file is embedded, the go tool rejects it")
	req(hasUse(cu, "internal/goembed.RelPath") != nil || strings.Contains(nodeSrc(cpth.Body), "RelPath(pkgDir, abs)"), "match must lie inside the package directory", cpth.Pos(), "RelPath error rejects", "paths outside the package directory are accepted")
	// ancestor loop
	var loop *ast.ForStmt
	ast.Inspect(cpth.Body, func(n ast.Node) bool {
		if f, ok := n.(*ast.ForStmt); ok && loop == nil {
			loop = f
		}
		return true
	})
	if loop == nil {
		c.Bad("R16.1", "ancestor directories checked", cpth.Pos(), "no loop over the parent directories of a match")
	} else {
		lu := condUses(p, loop.Body)
		gm := hasUse(lu, "os.Stat", "error")
		okGoMod := gm != nil
		whyGM := "no go.mod probe with an error outcome in the ancestor loop"
		if gm != nil {
			// must not be nested under a condition on the matched path's own info
			for _, e := range enclosingStmts(loop.Body, gm.stmt) {
				if is, ok := e.(*ast.IfStmt); ok && is != gm.stmt {
					if strings.Contains(exprStr(is.Cond), "info") {
						okGoMod = false
						whyGM = "the go.mod probe only runs when (" + exprStr(is.Cond) + "): files matched below a nested module are embedded although they belong to a different module"
					}
				}
			}
			if !strings.Contains(strings.ReplaceAll(exprStr(gm.stmt.Init.(*ast.AssignStmt).Rhs[0]), " ", ""), `filepath.Join(dir,"go.mod")`) {
				okGoMod = false
				whyGM = "the probe does not look for go.mod in the ancestor being visited"
			}
		}
		req(okGoMod, "ancestors: nested module rejected", loop.Pos(), "go.mod in any directory between the package and the match -> error", whyGM)
		bn := hasUse(lu, "internal/goembed.IsBadName", "error", "other")
		okBad := bn != nil && containsErrorReturn(info, bn.stmt.Body)
		req(okBad, "ancestors: invalid or VCS directory names rejected", loop.Pos(), "IsBadName(elem) -> error", "matches inside .git or invalidly named directories are accepted")
		// cache only after the checks
		okCache := true
		var setPos, lastCheck token.Pos
		ast.Inspect(loop.Body, func(n ast.Node) bool {
			if as, ok := n.(*ast.AssignStmt); ok && strings.ReplaceAll(exprStr(as.Lhs[0]), " ", "") == "dirOK[dir]" {
				if setPos == 0 || as.Pos() < setPos {
					setPos = as.Pos()
				}
			}
			if is, ok := n.(*ast.IfStmt); ok && containsErrorReturn(info, is.Body) {
				if is.End() > lastCheck {
					lastCheck = is.End()
				}
			}
			return true
		})
		if setPos != 0 && setPos < lastCheck {
			okCache = false
		}
		req(okCache, "ancestors: directory marked valid only after its checks", loop.Pos(), "dirOK[dir] = true after the probes", "a directory is cached as valid before it has been checked: a later pattern skips the nested-module / bad-name checks for it")
		// termination at the package directory
		okStop := false
		ast.Inspect(loop.Body, func(n ast.Node) bool {
			if is, ok := n.(*ast.IfStmt); ok && strings.ReplaceAll(exprStr(is.Cond), " ", "") == `r=="."` && branchOutcome(info, is.Body) == "skip" {
				okStop = true
			}
			return true
		})
		req(okStop, "ancestors: walk stops at the package directory", loop.Pos(), "r == \".\" -> break", "the ancestor walk does not stop at the package directory")
	}
	// IsBadName
	if bn := findFunc(p, "IsBadName"); bn != nil {
		uses := condUses(p, bn)
		okMod := hasUse(uses, "golang.org/x/mod/module.CheckFilePath") != nil
		names := map[string]bool{}
		ast.Inspect(bn.Body, func(n ast.Node) bool {
			if cc, ok := n.(*ast.CaseClause); ok {
				for _, e := range cc.List {
					if s, ok := constString(info, e); ok {
						names[s] = true
					}
				}
			}
			return true
		})
		okVCS := names[""] && names[".bzr"] && names[".git"] && names[".hg"] && names[".svn"]
		req(okMod && okVCS, "IsBadName = module.CheckFilePath failure or VCS directory", bn.Pos(), "CheckFilePath + {\"\", .bzr, .git, .hg, .svn}", "the invalid-name predicate differs from the go tool's isBadEmbedName")
	} else {
		c.Bad("R16.1", "IsBadName", 0, "function not found")
	}

	// ---------------- R16.2 order
	okSorted := false
	for _, call := range callsIn(rp.Body) {
		if f := calleeOf(info, call); f != nil && qualName(f) == "sort.Strings" && exprStr(call.Args[0]) == "names" {
			okSorted = true
		}
	}
	c.Check(okSorted, "R16.2", "ResolvePatterns output sorted by name", rp.Pos(), "sort.Strings(names)", "resolved files are returned in map order")
	if bf := findFunc(p, "BuildFSEntries"); bf != nil {
		v, why := classifyMapRangesIn(info, bf)
		c.Check(v, "R16.2", "BuildFSEntries total order", bf.Pos(), "entries sorted (unstable sort with a total comparator)", why)
		// comparator: dir first, then elem, via embedSplit on both operands
		var less *ast.FuncLit
		for _, call := range callsIn(bf.Body) {
			if f := calleeOf(info, call); f != nil && strings.HasPrefix(qualName(f), "sort.Slice") && len(call.Args) == 2 {
				less, _ = call.Args[1].(*ast.FuncLit)
			}
		}
		okLess := false
		if less != nil {
			s := strings.ReplaceAll(nodeSrc(less.Body), " ", "")
			rets := ""
			ast.Inspect(less.Body, func(n ast.Node) bool {
				if r, ok := n.(*ast.ReturnStmt); ok {
					rets += strings.ReplaceAll(exprStr(r.Results[0]), " ", "") + ";"
				}
				return true
			})
			okLess = strings.Contains(s, "di,ei:=embedSplit(out[i].Name)") && strings.Contains(s, "dj,ej:=embedSplit(out[j].Name)") && (strings.Contains(s, "ifdi!=dj") || strings.Contains(s, "ifdj!=di")) && rets == "di<dj;ei<ej;"
		}
		c.Check(okLess, "R16.2", "BuildFSEntries comparator (dir, elem)", bf.Pos(), "compare directory, then element", "the embed.FS table is not ordered by (directory, element): the standard library's binary search misses entries")
	} else {
		c.Bad("R16.2", "BuildFSEntries", 0, "function not found")
	}
	if es := findFunc(p, "embedSplit"); es != nil {
		okSplit := false
		trims := false
		for _, call := range callsIn(es.Body) {
			if f := calleeOf(info, call); f != nil {
				q := qualName(f)
				if (q == "strings.LastIndexByte" || q == "strings.LastIndex") && len(call.Args) == 2 {
					if v, ok := constInt(info, call.Args[1]); ok && v == '/' {
						okSplit = true
					}
					if s, ok := constString(info, call.Args[1]); ok && s == "/" {
						okSplit = true
					}
				}
				if q == "strings.TrimSuffix" && len(call.Args) == 2 {
					if s, ok := constString(info, call.Args[1]); ok && s == "/" {
						trims = true
					}
				}
			}
		}
		c.Check(okSplit && trims, "R16.2", "embedSplit splits at the last slash", es.Pos(), "trailing slash trimmed, split at the LAST '/'", "names are split at another slash than the last: entries deeper than two levels sort into the wrong directory group")
	} else {
		c.Bad("R16.2", "embedSplit", 0, "function not found")
	}

	// ---------------- R16.3 directives
	if ld := findFunc(p, "LoadDirectives"); ld != nil {
		var msgs []string
		ast.Inspect(ld.Body, func(n ast.Node) bool {
			if is, ok := n.(*ast.IfStmt); ok && containsErrorReturn(info, is.Body) {
				ast.Inspect(is.Body, func(x ast.Node) bool {
					if bl, ok := x.(*ast.BasicLit); ok && bl.Kind == token.STRING {
						msgs = append(msgs, strings.ReplaceAll(exprStr(is.Cond), " ", "")+"=>"+bl.Value)
					}
					return true
				})
			}
			return true
		})
		all := strings.Join(msgs, "\n")
		c.Check(strings.Contains(all, "len(gen.Specs)>1") || strings.Contains(all, "misplaced go:embed"), "R16.3", "misplaced directive on a multi-spec declaration rejected", ld.Pos(), "error", "a directive on a parenthesised multi-variable declaration is accepted")
		c.Check(strings.Contains(all, "len(spec.Names)!=1=>"), "R16.3", "directive on several variables rejected", ld.Pos(), "error", "go:embed on 'var a, b' is accepted")
		c.Check(strings.Contains(all, "!hasEmbedImport=>"), "R16.3", "missing embed import rejected", ld.Pos(), "error", "go:embed without importing \"embed\" is accepted")
	} else {
		c.Bad("R16.3", "LoadDirectives", 0, "function not found")
	}
	return "C16 (structural): the acceptance path of internal/goembed is compared, predicate by predicate, with the go tool's resolveEmbed/isBadEmbedName (frozen list): pattern syntax and fs.ValidPath, all: handling, Lstat on matches, regular/directory/irregular split, hidden/underscore/bad-name filter (never on the walk root), nested-module probes for walked directories and for every ancestor of a match independent of the match's kind, VCS and invalid names, caching of validated directories only after their checks, empty-result errors; output ordering by name and the embed.FS (directory, element) order with a last-slash split; directive placement errors. NOT decided: equality with `go list` over all directory trees (the oracle is a program), file contents.", nil
}

func containsErrorReturn(info *types.Info, n ast.Node) bool {
	found := false
	ast.Inspect(n, func(x ast.Node) bool {
		if r, ok := x.(*ast.ReturnStmt); ok && returnsError(info, r) {
			found = true
		}
		return !found
	})
	return found
}

// classifyMapRangesIn: every map range in fd is order-safe (uses the C13 classifier).
func classifyMapRangesIn(info *types.Info, fd *ast.FuncDecl) (bool, string) {
	ok, why := true, ""
	ast.Inspect(fd.Body, func(n ast.Node) bool {
		rs, isR := n.(*ast.RangeStmt)
		if !isR {
			return true
		}
		if t := info.TypeOf(rs.X); t != nil {
			if _, isMap := t.Underlying().(*types.Map); isMap {
				if v, w := classifyMapRange(info, fd, rs); v != "ok" {
					ok, why = false, w
				}
			}
		}
		return true
	})
	return ok, why
}

func init() {
	g := "internal/goembed/goembed.go"
	addMutant(Mutant{Prop: "C16", Name: "gomod-probe-only-dirs", File: g, Old: "\t\tif _, err := os.Stat(filepath.Join(dir, \"go.mod\")); err == nil {\n\t\t\treturn nil, \"\", fmt.Errorf(\"cannot embed %s %s: in different module\", what, rel)\n\t\t}", New: "\t\tif info.IsDir() {\n\t\t\tif _, err := os.Stat(filepath.Join(dir, \"go.mod\")); err == nil {\n\t\t\t\treturn nil, \"\", fmt.Errorf(\"cannot embed %s %s: in different module\", what, rel)\n\t\t\t}\n\t\t}", Expect: "R16.1 ancestors: nested module rejected"})
	addMutant(Mutant{Prop: "C16", Name: "lstat-to-stat", File: g, Old: "info, err = os.Lstat(abs)", New: "info, err = os.Stat(abs)", Expect: "R16.1 match inspected with Lstat"})
	addMutant(Mutant{Prop: "C16", Name: "hidden-filter-applies-to-root", File: g, Old: "if cur != m && (IsBadName(name) || ((name[0] == '.' || name[0] == '_') && !all)) {", New: "if IsBadName(name) || ((name[0] == '.' || name[0] == '_') && !all) {", Expect: "R16.1 walk: bad names"})
	addMutant(Mutant{Prop: "C16", Name: "walk-nested-module-included", File: g, Old: "\t\t\t\t\t\tif _, err := os.Stat(filepath.Join(cur, \"go.mod\")); err == nil {\n\t\t\t\t\t\t\treturn filepath.SkipDir\n\t\t\t\t\t\t}\n", New: "", Expect: "R16.1 walk: nested modules skipped"})
	addMutant(Mutant{Prop: "C16", Name: "vcs-list-shortened", File: g, Old: "case \"\", \".bzr\", \".git\", \".hg\", \".svn\":", New: "case \"\", \".git\", \".hg\", \".svn\":", Expect: "R16.1 IsBadName"})
	addMutant(Mutant{Prop: "C16", Name: "dirok-before-checks", File: g, Old: "\t\tif _, err := os.Stat(filepath.Join(dir, \"go.mod\")); err == nil {\n\t\t\treturn nil, \"\", fmt.Errorf(\"cannot embed %s %s: in different module\", what, rel)\n\t\t}\n\t\telem := filepath.Base(dir)", New: "\t\tdirOK[dir] = true\n\t\tif _, err := os.Stat(filepath.Join(dir, \"go.mod\")); err == nil {\n\t\t\treturn nil, \"\", fmt.Errorf(\"cannot embed %s %s: in different module\", what, rel)\n\t\t}\n\t\telem := filepath.Base(dir)", Expect: "R16.1 ancestors: directory marked valid only after"})
	addMutant(Mutant{Prop: "C16", Name: "split-first-slash", File: g, Old: "\tif idx := strings.LastIndexByte(name, '/'); idx >= 0 {", New: "\tif idx := strings.IndexByte(name, '/'); idx >= 0 {", Expect: "R16.2 embedSplit"})
	addMutant(Mutant{Prop: "C16", Name: "fs-sort-dir-only", File: g, Old: "\t\tif di != dj {\n\t\t\treturn di < dj\n\t\t}\n\t\treturn ei < ej", New: "\t\t_, _ = ei, ej\n\t\treturn di < dj", Expect: "R16.2 BuildFSEntries comparator"})
	addMutant(Mutant{Prop: "C16", Name: "multi-var-accepted", File: g, Old: "\t\t\t\tif len(spec.Names) != 1 {\n\t\t\t\t\tpos := positionFor(fset, spec.Pos())\n\t\t\t\t\treturn nil, fmt.Errorf(\"%s: go:embed cannot apply to multiple vars\", pos)\n\t\t\t\t}\n", New: "", Expect: "R16.3 directive on several variables"})
}

func exprStr2(n ast.Node) string {
	var sb strings.Builder
	ast.Inspect(n, func(x ast.Node) bool {
		if id, ok := x.(*ast.Ident); ok {
			sb.WriteString(id.Name + " ")
		}
		return true
	})
	return sb.String()
}
