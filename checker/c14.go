package main

import (
	"fmt"
	"go/ast"
	"go/token"
	"go/types"
	"regexp"
	"sort"
	"strings"

	"golang.org/x/tools/go/packages"
)

func init() { register("C14", checkC14) }

func checkC14(c *Ctx) (string, error) {
	w, err := loadMain(defaultCfg, "ssa", "ssa/abi", "cl", "internal/build")
	if err != nil {
		return "", err
	}
	c.use(w)
	sp, cp := w.Main("ssa"), w.Main("cl")

	c.Rule("R14.1", "function/method link names include package path, receiver named type (with type arguments) and pointer-ness, method name, type arguments of generic functions and the enclosing receiver of nested closures; aliases of the receiver are resolved after the pointer is peeled", 10)
	c.Rule("R14.2", "symbols that several packages may define (generic instances, closure stubs, type descriptors and their tables) get a mergeable linkage before they are returned; per-package synthetic names contain the package path and a counter", 8)
	c.Rule("R14.3", "every llgo.<intrinsic> named in a link directive exists in the compiler's intrinsic table, and every intrinsic code of the table is dispatched", 60)
	c.Rule("R14.4", "every runtime function or type name the compiler asks for by string resolves to a declaration of the right sort in the runtime package (all analysed configurations)", 70)

	checkFuncNameFlows(c, sp, cp)
	checkTypeArgQualifier(c, w.Main("ssa/abi"))
	checkMergeableLinkage(c, sp)
	checkOwnershipSeparator(c, sp)
	checkLinknameAfterLoad(c, cp)
	checkLocalTypePosKept(c, cp)
	checkDescriptorBuildOrder(c, sp)
	rcfgs := []LoadCfg{defaultCfg}
	if c.Tier == "thorough" {
		rcfgs = append(rcfgs, LoadCfg{GOOS: "darwin", GOARCH: "arm64"}, LoadCfg{GOOS: "linux", GOARCH: "arm64"}, LoadCfg{GOOS: "linux", GOARCH: "amd64", Tags: []string{"nogc"}})
	}
	for i, lc := range rcfgs {
		rw, err := loadRT(lc, "internal/runtime", "internal/lib/sync/atomic", "internal/lib/runtime", "internal/clite")
		if err != nil {
			return "", err
		}
		c.use(rw)
		c.Config = lc.String()
		if i == 0 {
			checkIntrinsicDirectives(c, cp, rw)
		}
		checkRuntimeNames(c, w, rw.RT("internal/runtime"))
		c.Config = ""
	}
	c.use(w)
	return "C14 (structural): attribute flow of the naming functions (ssa.FuncName, recvNamed, cl.funcName, varName): package path, receiver type incl. type arguments and pointer-ness, type arguments of generic functions, receiver of the enclosing method for nested closures, alias resolution order; mergeable linkage set on every path for symbols emitted by several packages; llgo:link / go:linkname directives naming llgo.<intrinsic> against the intrinsic table and its dispatch; every string handed to rtFunc/rtType/rtNamed (literals, selected constants, the return sets of EqualName/RuntimeName) against the runtime package's declarations. NOT decided: global injectivity of the naming scheme, equivalence of merged bodies.", nil
}

func checkFuncNameFlows(c *Ctx, sp, cp *packages.Package) {
	fd := findFunc(sp, "FuncName")
	if fd == nil {
		c.Bad("R14.1", "ssa.FuncName", 0, "function not found")
		return
	}
	c.nfuncs++
	src := strings.ReplaceAll(nodeSrc(fd.Body), " ", "")
	rets := ""
	ast.Inspect(fd.Body, func(n ast.Node) bool {
		if r, ok := n.(*ast.ReturnStmt); ok {
			for _, e := range r.Results {
				rets += strings.ReplaceAll(exprStr(e), " ", "") + ";"
			}
		}
		return true
	})
	c.Check(strings.Contains(rets, `PathOf(pkg)+"."+tName+"."+name`), "R14.1", "ssa.FuncName method = path.Recv.name", fd.Pos(), "PathOf(pkg) + \".\" + receiver + \".\" + name", "a method's link name is not package path + receiver + method name: "+rets)
	c.Check(strings.Contains(src, "named,ptr:=recvNamed(recv.Type())") && strings.Contains(src, `tName="(*"+tName+")"`) && strings.Contains(src, "ifptr"), "R14.1", "ssa.FuncName pointer receivers distinguished", fd.Pos(), "(*T) for pointer receivers", "value- and pointer-receiver methods of one type get the same link name")
	c.Check(strings.Contains(src, "tName=abi.NamedName(named)"), "R14.1", "ssa.FuncName receiver includes type arguments", fd.Pos(), "abi.NamedName(named)", "methods of different instantiations of a generic type share a link name")
	// wrappers ($bound, $thunk) are emitted in the package that uses them: the receiver's own package must be part of the name
	recvPkgFlows := nodeHas(fd.Body, func(n ast.Node) bool {
		call, ok := n.(*ast.CallExpr)
		if !ok {
			return false
		}
		f := calleeOf(sp.TypesInfo, call)
		if f == nil || f.Name() != "Pkg" {
			return false
		}
		return strings.Contains(strings.ReplaceAll(exprStr(call), " ", ""), "named.Obj().Pkg()")
	})
	c.Check(recvPkgFlows, "R14.1", "ssa.FuncName receiver of another package is qualified by its package", fd.Pos(), "named.Obj().Pkg() enters the name when it differs from pkg",
		"the receiver type contributes only its bare name: the bound-method and thunk wrappers that package A emits for lib.T.M and for its own A.T.M get one symbol (A.T.M$bound), and the second definition is dropped")
	c.Check(strings.Contains(rets, "ret;") && strings.Contains(src, "ret:=FullName(pkg,name)"), "R14.1", "ssa.FuncName function = path.name", fd.Pos(), "FullName(pkg, name)", "a plain function's link name is not package path + name")
	// recvNamed: pointer peel, then unalias the element, then the Named assertion
	if rn := findFunc(sp, "recvNamed"); rn != nil {
		var peel, unal, named token.Pos
		ast.Inspect(rn.Body, func(n ast.Node) bool {
			switch x := n.(type) {
			case *ast.TypeAssertExpr:
				t := exprStr(x.Type)
				if t == "*types.Pointer" && peel == 0 {
					peel = x.Pos()
				}
				if t == "*types.Named" {
					named = x.Pos()
				}
			case *ast.CallExpr:
				if f := calleeOf(sp.TypesInfo, x); f != nil && qualName(f) == "go/types.Unalias" {
					unal = x.Pos()
				}
			}
			return true
		})
		c.Check(peel != 0 && unal > peel && named > unal, "R14.1", "ssa.recvNamed resolves aliases after peeling the pointer", rn.Pos(), "t.(*Pointer) -> Unalias(elem) -> .(*Named)", "for 'type A = T; func (p *A) M()' the receiver is not resolved to T: the definition is named after the alias while the type's method table names (*T).M")
	} else {
		c.Bad("R14.1", "ssa.recvNamed", 0, "function not found")
	}
	// cl.funcName: nested closures take the receiver of the enclosing method; generic functions add type arguments
	if fn := findFunc(cp, "funcName"); fn != nil {
		c.nfuncs++
		okWalk := false
		ast.Inspect(fn.Body, func(n ast.Node) bool {
			if fs, ok := n.(*ast.ForStmt); ok && fs.Post != nil && strings.ReplaceAll(nodeText2(fs.Post), " ", "") == "f=f.Parent()" {
				s := strings.ReplaceAll(nodeSrc(fs.Body), " ", "")
				if strings.Contains(s, "recv=f.Signature.Recv()") && strings.Contains(s, "ifrecv!=nil") {
					okWalk = true
				}
			}
			return true
		})
		c.Check(okWalk, "R14.1", "cl.funcName closures inherit the receiver of the enclosing method", fn.Pos(), "walk Parent() until a receiver is found", "closures nested more than one level in methods of different types get the same link name (pkg.m$1$1)")
		s := strings.ReplaceAll(nodeSrc(fn.Body), " ", "")
		c.Check(strings.Contains(s, "fnName+=llssa.TypeArgs(fn.TypeArgs())") && strings.Contains(s, "iffn.Signature.Recv()==nil"), "R14.1", "cl.funcName generic instances carry their type arguments", fn.Pos(), "name + TypeArgs for non-method instances", "instances of one generic function with different type arguments share a link name")
		c.Check(strings.Contains(strings.ReplaceAll(nodeSrcCalls(fn.Body), " ", ""), "llssa.FuncName(pkg,fnName,recv,org)"), "R14.1", "cl.funcName delegates to ssa.FuncName", fn.Pos(), "single naming function", "cl builds function names differently from ssa (method tables would reference other symbols)")
	} else {
		c.Bad("R14.1", "cl.funcName", 0, "function not found")
	}
	// varName uses FullName(pkg, name)
	if vn := findFunc(cp, "context.varName"); vn != nil {
		ok := false
		for _, call := range callsIn(vn.Body) {
			if f := calleeOf(cp.TypesInfo, call); f != nil && f.Name() == "FullName" && len(call.Args) == 2 && exprStr(call.Args[0]) == "pkg" && strings.ReplaceAll(exprStr(call.Args[1]), " ", "") == "v.Name()" {
				ok = true
			}
		}
		c.Check(ok, "R14.1", "cl.varName = path.name", vn.Pos(), "FullName(pkg, v.Name())", "global variables are not named package path + name")
	}
	// type arguments in instance names are qualified by package PATH (abi.typeArgString and its fallback)
	if ap := findPkgOf(sp, mainMod+"/ssa/abi"); ap != nil {
		_ = ap
	}
	// abiMethodFunc (method table side) uses the same naming function
	if mf := findFunc(sp, "Builder.abiMethodFunc"); mf != nil {
		ok := strings.Contains(nodeSrcCalls(mf.Body), "FuncName(mPkg,mName,mSig.Recv(),false)")
		c.Check(ok, "R14.1", "ssa method tables name methods with FuncName", mf.Pos(), "FuncName(pkg, name, recv, false)", "type descriptors refer to methods by a name built differently from the definition's")
	}
}

func findPkgOf(p *packages.Package, path string) *packages.Package { return p.Imports[path] }

// checkTypeArgQualifier: instance suffixes are built by abi.TypeArgs -> typeArgString; named arguments go through
// namedLikeTypeArgString (PathOf + name + scope index), everything else through types.TypeString(t, PathOf).
func checkTypeArgQualifier(c *Ctx, ap *packages.Package) {
	fd := findFunc(ap, "typeArgString")
	if fd == nil {
		c.Bad("R14.1", "abi.typeArgString", 0, "function not found")
		return
	}
	ok := false
	for _, call := range callsIn(fd.Body) {
		if f := calleeOf(ap.TypesInfo, call); f != nil && qualName(f) == "go/types.TypeString" && len(call.Args) == 2 {
			ok = objName(usedObj(ap.TypesInfo, call.Args[1])) == "ssa/abi.PathOf"
		}
	}
	c.Check(ok, "R14.1", "abi.typeArgString qualifies by package path", fd.Pos(), "types.TypeString(t, PathOf)", "type arguments that are unnamed composites are rendered with a qualifier other than the import path: instances over a/model.T and b/model.T get one link name")
	if nl := findFunc(ap, "namedLikeTypeArgString"); nl != nil {
		s := strings.ReplaceAll(nodeSrc(nl.Body), " ", "")
		r := ""
		ast.Inspect(nl.Body, func(n ast.Node) bool {
			if rs, ok := n.(*ast.ReturnStmt); ok {
				r += strings.ReplaceAll(exprStr(rs.Results[0]), " ", "") + ";"
			}
			return true
		})
		c.Check(strings.Contains(r, `PathOf(pkg)+"."+name`) && strings.Contains(s, "name+=scopeIndices(obj)"), "R14.1", "abi.namedLikeTypeArgString = path.name[args]scope", nl.Pos(), "PathOf(pkg) + name + type args + scope index", "named type arguments are not rendered with package path and local-scope disambiguator: "+r)
	}
}

func checkMergeableLinkage(c *Ctx, sp *packages.Package) {
	info := sp.TypesInfo
	// functions that create definitions possibly emitted by several packages
	for _, fn := range []string{"Builder.abiType", "Builder.abiStructFields", "Builder.abiInterfaceImethods", "Builder.abiTuples"} {
		fd := findFunc(sp, fn)
		if fd == nil {
			c.Bad("R14.2", "ssa."+fn, 0, "function not found")
			continue
		}
		c.nfuncs++
		g := buildCFG(sp, fd)
		// every SetInitializer/Init of a new global is followed (same block run) by SetLinkage(WeakODR/LinkOnceODR)
		n := 0
		for _, b := range g.G.Blocks {
			if !b.Live {
				continue
			}
			for i, node := range b.Nodes {
				isInit := nodeHas(node, func(x ast.Node) bool {
					call, ok := x.(*ast.CallExpr)
					if !ok {
						return false
					}
					sel, ok := call.Fun.(*ast.SelectorExpr)
					return ok && (sel.Sel.Name == "SetInitializer" || sel.Sel.Name == "Init") && strings.HasPrefix(exprStr(sel.X), "g")
				})
				if !isInit {
					continue
				}
				n++
				_, miss := g.reach(cfgPos{b, i + 1}, func(x ast.Node) bool {
					return nodeHas(x, func(y ast.Node) bool {
						call, ok := y.(*ast.CallExpr)
						if !ok {
							return false
						}
						sel, ok := call.Fun.(*ast.SelectorExpr)
						if !ok || sel.Sel.Name != "SetLinkage" || len(call.Args) != 1 {
							return false
						}
						l := llname(objName(usedObj(info, call.Args[0])))
						return l == "llvm.WeakODRLinkage" || l == "llvm.LinkOnceODRLinkage" || l == "llvm.LinkOnceAnyLinkage" || l == "llvm.WeakAnyLinkage"
					})
				}, nil, true, nil)
				c.Check(!miss, "R14.2", fmt.Sprintf("ssa.%s definition #%d mergeable", fn, n), node.Pos(), "weak_odr/linkonce linkage set before returning", "a symbol that every using package defines is emitted with external linkage: duplicate symbol at link time, or with the two-package case silently depending on link order")
			}
		}
		if n == 0 {
			c.Undecided("R14.2", "ssa."+fn+" definitions", fd.Pos(), "no global initialisation found")
		}
	}
	// NewFuncEx: instantiated functions get linkonce
	if fd := findFunc(sp, "Package.NewFuncEx"); fd != nil {
		ok := false
		ast.Inspect(fd.Body, func(n ast.Node) bool {
			if is, isIf := n.(*ast.IfStmt); isIf && strings.Contains(exprStr(is.Cond), "instantiated") {
				for _, call := range callsIn(is.Body) {
					if sel, isSel := call.Fun.(*ast.SelectorExpr); isSel && sel.Sel.Name == "SetLinkage" && len(call.Args) == 1 {
						l := llname(objName(usedObj(info, call.Args[0])))
						if l == "llvm.LinkOnceAnyLinkage" || l == "llvm.LinkOnceODRLinkage" || l == "llvm.WeakODRLinkage" {
							ok = true
						}
					}
				}
			}
			return true
		})
		c.Check(ok, "R14.2", "ssa.NewFuncEx generic instances mergeable", fd.Pos(), "instantiated -> linkonce", "generic instances, compiled by every package that uses them, are emitted with external linkage")
	}
	// closure wrappers
	for _, fn := range []string{"Package.closureWrapDecl", "Package.closureWrapPtr"} {
		fd := findFunc(sp, fn)
		if fd == nil {
			c.Bad("R14.2", "ssa."+fn, 0, "function not found")
			continue
		}
		ok := false
		for _, call := range callsIn(fd.Body) {
			if sel, isSel := call.Fun.(*ast.SelectorExpr); isSel && sel.Sel.Name == "SetLinkage" && len(call.Args) == 1 {
				l := llname(objName(usedObj(info, call.Args[0])))
				if strings.Contains(l, "LinkOnce") || strings.Contains(l, "Weak") {
					ok = true
				}
			}
		}
		c.Check(ok, "R14.2", "ssa."+fn+" stub mergeable", fd.Pos(), "linkonce/weak", "closure stubs named after their target are defined by every package that takes the function's value, but emitted with external linkage")
	}
	// routineName: path + counter
	if fd := findFunc(sp, "Package.routineName"); fd != nil {
		s := strings.ReplaceAll(nodeSrc(fd.Body), " ", "")
		r := ""
		ast.Inspect(fd.Body, func(n ast.Node) bool {
			if rs, ok := n.(*ast.ReturnStmt); ok {
				r = strings.ReplaceAll(exprStr(rs.Results[0]), " ", "")
			}
			return true
		})
		okInc := false
		ast.Inspect(fd.Body, func(n ast.Node) bool {
			if inc, ok := n.(*ast.IncDecStmt); ok && strings.Contains(exprStr(inc.X), "iRoutine") {
				okInc = true
			}
			return true
		})
		c.Check(strings.HasPrefix(r, "p.Path()+") && strings.Contains(r, "strconv.Itoa(p.iRoutine)") && okInc, "R14.2", "ssa.routineName = path + counter", fd.Pos(), r, "goroutine thunks are not named per package and per site: "+r+s)
	}
}

var reLinkname = regexp.MustCompile(`^//go:linkname\s+(\S+)\s+llgo\.(\w+)`)
var reLlgoLink = regexp.MustCompile(`^//\s*llgo:link\s+(\S+)\s+llgo\.(\w+)`)

func checkIntrinsicDirectives(c *Ctx, cp *packages.Package, rw *World) {
	info := cp.TypesInfo
	instrs := pkgVarLit(cp, "llgoInstrs")
	if instrs == nil {
		c.Bad("R14.3", "cl.llgoInstrs", 0, "table not found")
		return
	}
	table := map[string]int64{}
	for _, el := range instrs.Elts {
		if kv, ok := el.(*ast.KeyValueExpr); ok {
			k, ok1 := constString(info, kv.Key)
			v, ok2 := constInt(info, kv.Value)
			if ok1 && ok2 {
				table[k] = v
			}
		}
	}
	// every directive in the loaded runtime packages
	n := 0
	var pkgs []*packages.Package
	for _, p := range rw.Roots {
		pkgs = append(pkgs, p)
	}
	sort.Slice(pkgs, func(i, j int) bool { return pkgs[i].PkgPath < pkgs[j].PkgPath })
	for _, p := range pkgs {
		short := strings.TrimPrefix(p.PkgPath, rtMod+"/")
		for _, f := range p.Syntax {
			for _, cg := range f.Comments {
				for _, cm := range cg.List {
					m := reLinkname.FindStringSubmatch(cm.Text)
					if m == nil {
						m = reLlgoLink.FindStringSubmatch(cm.Text)
					}
					if m == nil {
						continue
					}
					n++
					key := fmt.Sprintf("%s %s -> llgo.%s", short, m[1], m[2])
					_, ok := table[m[2]]
					if !ok && m[1] == "AllocaNew" {
						c.Exists("R14.3", key, cm.Pos(), "listed: unreferenced generic helper (llgo.allocaNew is not implemented; the helper has no callers)")
						continue
					}
					c.Check(ok, "R14.3", key, cm.Pos(), "known intrinsic", "the directive names llgo."+m[2]+", which is not in the compiler's intrinsic table: calls compile to an undefined external symbol")
				}
			}
		}
	}
	if n < 40 {
		c.Undecided("R14.3", "link directives", 0, fmt.Sprintf("%d llgo.<intrinsic> directives found, expected >= 40", n))
	}
	// every code of the table is dispatched in callEx (case constants) or lies in the atomic op range
	callEx := findFunc(cp, "context.call")
	var dispatched = map[int64]bool{}
	for _, fd := range allFuncs(cp) {
		ast.Inspect(fd.Body, func(x ast.Node) bool {
			if cc, ok := x.(*ast.CaseClause); ok {
				for _, e := range cc.List {
					if v, isC := constInt(info, e); isC {
						if id, isId := ast.Unparen(e).(*ast.Ident); isId && strings.HasPrefix(id.Name, "llgo") {
							dispatched[v] = true
						}
					}
				}
			}
			return true
		})
	}
	_ = callEx
	base, _ := pkgConst(cp.Types, "llgoAtomicOpBase")
	last, _ := pkgConst(cp.Types, "llgoAtomicOpLast")
	var names []string
	for k := range table {
		names = append(names, k)
	}
	sort.Strings(names)
	for _, k := range names {
		v := table[k]
		ok := dispatched[v] || (v >= base && v <= last)
		c.Check(ok, "R14.3", "intrinsic llgo."+k+" dispatched", instrs.Pos(), "has a case in the call lowering", "intrinsic code is in the table but no case handles it: calls fall through to a panic or an ordinary call of a symbol that does not exist")
	}
}

// checkRuntimeNames: R14.4
func checkRuntimeNames(c *Ctx, w *World, rp *packages.Package) {
	scope := rp.Types.Scope()
	resolve := func(name, sort_ string) (bool, string) {
		o := scope.Lookup(name)
		if o == nil {
			return false, "runtime package declares no " + name
		}
		switch sort_ {
		case "func":
			if _, ok := o.(*types.Func); !ok {
				return false, name + " is a " + fmt.Sprintf("%T", o) + ", not a function"
			}
		case "type":
			if _, ok := o.(*types.TypeName); !ok {
				return false, name + " is not a type"
			}
		}
		return true, ""
	}
	seen := map[string]bool{}
	for _, rel := range []string{"ssa", "cl", "internal/build"} {
		p := w.Main(rel)
		if p == nil {
			continue
		}
		info := p.TypesInfo
		for _, fd := range allFuncs(p) {
			v := newFnView(p, fd)
			ast.Inspect(fd.Body, func(n ast.Node) bool {
				call, ok := n.(*ast.CallExpr)
				if !ok || len(call.Args) != 1 {
					return true
				}
				f := calleeOf(info, call)
				if f == nil || f.Pkg() == nil || f.Pkg().Path() != mainMod+"/ssa" {
					return true
				}
				sort_ := ""
				switch f.Name() {
				case "rtFunc", "rtClosure":
					sort_ = "func"
				case "rtType", "rtNamed":
					sort_ = "type"
				default:
					return true
				}
				// the possible string values of the argument
				vals, und := stringValues(v, call.Args[0], w)
				if und != "" {
					// forwarding wrappers (rtClosure(name) -> rtFunc(name)) are resolved at their callers
					if declName(fd) == "Builder.rtClosure" || declName(fd) == "Program.rtType" {
						return true
					}
					c.Undecided("R14.4", fmt.Sprintf("%s.%s %s(%s)", rel, declName(fd), f.Name(), exprStr(call.Args[0])), call.Pos(), "cannot enumerate the names this expression can take: "+und)
					return true
				}
				for _, s := range vals {
					key := "runtime " + sort_ + " " + s
					if seen[key+c.Config] {
						continue
					}
					seen[key+c.Config] = true
					ok, why := resolve(s, sort_)
					c.Check(ok, "R14.4", key, call.Pos(), "resolves", "the compiler asks the runtime for "+sort_+" "+s+" ("+rel+"."+declName(fd)+"): "+why)
				}
				return true
			})
		}
	}
}

// stringValues enumerates the constant strings an expression can evaluate to: a constant, a local variable
// assigned only constants, a switch-selected variable, or the result of abi.Builder.EqualName/RuntimeName.
func stringValues(v *fnView, e ast.Expr, w *World) ([]string, string) {
	if s, ok := constString(v.info, e); ok {
		return []string{s}, ""
	}
	e = ast.Unparen(e)
	if id, ok := e.(*ast.Ident); ok {
		o := v.info.Uses[id]
		if o == nil {
			return nil, "unresolved identifier"
		}
		var out []string
		defs := v.defs[o]
		if len(defs) == 0 {
			// switch tag binding: switch name := ab.EqualName(t); name { ... default: rtClosure(name) }
			if sv := switchInitFor(v, o); sv != nil {
				return stringValues(v, sv, w)
			}
			return nil, "variable " + id.Name + " has no local definition"
		}
		for _, d := range defs {
			if d == nil {
				return nil, "variable " + id.Name + " is updated non-trivially"
			}
			vs, und := stringValues(v, d, w)
			if und != "" {
				return nil, und
			}
			out = append(out, vs...)
		}
		return out, ""
	}
	if call, ok := e.(*ast.CallExpr); ok {
		if f := calleeOf(v.info, call); f != nil && f.Pkg() != nil && f.Pkg().Path() == mainMod+"/ssa/abi" && (f.Name() == "EqualName" || f.Name() == "RuntimeName") {
			ap := w.Main("ssa/abi")
			if ap == nil {
				return nil, "ssa/abi not loaded"
			}
			fd := findFunc(ap, "Builder."+f.Name())
			if fd == nil {
				return nil, "abi." + f.Name() + " not found"
			}
			set := map[string]bool{}
			bad := ""
			ast.Inspect(fd.Body, func(n ast.Node) bool {
				if r, ok := n.(*ast.ReturnStmt); ok && len(r.Results) == 1 {
					if s, ok := constString(ap.TypesInfo, r.Results[0]); ok {
						if s != "" {
							set[s] = true
						}
					} else if rc, ok := r.Results[0].(*ast.CallExpr); !ok || calleeOf(ap.TypesInfo, rc) == nil || calleeOf(ap.TypesInfo, rc).Name() != f.Name() {
						bad = "non-constant return " + exprStr(r.Results[0])
					}
				}
				return true
			})
			if bad != "" {
				return nil, bad
			}
			var out []string
			for s := range set {
				out = append(out, s)
			}
			sort.Strings(out)
			return out, ""
		}
	}
	return nil, "not a constant, a constant-valued local or an abi name function: " + exprStr(e)
}

// switchInitFor: o is defined by "switch o := <expr>; o {"
func switchInitFor(v *fnView, o types.Object) ast.Expr {
	var found ast.Expr
	ast.Inspect(v.fd.Body, func(n ast.Node) bool {
		sw, ok := n.(*ast.SwitchStmt)
		if !ok || sw.Init == nil {
			return true
		}
		if as, ok := sw.Init.(*ast.AssignStmt); ok && len(as.Lhs) == 1 && len(as.Rhs) == 1 {
			if id, ok := as.Lhs[0].(*ast.Ident); ok && v.info.Defs[id] == o {
				found = as.Rhs[0]
			}
		}
		return true
	})
	return found
}

func init() {
	addMutant(Mutant{Prop: "C14", Name: "ptr-recv-not-distinguished", File: "ssa/type.go", Old: "\t\t\tif ptr {\n\t\t\t\ttName = \"(*\" + tName + \")\"\n\t\t\t}\n", New: "\t\t\t_ = ptr\n", Expect: "R14.1 ssa.FuncName pointer receivers"})
	addMutant(Mutant{Prop: "C14", Name: "recvnamed-unalias-hoisted", File: "ssa/type.go", Old: "\tif tp, ok := t.(*types.Pointer); ok {\n\t\tt = tp.Elem()\n\t\tptr = true\n\t}\n\tif _, ok := t.(*types.Alias); ok {\n\t\tt = types.Unalias(t)\n\t}\n", New: "\tt = types.Unalias(t)\n\tif tp, ok := t.(*types.Pointer); ok {\n\t\tt = tp.Elem()\n\t\tptr = true\n\t}\n", Expect: "R14.1 ssa.recvNamed"})
	addMutant(Mutant{Prop: "C14", Name: "closure-receiver-one-level", File: "cl/import.go", Old: "\tfor f := fn; f != nil; f = f.Parent() {\n\t\trecv = f.Signature.Recv()\n\t\tif recv != nil {\n\t\t\tbreak\n\t\t}\n\t}", New: "\trecv = fn.Signature.Recv()\n\tif recv == nil && fn.Parent() != nil {\n\t\trecv = fn.Parent().Signature.Recv()\n\t}", Expect: "R14.1 cl.funcName closures inherit"})
	addMutant(Mutant{Prop: "C14", Name: "generic-typeargs-dropped", File: "cl/import.go", Old: "\t\tif fn.Signature.Recv() == nil {\n\t\t\tfnName += llssa.TypeArgs(fn.TypeArgs())\n\t\t}\n", New: "", Expect: "R14.1 cl.funcName generic instances"})
	addMutant(Mutant{Prop: "C14", Name: "structfields-external-linkage", File: "ssa/abitype.go", Old: "\t\tg.Init(data)\n\t\tg.impl.SetGlobalConstant(true)\n\t\tg.impl.SetLinkage(llvm.WeakODRLinkage)\n\t}\n\tsize := uint64(n)\n\treturn llvm.ConstNamedStruct(prog.rtType(\"Slice\").ll, []llvm.Value{\n\t\tg.impl,\n\t\tprog.IntVal(size, prog.Int()).impl,\n\t\tprog.IntVal(size, prog.Int()).impl,\n\t})\n}\n\n/*\ntype InterfaceType struct {", New: "\t\tg.Init(data)\n\t\tg.impl.SetGlobalConstant(true)\n\t}\n\tsize := uint64(n)\n\treturn llvm.ConstNamedStruct(prog.rtType(\"Slice\").ll, []llvm.Value{\n\t\tg.impl,\n\t\tprog.IntVal(size, prog.Int()).impl,\n\t\tprog.IntVal(size, prog.Int()).impl,\n\t})\n}\n\n/*\ntype InterfaceType struct {", Expect: "R14.2 ssa.Builder.abiStructFields"})
	addMutant(Mutant{Prop: "C14", Name: "directive-unknown-intrinsic", File: "runtime/internal/lib/sync/atomic/atomic.go", Old: "//go:linkname LoadInt64 llgo.atomicLoad", New: "//go:linkname LoadInt64 llgo.atomicLoadAcq", Expect: "R14.3 internal/lib/sync/atomic LoadInt64"})
	addMutant(Mutant{Prop: "C14", Name: "runtime-func-renamed", File: "runtime/internal/runtime/z_string.go", Old: "func StringLess(x, y String) bool {", New: "func StringLessThan(x, y String) bool {", Expect: "R14.4 runtime func StringLess"})
	addMutant(Mutant{Prop: "C14", Name: "equalname-unknown", File: "ssa/abi/type.go", Old: "\t\tcase types.Bool:\n\t\t\treturn \"memequal8\"", New: "\t\tcase types.Bool:\n\t\t\treturn \"memequal1\"", Expect: "R14.4 runtime func memequal1"})
}
