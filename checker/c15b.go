package main

import (
	"fmt"
	"go/ast"
	"go/token"
	"sort"
	"strings"

	"golang.org/x/tools/go/packages"
)

// checkPublicElemLinks (R15.5): inside the compiler a func type is a two-word closure struct; reflection must
// see the func type.  Every descriptor link to a component type (element, key, field, tuple member) therefore
// passes through abi.PublicType; a site that links the raw component makes chan/slice/... of func report an
// element of kind Struct.
func checkPublicElemLinks(c *Ctx, sp *packages.Package) {
	c.Rule("R15.5", "every descriptor link to a component type (elem, key, field, tuple member) is the public type: the compiler-internal closure struct never leaks into what reflection sees", 8)
	info := sp.TypesInfo
	n := 0
	for _, fn := range []string{"Builder.abiExtendedFields", "Builder.abiStructFields", "Builder.abiTuples", "Builder.abiTuple"} {
		fd := findFunc(sp, fn)
		if fd == nil {
			continue
		}
		c.nfuncs++
		v := newFnView(sp, fd)
		for _, call := range callsIn(fd.Body) {
			f := calleeOf(info, call)
			if f == nil || f.Name() != "abiType" || len(call.Args) != 1 {
				continue
			}
			// only links stored in the descriptor: the call is the X of a `.impl` selector
			isLink := false
			for _, anc := range enclosingStmts(fd.Body, call) {
				if se, ok := anc.(*ast.SelectorExpr); ok && se.Sel.Name == "impl" && ast.Unparen(se.X) == ast.Expr(call) {
					isLink = true
				}
			}
			if !isLink {
				continue
			}
			arg := v.res(call.Args[0])
			s := strings.ReplaceAll(exprStr(arg), " ", "")
			component := strings.Contains(s, ".Elem()") || strings.Contains(s, ".Key()") || strings.Contains(s, ".Type()")
			if !component {
				continue
			}
			n++
			ok := strings.Contains(s, "PublicType(") || strings.HasPrefix(s, "funcType(")
			key := fmt.Sprintf("ssa.%s link #%d to %s", fn, n, s)
			if len(key) > 110 {
				key = key[:110]
			}
			c.Check(ok, "R15.5", key, call.Pos(), "abi.PublicType(component)", "the component type is linked without abi.PublicType: for a func-typed component the descriptor points at the internal closure struct, so reflect reports Kind Struct with two fields (e.g. TypeOf(chan func()).Elem())")
		}
	}
	if n == 0 {
		c.Undecided("R15.5", "ssa descriptor component links", 0, "no component link found")
	}
}

// checkDeepEqualSlice (R15.6): two slices of different length are never deeply equal; the same-array shortcut
// may only be taken after the lengths were compared.
func checkDeepEqualSlice(c *Ctx, rfl *packages.Package) {
	c.Rule("R15.6", "reflect.DeepEqual on slices compares lengths before taking the same-backing-array shortcut", 1)
	fd := findFunc(rfl, "deepValueEqual")
	if fd == nil {
		c.Undecided("R15.6", "reflect.deepValueEqual", 0, "function not found")
		return
	}
	c.nfuncs++
	var arm *ast.CaseClause
	ast.Inspect(fd.Body, func(n ast.Node) bool {
		if cc, ok := n.(*ast.CaseClause); ok && len(cc.List) == 1 && exprStr(cc.List[0]) == "Slice" && arm == nil {
			arm = cc
		}
		return true
	})
	if arm == nil {
		c.Undecided("R15.6", "reflect.deepValueEqual Slice arm", fd.Pos(), "arm not found")
		return
	}
	lenIdx, ptrIdx := -1, -1
	for i, st := range arm.Body {
		is, ok := st.(*ast.IfStmt)
		if !ok {
			continue
		}
		s := strings.ReplaceAll(exprStr(is.Cond), " ", "")
		if strings.Contains(s, ".Len()!=") && lenIdx < 0 {
			lenIdx = i
		}
		if (strings.Contains(s, "UnsafePointer()==") || strings.Contains(s, ".Pointer()==")) && ptrIdx < 0 {
			ptrIdx = i
		}
	}
	c.Check(lenIdx >= 0 && (ptrIdx < 0 || lenIdx < ptrIdx), "R15.6", "reflect.deepValueEqual Slice arm compares lengths first", arm.Pos(), "length test precedes the pointer shortcut",
		"the same-pointer shortcut returns true before the lengths are compared: s[:3] and its in-place append s[:4] are reported deeply equal")
}

func init() {
	addMutant(Mutant{Prop: "C15", Name: "chan-elem-raw-link", File: "ssa/abitype.go",
		Old: "\t\tdir, _ := abi.ChanDir(t.Dir())\n\t\tfields = []llvm.Value{\n\t\t\tb.abiType(abi.PublicType(t.Elem())).impl,", New: "\t\tdir, _ := abi.ChanDir(t.Dir())\n\t\tfields = []llvm.Value{\n\t\t\tb.abiType(t.Elem()).impl,", Expect: "R15.5"})
	addMutant(Mutant{Prop: "C15", Name: "deepequal-pointer-before-len", File: "runtime/internal/lib/reflect/deepequal.go",
		Old: "\t\tif v1.Len() != v2.Len() {\n\t\t\treturn false\n\t\t}\n\t\tif v1.UnsafePointer() == v2.UnsafePointer() {\n\t\t\treturn true\n\t\t}\n\t\t// Special case for []byte",
		New: "\t\tif v1.UnsafePointer() == v2.UnsafePointer() {\n\t\t\treturn true\n\t\t}\n\t\tif v1.Len() != v2.Len() {\n\t\t\treturn false\n\t\t}\n\t\t// Special case for []byte", Expect: "R15.6"})
}

func init() {
	addMutant(Mutant{Prop: "C15", Name: "map-key-starless", File: "ssa/abi/type.go",
		Old: "return \"map[\" + b.realStr(t.Key()) + \"]\" + b.realStr(t.Elem())", New: "return \"map[\" + b.Str(t.Key()) + \"]\" + b.realStr(t.Elem())", Expect: "R15.4 abi.Builder.Str Map key"})
	addMutant(Mutant{Prop: "C15", Name: "chan-of-recv-chan-no-parens", File: "ssa/abi/type.go",
		Old: "\t\telem := b.realStr(t.Elem())\n\t\tif chanElemNeedsParens(t) {\n\t\t\telem = \"(\" + elem + \")\"\n\t\t}\n", New: "\t\telem := b.realStr(t.Elem())\n", Expect: "R15.4 abi.Builder.Str Chan of receive-only"})
	addMutant(Mutant{Prop: "C15", Name: "struct-string-without-tags", File: "ssa/abi/type.go",
		Old: "\t\tif tag := t.Tag(i); tag != \"\" {\n\t\t\trepr = append(repr, ' ')\n\t\t\trepr = append(repr, strconv.Quote(tag)...)\n\t\t}\n", New: "", Expect: "R15.4 abi.Builder.structStr renders field tags"})
}

// checkNamedNoExtraStar: the "print with a leading star" flag belongs to unnamed pointer types; a defined type
// whose underlying type is a pointer (type P *T) prints as its own name.
func checkNamedNoExtraStar(c *Ctx, ap *packages.Package) {
	fd := findFunc(ap, "Builder.TFlag")
	if fd == nil {
		c.Undecided("R15.4", "abi.Builder.TFlag named types", 0, "function not found")
		return
	}
	arms, _ := typeSwitchArms(fd)
	cc := arms["Named"]
	if cc == nil {
		c.Undecided("R15.4", "abi.Builder.TFlag named types", fd.Pos(), "no arm for *types.Named")
		return
	}
	src := strings.ReplaceAll(srcOf(cc), " ", "")
	inherits := strings.Contains(src, "b.TFlag(t.Underlying())")
	masks := strings.Contains(src, "&^abi.TFlagExtraStar") || strings.Contains(src, "&^(abi.TFlagExtraStar")
	c.Check(!inherits || masks, "R15.4", "abi.Builder.TFlag named types do not inherit the star flag", cc.Pos(), "flags of the underlying type minus TFlagExtraStar",
		"a defined type inherits TFlagExtraStar from a pointer underlying type: `type P *T` prints as *pkg.P, []P as []*pkg.P")
}

func init() {
	addMutant(Mutant{Prop: "C15", Name: "named-pointer-extra-star", File: "ssa/abi/type.go",
		Old: "return (b.TFlag(t.Underlying()) &^ abi.TFlagExtraStar) | abi.TFlagNamed", New: "return b.TFlag(t.Underlying()) | abi.TFlagNamed", Expect: "R15.4 abi.Builder.TFlag named types"})
}

// checkExportedMethodsFirst (R15.7): the reader (runtime/abi UncommonType.ExportedMethods, used by reflect's
// NumMethod/Method/MethodByName) takes the FIRST Xcount entries of the method table as the exported methods.
// go/types orders a method set by Id: "pkgpath.name" for unexported, "Name" for exported - exported-first only
// when the package path sorts after every upper-case letter.  The writer must establish the order itself.
func checkExportedMethodsFirst(c *Ctx, sp, rtabi *packages.Package) {
	c.Rule("R15.7", "the descriptor's method table lists exported methods first, as the reader that takes its first Xcount entries requires, independently of how the package path sorts", 1)
	// reader contract
	rd := findFunc(rtabi, "UncommonType.ExportedMethods")
	prefix := rd != nil && strings.Contains(strings.ReplaceAll(srcOf(rd.Body), " ", ""), "i<int(t.Xcount)")
	if !prefix {
		c.Undecided("R15.7", "abi.UncommonType.ExportedMethods reads a prefix", 0, "reader not found or no longer a prefix of Xcount entries")
		return
	}
	fd := findFunc(sp, "Builder.abiUncommonMethods")
	if fd == nil {
		c.Undecided("R15.7", "ssa.Builder.abiUncommonMethods", 0, "function not found")
		return
	}
	c.nfuncs++
	info := sp.TypesInfo
	ordered := false
	for _, name := range []string{"Builder.abiUncommonMethods", "Builder.abiUncommonMethodSet", "Builder.abiUncommonType"} {
		f := findFunc(sp, name)
		if f == nil {
			continue
		}
		for _, call := range callsIn(f.Body) {
			if g := calleeOf(info, call); g != nil && g.Pkg() != nil && (g.Pkg().Path() == "sort" || g.Pkg().Path() == "slices") {
				if strings.Contains(srcOf(call), "IsExported") {
					ordered = true
				}
			}
		}
	}
	// or: two emission passes selected by exportedness
	passes := 0
	ast.Inspect(fd.Body, func(n ast.Node) bool {
		if fs, ok := n.(*ast.ForStmt); ok {
			if strings.Contains(srcOf(fs.Body), "ConstNamedStruct") {
				passes++
			}
		}
		return true
	})
	if passes >= 2 {
		ordered = true
	}
	c.Check(ordered, "R15.7", "ssa.Builder.abiUncommonMethods emits exported methods first", fd.Pos(), "methods partitioned by exportedness before emission",
		"methods are emitted in go/types' Id order (exported \"Name\" vs unexported \"pkgpath.name\"): for a package path that sorts before an exported name (it starts with a digit or an upper-case letter) an unexported method precedes the exported ones, and the first Xcount entries that reflect treats as the exported methods are the wrong ones")
}

// checkFieldFlagInheritance (R15.8): reflect's permission model - a field reached through an unexported
// EMBEDDED struct is read-only only while it is itself embedded/unexported: Value.Field inherits flagStickyRO,
// flagIndir and flagAddr from the struct value and must drop flagEmbedRO (then adds the field's own bits).
func checkFieldFlagInheritance(c *Ctx, rfl *packages.Package) {
	c.Rule("R15.8", "reflect.Value.Field inherits exactly flagStickyRO|flagIndir|flagAddr from the struct value (flagEmbedRO is not inherited), then adds flagEmbedRO / flagStickyRO for an unexported field by embedding", 1)
	fd := findFunc(rfl, "Value.Field")
	if fd == nil {
		c.Undecided("R15.8", "reflect.Value.Field", 0, "function not found")
		return
	}
	c.nfuncs++
	var mask []string
	found := false
	ast.Inspect(fd.Body, func(n ast.Node) bool {
		as, ok := n.(*ast.AssignStmt)
		if !ok || len(as.Lhs) != 1 || len(as.Rhs) != 1 || exprStr(as.Lhs[0]) != "fl" || found {
			return true
		}
		// v.flag & (A|B|C) | flag(kind)
		ast.Inspect(as.Rhs[0], func(x ast.Node) bool {
			be, ok := x.(*ast.BinaryExpr)
			if !ok || be.Op != token.AND || strings.ReplaceAll(exprStr(be.X), " ", "") != "v.flag" {
				return true
			}
			found = true
			ast.Inspect(be.Y, func(y ast.Node) bool {
				if id, ok := y.(*ast.Ident); ok && strings.HasPrefix(id.Name, "flag") {
					mask = append(mask, id.Name)
				}
				return true
			})
			return false
		})
		return true
	})
	sort.Strings(mask)
	got := strings.Join(mask, "|")
	roCall := strings.Contains(strings.ReplaceAll(srcOf(fd.Body), " ", ""), "v.flag.ro()")
	c.Check(found && got == "flagAddr|flagIndir|flagStickyRO" && !roCall, "R15.8", "reflect.Value.Field inherited permission bits", fd.Pos(), "v.flag & (flagStickyRO|flagIndir|flagAddr)",
		"the field value inherits "+got+map[bool]string{true: " plus v.flag.ro()", false: ""}[roCall]+": exported fields reached through an unexported embedded struct become read-only (CanSet/CanInterface false), so fmt no longer calls their String methods")
}

func init() {
	addMutant(Mutant{Prop: "C15", Name: "field-inherits-embed-ro", File: "runtime/internal/lib/reflect/value.go",
		Old: "\tfl := v.flag&(flagStickyRO|flagIndir|flagAddr) | flag(kind)", New: "\tfl := v.flag&(flagIndir|flagAddr) | v.flag.ro() | flag(kind)", Expect: "R15.8"})
}

// checkMakeIntNarrows (R15.9): reflect keeps small integers in the value's pointer word and Int/Uint read the
// whole word back; a conversion to a narrower kind must therefore reduce the bits to the destination width
// (sign-extended for signed kinds) before they are stored.
func checkMakeIntNarrows(c *Ctx, rfl *packages.Package) {
	c.Rule("R15.9", "reflect.makeInt reduces the value to the width (and signedness) of the destination kind before storing it inline, so that Convert to a narrower integer kind wraps as in Go", 1)
	fd := findFunc(rfl, "makeInt")
	if fd == nil {
		c.Undecided("R15.9", "reflect.makeInt", 0, "function not found")
		return
	}
	c.nfuncs++
	info := rfl.TypesInfo
	n := 0
	ast.Inspect(fd.Body, func(x ast.Node) bool {
		cc, ok := x.(*ast.CaseClause)
		if !ok || len(cc.List) == 0 {
			return true
		}
		narrow := false
		for _, e := range cc.List {
			if v, isC := constInt(info, e); isC && v < 8 {
				narrow = true
			}
		}
		if !narrow {
			return true
		}
		n++
		reduced := false
		for _, st := range cc.Body {
			ast.Inspect(st, func(y ast.Node) bool {
				if as, ok := y.(*ast.AssignStmt); ok {
					for _, l := range as.Lhs {
						if exprStr(l) == "bits" {
							reduced = true
						}
					}
				}
				return true
			})
		}
		// or: the stored expression goes through a narrowing conversion
		src := strings.ReplaceAll(srcOf(cc), " ", "")
		if strings.Contains(src, "uintptr(uint8(") || strings.Contains(src, "uintptr(int8(") || strings.Contains(src, "uintptr(uint16(") || strings.Contains(src, "uintptr(uint32(") {
			reduced = true
		}
		c.Check(reduced, "R15.9", "reflect.makeInt narrows values stored inline", cc.Pos(), "bits reduced to the destination width before unsafe.Pointer(uintptr(bits))",
			"the 64-bit value is stored in the pointer word unchanged and Int/Uint read the whole word: reflect.ValueOf(int64(300)).Convert(int8).Int() is 300 instead of 44")
		return true
	})
	if n == 0 {
		c.Undecided("R15.9", "reflect.makeInt inline arm", fd.Pos(), "no case for sizes below 8")
	}
}

func init() {
	addMutant(Mutant{Prop: "C15", Name: "makeint-stores-unreduced-bits", File: "runtime/internal/lib/reflect/value.go",
		Old: "\t\tshift := 64 - 8*uint(typ.Size())\n\t\tif k := Kind(typ.Kind()); k >= Int && k <= Int64 {\n\t\t\tbits = uint64(int64(bits<<shift) >> shift)\n\t\t} else {\n\t\t\tbits = bits << shift >> shift\n\t\t}\n", New: "", Expect: "R15.9"})
}
