package main

import (
	"fmt"
	"go/ast"
	"go/token"
	"go/types"
	"sort"
	"strings"

	"golang.org/x/tools/go/packages"
)

func init() { register("C08", checkC08) }

var goKinds = []string{"Basic", "Pointer", "Slice", "Signature", "Interface", "Struct", "Map", "Array", "Chan", "Named"}

// typeSwitchArms returns kind-name -> case clause for the first type switch of fd.
func typeSwitchArms(fd *ast.FuncDecl) (map[string]*ast.CaseClause, *ast.TypeSwitchStmt) {
	var ts *ast.TypeSwitchStmt
	ast.Inspect(fd.Body, func(n ast.Node) bool {
		if t, ok := n.(*ast.TypeSwitchStmt); ok && ts == nil {
			ts = t
		}
		return ts == nil
	})
	if ts == nil {
		return nil, nil
	}
	arms := map[string]*ast.CaseClause{}
	for _, cs := range ts.Body.List {
		cc := cs.(*ast.CaseClause)
		if cc.List == nil {
			arms["default"] = cc
		}
		for _, e := range cc.List {
			arms[strings.TrimPrefix(exprStr(e), "*types.")] = cc
		}
	}
	return arms, ts
}

func checkC08(c *Ctx) (string, error) {
	w, err := loadMain(defaultCfg, "ssa", "ssa/abi", "internal/build")
	if err != nil {
		return "", err
	}
	c.use(w)
	ap := w.Main("ssa/abi")
	sp := w.Main("ssa")
	rw, err := loadRT(defaultCfg, "abi", "internal/runtime")
	if err != nil {
		return "", err
	}
	c.use(rw)
	c.use(w)

	c.Rule("R08.1", "descriptor size/alignment tables (abi.Builder.Size/Align/PtrBytes) equal the compile-time sizes (types.StdSizes) for every basic kind and word-shaped kind at pointer widths 4 and 8", 60)
	c.Rule("R08.2", "every size/kind/name function handles every go/types kind (incl. Named and aliases) or panics explicitly", 8)
	c.Rule("R08.3", "type-descriptor writers emit exactly the fields, in order and integer width, that the runtime abi structs declare", 40)
	c.Rule("R08.4", "compile-time Sizeof and Offsetsof apply the same closure adjustment; direct-interface classification agrees between compiler and descriptor", 5)
	c.Rule("R08.5", "every 32-bit GOARCH the target table can emit is known as 32-bit; the word-size override is the only size override", 4)
	c.Rule("R08.6", "numeric cast from go/types basic kinds to runtime kinds is value-preserving (Bool..Complex128)", 16)
	c.Rule("R08.7", "map slot sizes recorded in the descriptor depend on the same indirect-storage threshold as the bucket type", 2)

	checkAbiSizeTables(c, ap)
	checkPtrBytesStruct(c, ap)
	checkKindExhaustive(c, ap, sp)
	checkDescriptorLayout(c, "R08.3", sp, rw.RT("abi"))
	checkSizeofOffsetsof(c, sp, ap)
	checkOffsetsExtra(c, sp)
	checkLayoutEquivalence(c, sp)
	checkStructDescriptorSources(c, sp, ap)
	check32Bits(c, sp, w.Main("internal/build"))
	checkBasicKindCast(c, ap, rw.RT("abi"))
	checkMapSlotStride(c, "R08.7", sp)

	return "C08 (structural): the basic-kind and word-shaped arms of abi.Builder.Size/Align/PtrBytes are evaluated for pointer widths 4 and 8 and compared with types.StdSizes (the compile-time sizes go/types folds unsafe.Sizeof/Alignof with); all size/kind/name functions are exhaustive over go/types kinds; every descriptor writer in ssa/abitype.go is compared position by position (count, order, integer width, producing attribute) with the runtime abi struct it fills; Sizeof/Offsetsof closure adjustment; 32-bit architecture table; kind-number cast; map slot stride vs indirect threshold. NOT decided: agreement with LLVM's data layout for a given target triple (outside the Go source: see DESIGN F14), C struct layout of the host compiler.", nil
}

func checkAbiSizeTables(c *Ctx, ap *packages.Package) {
	info := ap.TypesInfo
	sample := map[string]types.Type{
		"Pointer": types.NewPointer(types.Typ[types.Int]), "Slice": types.NewSlice(types.Typ[types.Int]),
		"Interface": types.NewInterfaceType(nil, nil), "Map": types.NewMap(types.Typ[types.Int], types.Typ[types.Int]),
		"Chan": types.NewChan(types.SendRecv, types.Typ[types.Int]),
		"Signature": types.NewSignatureType(nil, nil, nil, nil, nil, false),
	}
	for _, fname := range []string{"Size", "Align", "PtrBytes"} {
		fd := findFunc(ap, "Builder."+fname)
		if fd == nil {
			c.Bad("R08.1", "abi.Builder."+fname, 0, "function not found")
			continue
		}
		c.nfuncs++
		arms, _ := typeSwitchArms(fd)
		if arms == nil {
			c.Undecided("R08.1", "abi.Builder."+fname, fd.Pos(), "no type switch")
			continue
		}
		retVal := func(body []ast.Stmt, ps int64) (int64, bool) {
			if len(body) != 1 {
				return 0, false
			}
			ret, ok := body[0].(*ast.ReturnStmt)
			if !ok || len(ret.Results) != 1 {
				return 0, false
			}
			return evalArithSel(info, ret.Results[0], map[string]int64{"b.PtrSize": ps})
		}
		for _, ps := range []int64{4, 8} {
			std := &types.StdSizes{WordSize: ps, MaxAlign: ps}
			want := func(t types.Type) int64 {
				switch fname {
				case "Size":
					return std.Sizeof(t)
				case "Align":
					return std.Alignof(t)
				}
				// PtrBytes: prefix that can hold pointers
				switch u := t.Underlying().(type) {
				case *types.Basic:
					if u.Kind() == types.String || u.Kind() == types.UnsafePointer {
						return ps
					}
					return 0
				case *types.Interface:
					return 2 * ps
				}
				return ps
			}
			// basic kinds
			if bc := arms["Basic"]; bc != nil {
				seen := map[types.BasicKind]bool{}
				var inner *ast.SwitchStmt
				for _, st := range bc.Body {
					if sw, ok := st.(*ast.SwitchStmt); ok {
						inner = sw
					}
				}
				var fallback []ast.Stmt
				if inner != nil {
					idx := -1
					for i, st := range bc.Body {
						if st == ast.Stmt(inner) {
							idx = i
						}
					}
					fallback = bc.Body[idx+1:]
					for _, cs := range inner.Body.List {
						cc := cs.(*ast.CaseClause)
						for _, ke := range cc.List {
							o, ok := usedObj(info, ke).(*types.Const)
							if !ok {
								continue
							}
							kv, _ := constValInt(o)
							bk := types.BasicKind(kv)
							seen[bk] = true
							got, ok := retVal(cc.Body, ps)
							key := fmt.Sprintf("abi.%s(%s) ptr=%d", fname, types.Typ[bk].Name(), ps)
							if !ok {
								c.Undecided("R08.1", key, cc.Pos(), "arm is not a single constant/word-multiple return")
								continue
							}
							w := want(types.Typ[bk])
							c.Check(got == w, "R08.1", key, cc.Pos(), fmt.Sprint(got), fmt.Sprintf("descriptor table gives %d, compile-time sizes (types.StdSizes{WordSize:%d,MaxAlign:%d}) give %d", got, ps, ps, w))
						}
					}
				}
				for _, bk := range []types.BasicKind{types.Bool, types.Int, types.Int8, types.Int16, types.Int32, types.Int64, types.Uint, types.Uint8, types.Uint16, types.Uint32, types.Uint64, types.Uintptr, types.Float32, types.Float64, types.Complex64, types.Complex128, types.String, types.UnsafePointer} {
					if seen[bk] {
						continue
					}
					key := fmt.Sprintf("abi.%s(%s) ptr=%d", fname, types.Typ[bk].Name(), ps)
					got, ok := retVal(fallback, ps)
					if !ok {
						c.Bad("R08.1", key, bc.Pos(), "basic kind has no arm and no fallback: reaches the panic")
						continue
					}
					w := want(types.Typ[bk])
					c.Check(got == w, "R08.1", key, bc.Pos(), fmt.Sprint(got), fmt.Sprintf("fallback gives %d, expected %d", got, w))
				}
			}
			for kind, st := range sample {
				cc := arms[kind]
				if cc == nil {
					continue // R08.2 reports missing arms
				}
				got, ok := retVal(cc.Body, ps)
				key := fmt.Sprintf("abi.%s(%s) ptr=%d", fname, kind, ps)
				if !ok {
					c.Undecided("R08.1", key, cc.Pos(), "arm is not a single word-multiple return")
					continue
				}
				w := want(st)
				if kind == "Signature" && fname == "Size" {
					w = ps // raw C function pointer (Go func values are closure structs, sized as structs)
				}
				c.Check(got == w, "R08.1", key, cc.Pos(), fmt.Sprint(got), fmt.Sprintf("descriptor table gives %d, compile-time sizes give %d", got, w))
			}
		}
	}
}

func evalArithSel(info *types.Info, e ast.Expr, env map[string]int64) (int64, bool) {
	e = ast.Unparen(e)
	if v, ok := constInt(info, e); ok {
		return v, true
	}
	switch x := e.(type) {
	case *ast.SelectorExpr:
		v, ok := env[exprStr(x)]
		return v, ok
	case *ast.BinaryExpr:
		a, ok1 := evalArithSel(info, x.X, env)
		b, ok2 := evalArithSel(info, x.Y, env)
		if !ok1 || !ok2 {
			return 0, false
		}
		switch x.Op {
		case token.MUL:
			return a * b, true
		case token.ADD:
			return a + b, true
		}
	}
	return 0, false
}

func checkKindExhaustive(c *Ctx, ap, sp *packages.Package) {
	type target struct {
		p    *packages.Package
		name string
		skip map[string]string // kinds legitimately absent, with reason
	}
	named := map[string]string{}
	targets := []target{
		{ap, "Builder.Size", named}, {ap, "Builder.Align", named}, {ap, "Builder.PtrBytes", named}, {ap, "Builder.Kind", named},
		{ap, "Builder.RuntimeName", named}, {ap, "Builder.EqualName", named}, {ap, "Builder.Str", named},
		{ap, "UnderlyingKind", map[string]string{"Named": "operates on underlying types", "Alias": "an underlying type is never an alias"}},
		{sp, "Program.toType", map[string]string{}},
	}
	for _, t := range targets {
		fd := findFunc(t.p, t.name)
		if fd == nil {
			c.Bad("R08.2", t.name+" exhaustive", 0, "function not found")
			continue
		}
		c.nfuncs++
		arms, ts := typeSwitchArms(fd)
		if arms == nil {
			c.Undecided("R08.2", t.name+" exhaustive", fd.Pos(), "no type switch")
			continue
		}
		var missing []string
		for _, k := range goKinds {
			if arms[k] == nil && t.skip[k] == "" {
				missing = append(missing, k)
			}
		}
		sort.Strings(missing)
		// a missing arm must at least reach an explicit panic (not a silent zero)
		endsInPanic := false
		if n := len(fd.Body.List); n > 0 {
			if es, ok := fd.Body.List[n-1].(*ast.ExprStmt); ok && isPanicCall(t.p.TypesInfo, es.X) {
				endsInPanic = true
			}
		}
		// aliases: the switch tag unaliases or there is an Alias arm
		tag := ""
		if as, ok := ts.Assign.(*ast.AssignStmt); ok {
			tag = exprStr(as.Rhs[0])
		} else if es, ok := ts.Assign.(*ast.ExprStmt); ok {
			tag = exprStr(es.X)
		}
		aliasOK := strings.Contains(tag, "Unalias") || arms["Alias"] != nil || t.skip["Alias"] != ""
		c.Check(len(missing) == 0 && aliasOK, "R08.2", t.name+" exhaustive", fd.Pos(), "arms for all 10 go/types kinds; aliases resolved",
			fmt.Sprintf("missing arms %v (ends in panic: %v), aliases handled: %v", missing, endsInPanic, aliasOK))
	}
}

func checkSizeofOffsetsof(c *Ctx, sp, ap *packages.Package) {
	for _, fn := range []string{"goProgram.Sizeof", "goProgram.Offsetsof"} {
		fd := findFunc(sp, fn)
		if fd == nil {
			c.Bad("R08.4", "ssa."+fn, 0, "function not found")
			continue
		}
		c.nfuncs++
		uses := false
		for _, call := range callsIn(fd.Body) {
			if f := calleeOf(sp.TypesInfo, call); f != nil && f.Name() == "extraSize" {
				uses = true
			}
		}
		c.Check(uses, "R08.4", "ssa."+fn+" applies extraSize", fd.Pos(), "two-word function values accounted for", "compile-time "+fn+" ignores the extra word of function values while the other size function adds it")
	}
	// extraSize itself: one extra word per function value, summed over struct fields, multiplied over array length
	if fd := findFunc(sp, "goProgram.extraSize"); fd == nil {
		c.Bad("R08.4", "ssa.goProgram.extraSize", 0, "function not found")
	} else {
		arms, _ := typeSwitchArms(fd)
		txt := func(cc *ast.CaseClause) string {
			if cc == nil {
				return ""
			}
			var parts []string
			for _, st := range cc.Body {
				ast.Inspect(st, func(n ast.Node) bool {
					switch x := n.(type) {
					case *ast.ReturnStmt:
						for _, r := range x.Results {
							parts = append(parts, "return "+strings.ReplaceAll(exprStr(r), " ", ""))
						}
					case *ast.AssignStmt:
						parts = append(parts, strings.ReplaceAll(exprStr(x.Lhs[0])+x.Tok.String()+exprStr(x.Rhs[0]), " ", ""))
					}
					return true
				})
			}
			return strings.Join(parts, ";")
		}
		sig, arr, str := txt(arms["Signature"]), txt(arms["Array"]), txt(arms["Struct"])
		c.Check(sig == "return ptrSize", "R08.4", "ssa.extraSize func value", fd.Pos(), "one extra word per function value", "a function value does not contribute exactly one extra word: "+sig)
		okArr := arr == "return p.extraSize(t.Elem(),ptrSize)*t.Len()" || arr == "return t.Len()*p.extraSize(t.Elem(),ptrSize)"
		c.Check(okArr, "R08.4", "ssa.extraSize array", fd.Pos(), "element extra times length", "array extra size is not (element extra x length): [3]func() folds to the wrong unsafe.Sizeof ("+arr+")")
		c.Check(strings.Contains(str, "ret+=p.extraSize(f.Type(),ptrSize)"), "R08.4", "ssa.extraSize struct", fd.Pos(), "sum over fields", "struct extra size is not the sum over its fields: "+str)
	}
	// directIfaceType (compiler) vs the kinds the descriptor marks KindDirectIface: single source -> check it is used for the Kind flag
	fd := findFunc(sp, "Builder.abiCommonFields")
	ok := false
	if fd != nil {
		ast.Inspect(fd.Body, func(n ast.Node) bool {
			if is, isIf := n.(*ast.IfStmt); isIf {
				if call, isCall := is.Cond.(*ast.CallExpr); isCall {
					if f := calleeOf(sp.TypesInfo, call); f != nil && f.Name() == "directIfaceType" && strings.Contains(strings.ReplaceAll(nodeSrc(is.Body), " ", ""), "kind|=uint8(abi.KindDirectIface)") {
						ok = true
					}
				}
			}
			return true
		})
	}
	c.Check(ok, "R08.4", "descriptor direct-interface flag", 0, "Kind |= KindDirectIface exactly when directIfaceType(t)", "the direct-interface flag is not derived from directIfaceType: boxing and unboxing disagree on whether the data word is the value or a pointer")
	_ = ap
}

func check32Bits(c *Ctx, sp, bp *packages.Package) {
	cl := pkgVarLit(sp, "arch32")
	if cl == nil {
		c.Bad("R08.5", "ssa.arch32", 0, "table not found")
		return
	}
	have := map[string]bool{}
	for _, el := range cl.Elts {
		if kv, ok := el.(*ast.KeyValueExpr); ok {
			k, _ := constString(sp.TypesInfo, kv.Key)
			if exprStr(kv.Value) == "true" {
				have[k] = true
			}
		}
	}
	// GOARCH values the target table switches on
	tf := findFunc(sp, "Target.Spec")
	archs := map[string]bool{}
	if tf != nil {
		ast.Inspect(tf.Body, func(n ast.Node) bool {
			if cc, ok := n.(*ast.CaseClause); ok {
				for _, e := range cc.List {
					if s, ok := constString(sp.TypesInfo, e); ok {
						archs[s] = true
					}
				}
			}
			return true
		})
	}
	std32 := map[string]bool{"386": true, "arm": true, "wasm": true, "mips": true, "mipsle": true}
	n := 0
	for a := range archs {
		if !std32[a] {
			continue
		}
		n++
		c.Check(have[a], "R08.5", "ssa.arch32["+a+"]", cl.Pos(), "known as 32-bit", "GOARCH "+a+" can be emitted but is not treated as 32-bit: int/uintptr are lowered as i64 on a 32-bit target")
	}
	if n < 3 {
		c.Undecided("R08.5", "ssa.Target.Spec architectures", 0, fmt.Sprintf("%d 32-bit architectures found in the target table", n))
	}
	for a := range have {
		if a == "amd64" || a == "arm64" {
			c.Bad("R08.5", "ssa.arch32["+a+"]", cl.Pos(), "a 64-bit architecture is listed as 32-bit")
		}
	}
	// the only StdSizes literal in internal/build is the wasm override with WordSize 4
	nlit := 0
	okLit := true
	for _, fd := range allFuncs(bp) {
		ast.Inspect(fd.Body, func(n ast.Node) bool {
			cl, ok := n.(*ast.CompositeLit)
			if !ok {
				return true
			}
			if t := bp.TypesInfo.TypeOf(cl); t != nil && strings.HasSuffix(t.String(), "go/types.StdSizes") {
				nlit++
				for _, el := range cl.Elts {
					if kv, ok := el.(*ast.KeyValueExpr); ok && exprStr(kv.Key) == "WordSize" {
						if v, isC := constInt(bp.TypesInfo, kv.Value); !isC || v != 4 {
							okLit = false
						}
					}
				}
				// must be guarded by arch == "wasm"
				guarded := false
				for _, e := range enclosingStmts(fd.Body, cl) {
					if is, isIf := e.(*ast.IfStmt); isIf && strings.Contains(exprStr(is.Cond), `"wasm"`) {
						guarded = true
					}
				}
				if !guarded {
					okLit = false
				}
			}
			return true
		})
	}
	c.Check(nlit == 1 && okLit, "R08.5", "build sizes override", 0, "single override: wasm -> WordSize 4", fmt.Sprintf("%d size overrides found or an override not limited to wasm/WordSize 4", nlit))
}

func checkBasicKindCast(c *Ctx, ap, rtabi *packages.Package) {
	fd := findFunc(ap, "BasicKind")
	if fd == nil {
		c.Bad("R08.6", "abi.BasicKind", 0, "function not found")
		return
	}
	// kinds handled explicitly before the numeric cast
	explicit := map[string]bool{}
	ast.Inspect(fd.Body, func(n ast.Node) bool {
		if cc, ok := n.(*ast.CaseClause); ok {
			for _, e := range cc.List {
				explicit[strings.TrimPrefix(exprStr(e), "types.")] = true
			}
		}
		return true
	})
	names := []string{"Bool", "Int", "Int8", "Int16", "Int32", "Int64", "Uint", "Uint8", "Uint16", "Uint32", "Uint64", "Uintptr", "Float32", "Float64", "Complex64", "Complex128", "String", "UnsafePointer"}
	gt := types.Universe // go/types basic kinds by value
	_ = gt
	kindVal := map[string]int64{"Bool": int64(types.Bool), "Int": int64(types.Int), "Int8": int64(types.Int8), "Int16": int64(types.Int16), "Int32": int64(types.Int32), "Int64": int64(types.Int64), "Uint": int64(types.Uint), "Uint8": int64(types.Uint8), "Uint16": int64(types.Uint16), "Uint32": int64(types.Uint32), "Uint64": int64(types.Uint64), "Uintptr": int64(types.Uintptr), "Float32": int64(types.Float32), "Float64": int64(types.Float64), "Complex64": int64(types.Complex64), "Complex128": int64(types.Complex128), "String": int64(types.String), "UnsafePointer": int64(types.UnsafePointer)}
	for _, n := range names {
		o, ok := rtabi.Types.Scope().Lookup(n).(*types.Const)
		if !ok {
			c.Bad("R08.6", "abi.Kind "+n, 0, "runtime kind constant not found")
			continue
		}
		rv, _ := constValInt(o)
		if explicit[n] {
			c.Exists("R08.6", "abi.Kind "+n, o.Pos(), "mapped explicitly")
			continue
		}
		c.Check(rv == kindVal[n], "R08.6", "abi.Kind "+n, o.Pos(), fmt.Sprintf("types.%s = abi.%s = %d", n, n, rv), fmt.Sprintf("numeric cast maps types.%s (%d) to runtime kind %d, but abi.%s is %d", n, kindVal[n], kindVal[n], n, rv))
	}
}

// checkMapSlotStride: R06.5 / R08.7
func checkMapSlotStride(c *Ctx, rule string, sp *packages.Package) {
	fd := findFunc(sp, "Builder.abiExtendedFields")
	if fd == nil {
		c.Bad(rule, "map descriptor slot sizes", 0, "abiExtendedFields not found")
		return
	}
	arms, _ := typeSwitchArms(fd)
	mc := arms["Map"]
	if mc == nil {
		c.Bad(rule, "map descriptor slot sizes", fd.Pos(), "no Map arm")
		return
	}
	var lit *ast.CompositeLit
	for _, s := range mc.Body {
		if as, ok := s.(*ast.AssignStmt); ok && exprStr(as.Lhs[0]) == "fields" {
			lit, _ = as.Rhs[0].(*ast.CompositeLit)
		}
	}
	if lit == nil || len(lit.Elts) < 6 {
		c.Undecided(rule, "map descriptor slot sizes", mc.Pos(), "field literal not found")
		return
	}
	for i, which := range []struct{ name, flag string }{{"KeySize", "1"}, {"ValueSize", "2"}} {
		e := lit.Elts[4+i]
		// the emitted value must be a variable that is reassigned to the pointer size under the indirect flag
		ok := false
		why := "slot size is " + exprStr(e) + " unconditionally"
		var id *ast.Ident
		ast.Inspect(e, func(n ast.Node) bool {
			if x, isId := n.(*ast.Ident); isId && id == nil {
				if o := sp.TypesInfo.Uses[x]; o != nil && o.Parent() != nil && o.Parent() != sp.Types.Scope() && o.Pkg() == sp.Types {
					if _, isVar := o.(*types.Var); isVar && x.Name != "prog" && x.Name != "t" && x.Name != "b" {
						id = x
					}
				}
			}
			return true
		})
		if id != nil {
			for _, s := range mc.Body {
				is, isIf := s.(*ast.IfStmt)
				if !isIf {
					continue
				}
				cond := strings.ReplaceAll(exprStr(is.Cond), " ", "")
				dependsOnThreshold := cond == "flags&"+which.flag+"!=0" || strings.Contains(cond, "MAXKEYSIZE") || strings.Contains(cond, "MAXELEMSIZE") || strings.Contains(cond, "Indirect")
				for _, b := range is.Body.List {
					if as, ok2 := b.(*ast.AssignStmt); ok2 && exprStr(as.Lhs[0]) == id.Name && strings.Contains(exprStr(as.Rhs[0]), "PtrSize") && dependsOnThreshold {
						ok = true
					}
				}
			}
			if !ok {
				why = "slot size variable " + id.Name + " is never set to the pointer size under the indirect-storage condition"
			}
		}
		c.Check(ok, rule, "map descriptor "+which.name+" follows indirect threshold", e.Pos(), "pointer-sized when the bucket stores pointers",
			why+": for keys/elems larger than the inline limit the bucket holds pointers, and the runtime strides slots by this field")
	}
}

func init() {
	addMutant(Mutant{Prop: "C08", Name: "abi-size-complex64", File: "ssa/abi/type.go", Old: "\t\tcase types.Complex64:\n\t\t\treturn 8\n\t\tcase types.Complex128:\n\t\t\treturn 16", New: "\t\tcase types.Complex64:\n\t\t\treturn 16\n\t\tcase types.Complex128:\n\t\t\treturn 16", Expect: "R08.1 abi.Size(complex64)"})
	addMutant(Mutant{Prop: "C08", Name: "abi-size-slice-2words", File: "ssa/abi/type.go", Old: "\tcase *types.Slice:\n\t\treturn 3 * b.PtrSize", New: "\tcase *types.Slice:\n\t\treturn 2 * b.PtrSize", Expect: "R08.1 abi.Size(Slice)"})
	addMutant(Mutant{Prop: "C08", Name: "abi-align-int16", File: "ssa/abi/type.go", Old: "\t\tcase types.Int16, types.Uint16:\n\t\t\treturn 2\n\t\tcase types.Int32, types.Uint32:\n\t\t\treturn 4\n\t\tcase types.Int64, types.Uint64:\n\t\t\treturn 8\n\t\tcase types.Int, types.Uint, types.Uintptr, types.UnsafePointer:\n\t\t\treturn b.PtrSize\n\t\tcase types.Float32:\n\t\t\treturn 4\n\t\tcase types.Float64:\n\t\t\treturn 8\n\t\tcase types.Complex64:\n\t\t\treturn 4",
		New: "\t\tcase types.Int16, types.Uint16:\n\t\t\treturn 2\n\t\tcase types.Int32, types.Uint32:\n\t\t\treturn 4\n\t\tcase types.Int64, types.Uint64:\n\t\t\treturn 8\n\t\tcase types.Int, types.Uint, types.Uintptr, types.UnsafePointer:\n\t\t\treturn b.PtrSize\n\t\tcase types.Float32:\n\t\t\treturn 4\n\t\tcase types.Float64:\n\t\t\treturn 8\n\t\tcase types.Complex64:\n\t\t\treturn 8", Expect: "R08.1 abi.Align(complex64)"})
	addMutant(Mutant{Prop: "C08", Name: "kind-chan-arm-dropped", File: "ssa/abi/type.go", Old: "\tcase *types.Chan:\n\t\treturn abi.Chan\n\tcase *types.Named:\n\t\treturn b.Kind(t.Underlying())", New: "\tcase *types.Named:\n\t\treturn b.Kind(t.Underlying())", Expect: "R08.2 Builder.Kind exhaustive"})
	addMutant(Mutant{Prop: "C08", Name: "common-fields-swapped", File: "ssa/abitype.go", Old: "\tfields = append(fields, align)\n\t// FieldAlign uint8\n\tfieldAlign := prog.IntVal(uint64(ab.FieldAlign(t)), prog.Byte()).impl\n\tfields = append(fields, fieldAlign)\n\t// Kind uint8\n\tkind := uint8(ab.Kind(t))", New: "\tfieldAlign := prog.IntVal(uint64(ab.FieldAlign(t)), prog.Byte()).impl\n\tfields = append(fields, fieldAlign)\n\tfields = append(fields, align)\n\t// Kind uint8\n\tkind := uint8(ab.Kind(t))", Expect: "R08.3 descriptor Type."})
	addMutant(Mutant{Prop: "C08", Name: "hash-width", File: "ssa/abitype.go", Old: "fields = append(fields, prog.IntVal(uint64(hash), prog.Uint32()).impl)", New: "fields = append(fields, prog.IntVal(uint64(hash), prog.Uintptr()).impl)", Expect: "R08.3 descriptor Type.Hash"})
	addMutant(Mutant{Prop: "C08", Name: "structfield-tag-embedded-swapped", File: "ssa/abitype.go", Old: "\t\t\tvalues = append(values, b.Str(t.Tag(i)).impl)\n\t\t\tvalues = append(values, prog.BoolVal(f.Embedded()).impl)", New: "\t\t\tvalues = append(values, prog.BoolVal(f.Embedded()).impl)\n\t\t\tvalues = append(values, b.Str(t.Tag(i)).impl)", Expect: "R08.3 descriptor StructField"})
	addMutant(Mutant{Prop: "C08", Name: "array-len-dropped", File: "ssa/abitype.go", Old: "\t\t\tb.abiType(types.NewSlice(elem)).impl,\n\t\t\tprog.IntVal(uint64(t.Len()), prog.Uintptr()).impl,\n", New: "\t\t\tb.abiType(types.NewSlice(elem)).impl,\n", Expect: "R08.3 descriptor ArrayType"})
	addMutant(Mutant{Prop: "C08", Name: "uncommon-moff-width", File: "ssa/abitype.go", Old: "fields = append(fields, prog.IntVal(moff, prog.Uint32()).impl)", New: "fields = append(fields, prog.IntVal(moff, prog.Uint16()).impl)", Expect: "R08.3 descriptor UncommonType.Moff"})
	addMutant(Mutant{Prop: "C08", Name: "extrasize-array-multiplier", File: "ssa/type.go", Old: "\t\treturn p.extraSize(t.Elem(), ptrSize) * t.Len()\n", New: "\t\ttyp = t.Elem()\n\t\tgoto retry\n", Expect: "R08.4 ssa.extraSize array"})
	addMutant(Mutant{Prop: "C08", Name: "arm-not-32bit", File: "ssa/package.go", Old: "\t\"arm\":    true,\n", New: "", Expect: "R08.5 ssa.arch32[arm]"})
	addMutant(Mutant{Prop: "C08", Name: "map-keysize-unconditional", File: "ssa/abitype.go", Old: "\t\tif flags&1 != 0 { // indirect key\n\t\t\tkeySize = prog.abi.PtrSize\n\t\t}\n", New: "", Expect: "R08.7 map descriptor KeySize"})
}
