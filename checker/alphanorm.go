package main

import (
	"encoding/json"
	"go/ast"
	"go/token"
	"go/types"
	"os"
	"path/filepath"
	"sort"
	"strings"
	"sync"

	"golang.org/x/tools/go/ast/astutil"
	"golang.org/x/tools/go/packages"
)

// Alpha-normalisation.
//
// Many rules recognise code through the names of receivers, parameters and locals.  A consistent renaming of
// a local variable does not change behaviour and must not change a verdict.  localnames.json records, for
// every function of the analysed packages on the tree the rules were written against, the sequence of its
// local variables (receiver, parameters, results, locals in order of definition).  After loading, every
// function whose sequence has the same length and kinds is alpha-renamed IN THE CHECKER'S COPY OF THE AST back
// to the recorded names; a function whose structure differs is left as it is (its rules then see the real
// names and fail closed if they no longer recognise the code).  The renaming is capture-checked.

type localRec struct {
	Kinds string   `json:"k"` // one letter per variable: r receiver, p parameter, o result, l local, t type-switch variable
	Names []string `json:"n"`
}

var (
	recordNames   bool
	nameTable     map[string]localRec
	nameTableOnce sync.Once
	recorded      = map[string]localRec{}
	normStats     struct{ funcs, renamed, skippedStruct, skippedCapture int }
)

func nameTablePath() string { return filepath.Join(verifDir(), "checker", "localnames.json") }

func loadNameTable() {
	nameTableOnce.Do(func() {
		nameTable = map[string]localRec{}
		b, err := os.ReadFile(nameTablePath())
		if err != nil {
			return
		}
		json.Unmarshal(b, &nameTable)
	})
}

type localVar struct {
	kind   byte
	name   string
	idents []*ast.Ident
}

// localSeq lists the local variables of fd in order of definition, each with all identifiers denoting it.
func localSeq(p *packages.Package, fd *ast.FuncDecl) []*localVar {
	info := p.TypesInfo
	isLocal := func(o types.Object) bool {
		v, ok := o.(*types.Var)
		if !ok || v.IsField() || v.Pkg() != p.Types || v.Name() == "_" {
			return false
		}
		return v.Parent() != nil && v.Parent() != p.Types.Scope() && v.Parent() != types.Universe
	}
	byObj := map[types.Object]*localVar{}
	var seq []*localVar
	kindOf := map[*ast.Ident]byte{}
	mark := func(fl *ast.FieldList, k byte) {
		if fl == nil {
			return
		}
		for _, f := range fl.List {
			for _, n := range f.Names {
				kindOf[n] = k
			}
		}
	}
	mark(fd.Recv, 'r')
	mark(fd.Type.Params, 'p')
	mark(fd.Type.Results, 'o')
	// type-switch variables: one pseudo variable for the symbolic ident and all clause-implicit objects
	tsw := map[types.Object]*localVar{}
	ast.Inspect(fd, func(x ast.Node) bool {
		switch n := x.(type) {
		case *ast.TypeSwitchStmt:
			as, ok := n.Assign.(*ast.AssignStmt)
			if !ok || len(as.Lhs) != 1 {
				return true
			}
			id, ok := as.Lhs[0].(*ast.Ident)
			if !ok || id.Name == "_" {
				return true
			}
			lv := &localVar{kind: 't', name: id.Name, idents: []*ast.Ident{id}}
			seq = append(seq, lv)
			for _, st := range n.Body.List {
				if o := info.Implicits[st]; o != nil {
					tsw[o] = lv
				}
			}
		case *ast.Ident:
			if o := info.Defs[n]; o != nil && isLocal(o) {
				k := kindOf[n]
				if k == 0 {
					k = 'l'
				}
				lv := &localVar{kind: k, name: n.Name, idents: []*ast.Ident{n}}
				byObj[o] = lv
				seq = append(seq, lv)
			}
		}
		return true
	})
	ast.Inspect(fd, func(x ast.Node) bool {
		if id, ok := x.(*ast.Ident); ok {
			if o := info.Uses[id]; o != nil {
				if lv := byObj[o]; lv != nil {
					lv.idents = append(lv.idents, id)
				} else if lv := tsw[o]; lv != nil {
					lv.idents = append(lv.idents, id)
				}
			}
		}
		return true
	})
	return seq
}

func funcKey(p *packages.Package, fd *ast.FuncDecl) string {
	return p.PkgPath + "|" + filepath.Base(p.Fset.Position(fd.Pos()).Filename) + "|" + declName(fd)
}

// alphaNormalise renames locals back to the recorded names (or records them).
func alphaNormalise(pkgs []*packages.Package) {
	if !recordNames {
		loadNameTable()
		if len(nameTable) == 0 {
			return
		}
	}
	for _, p := range pkgs {
		if p.TypesInfo == nil {
			continue
		}
		if !recordNames {
			canonicalComparisons(p)
			canonicalIfElse(p)
			canonicalIncDec(p)
		}
		for _, f := range p.Syntax {
			for _, d := range f.Decls {
				fd, ok := d.(*ast.FuncDecl)
				if !ok || fd.Body == nil {
					continue
				}
				seq := localSeq(p, fd)
				key := funcKey(p, fd)
				var kinds strings.Builder
				names := make([]string, len(seq))
				for i, lv := range seq {
					kinds.WriteByte(lv.kind)
					names[i] = lv.name
				}
				if recordNames {
					recorded[key] = localRec{kinds.String(), names}
					continue
				}
				normStats.funcs++
				rec, ok := nameTable[key]
				if !ok || rec.Kinds != kinds.String() || len(rec.Names) != len(seq) {
					if ok {
						normStats.skippedStruct++
					}
					continue
				}
				same := true
				for i := range seq {
					if seq[i].name != rec.Names[i] {
						same = false
					}
				}
				if same {
					continue
				}
				// capture check: a non-local identifier named like a target must not lie in the scope of the
				// variable that takes that name (scope = the variable's block, from the end of its declaration)
				type tgt struct {
					scope *types.Scope
					from  token.Pos
				}
				target := map[string][]tgt{}
				for i, lv := range seq {
					if lv.name == rec.Names[i] {
						continue
					}
					var sc *types.Scope
					from := fd.Pos()
					def := lv.idents[0]
					if o := p.TypesInfo.Defs[def]; o != nil {
						sc = o.Parent()
						if lv.kind == 'l' {
							from = def.End()
							for _, anc := range enclosingStmts(fd, def) {
								switch st := anc.(type) {
								case *ast.AssignStmt:
									from = st.End()
								case *ast.ValueSpec:
									from = st.End()
								}
							}
						}
					}
					target[rec.Names[i]] = append(target[rec.Names[i]], tgt{sc, from})
				}
				local := map[*ast.Ident]bool{}
				for _, lv := range seq {
					for _, id := range lv.idents {
						local[id] = true
					}
				}
				capture := false
				ast.Inspect(fd, func(x ast.Node) bool {
					id, ok := x.(*ast.Ident)
					if !ok || local[id] {
						return true
					}
					ts := target[id.Name]
					if len(ts) == 0 {
						return true
					}
					o := p.TypesInfo.Uses[id]
					if o == nil {
						return true
					}
					if v, isVar := o.(*types.Var); isVar && v.IsField() {
						return true // field selectors and composite-literal keys are not captured by locals
					}
					for _, t := range ts {
						if t.scope == nil || (t.scope.Contains(id.Pos()) && id.Pos() >= t.from) {
							capture = true
						}
					}
					return true
				})
				if capture {
					normStats.skippedCapture++
					continue
				}
				for i, lv := range seq {
					for _, id := range lv.idents {
						id.Name = rec.Names[i]
					}
				}
				normStats.renamed++
			}
		}
	}
}

func writeRecordedNames() error {
	// merge with an existing table so that several runs (properties, configurations) accumulate
	loadNameTable()
	for k, v := range recorded {
		nameTable[k] = v
	}
	keys := make([]string, 0, len(nameTable))
	for k := range nameTable {
		keys = append(keys, k)
	}
	sort.Strings(keys)
	var sb strings.Builder
	sb.WriteString("{\n")
	for i, k := range keys {
		b, _ := json.Marshal(nameTable[k])
		kb, _ := json.Marshal(k)
		sb.Write(kb)
		sb.WriteString(": ")
		sb.Write(b)
		if i < len(keys)-1 {
			sb.WriteString(",")
		}
		sb.WriteString("\n")
	}
	sb.WriteString("}\n")
	return os.WriteFile(nameTablePath(), []byte(sb.String()), 0o644)
}


// canonicalComparisons puts the constant operand of == and != on the right (x == nil, s != "", n == K): the
// two spellings are the same test, and the rules are written against the constant-on-the-right form.
func canonicalComparisons(p *packages.Package) {
	info := p.TypesInfo
	isConst := func(e ast.Expr) bool {
		if tv, ok := info.Types[e]; ok && (tv.Value != nil || tv.IsNil()) {
			return true
		}
		return isNilIdent(info, e)
	}
	for _, f := range p.Syntax {
		ast.Inspect(f, func(x ast.Node) bool {
			if be, ok := x.(*ast.BinaryExpr); ok && (be.Op == token.EQL || be.Op == token.NEQ) {
				if isConst(be.X) && !isConst(be.Y) {
					be.X, be.Y = be.Y, be.X
				}
			}
			return true
		})
	}
}

// canonicalIfElse rewrites `if !c {A} else {B}` as `if c {B} else {A}` (same behaviour); rules that read
// the two arms of a decision are written against the un-negated form.
func canonicalIfElse(p *packages.Package) {
	for _, f := range p.Syntax {
		ast.Inspect(f, func(x ast.Node) bool {
			is, ok := x.(*ast.IfStmt)
			if !ok {
				return true
			}
			eb, ok := is.Else.(*ast.BlockStmt)
			if !ok {
				return true
			}
			u, ok := ast.Unparen(is.Cond).(*ast.UnaryExpr)
			if !ok || u.Op != token.NOT {
				return true
			}
			is.Cond = ast.Unparen(u.X)
			is.Body, is.Else = eb, is.Body
			return true
		})
	}
}

// canonicalIncDec reads `x += 1` / `x -= 1` as `x++` / `x--`.
func canonicalIncDec(p *packages.Package) {
	info := p.TypesInfo
	for _, f := range p.Syntax {
		astutil.Apply(f, func(cur *astutil.Cursor) bool {
			as, ok := cur.Node().(*ast.AssignStmt)
			if !ok || len(as.Lhs) != 1 || len(as.Rhs) != 1 || (as.Tok != token.ADD_ASSIGN && as.Tok != token.SUB_ASSIGN) {
				return true
			}
			if v, isC := constInt(info, as.Rhs[0]); !isC || v != 1 {
				return true
			}
			if t := info.TypeOf(as.Lhs[0]); t != nil {
				if b, isB := t.Underlying().(*types.Basic); !isB || b.Info()&types.IsInteger == 0 {
					return true
				}
			}
			tok := token.INC
			if as.Tok == token.SUB_ASSIGN {
				tok = token.DEC
			}
			// only in statement lists (a for-post statement may hold an AssignStmt too; both forms are accepted there)
			cur.Replace(&ast.IncDecStmt{X: as.Lhs[0], TokPos: as.TokPos, Tok: tok})
			return true
		}, nil)
	}
}
