package main

import (
	"fmt"
	"go/ast"
	"go/token"
	"go/types"
	"strings"

	"golang.org/x/tools/go/packages"
)

func init() {
	register("C12", checkC12)
	register("C19", checkC19)
}

// callSeq lists, in source order, the "b.Call(X.Expr)" style calls of a straight-line function body.
func emittedCallSeq(fd *ast.FuncDecl) []string {
	var seq []string
	for _, st := range fd.Body.List {
		ast.Inspect(st, func(n ast.Node) bool {
			call, ok := n.(*ast.CallExpr)
			if !ok {
				return true
			}
			sel, ok := call.Fun.(*ast.SelectorExpr)
			if !ok || exprStr(sel.X) != "b" {
				return true
			}
			switch sel.Sel.Name {
			case "Call":
				if len(call.Args) >= 1 {
					seq = append(seq, strings.TrimSuffix(exprStr(call.Args[0]), ".Expr"))
				}
			case "Return":
				seq = append(seq, "return")
			}
			return true
		})
	}
	return seq
}

func checkC12(c *Ctx) (string, error) {
	w, err := loadMain(defaultCfg, "internal/build", "cl")
	if err != nil {
		return "", err
	}
	c.use(w)
	bp, cp := w.Main("internal/build"), w.Main("cl")

	c.Rule("R12.1", "program entry: interpreter start, runtime init, type-table init, the runtime package's init hook, main's init, main.main - in that order, each bound to the right symbol", 7)
	c.Rule("R12.2", "overlaid packages: the original init is renamed and chained from the overlay's init exactly when it exists; deferred function bodies compile under the package state they were declared in", 6)

	checkInitStubLinkage(c, bp)
	checkPkgKindOrder(c, cp)
	// ---------------- R12.1
	ef := findFunc(bp, "defineEntryFunction")
	gm := findFunc(bp, "genMainModule")
	if ef == nil || gm == nil {
		return "", fmt.Errorf("defineEntryFunction/genMainModule not found")
	}
	c.nfuncs += 2
	seq := emittedCallSeq(ef)
	want := []string{"pyInit", "rtInit", "abiInit", "runtimeStub", "mainInit", "mainMain", "return"}
	// keep only known names
	var got []string
	for _, s := range seq {
		for _, w := range want {
			if s == w {
				got = append(got, s)
			}
		}
	}
	c.Check(strings.Join(got, " ") == strings.Join(want, " "), "R12.1", "entry call order", ef.Pos(), strings.Join(want, " -> "), "entry function calls "+strings.Join(got, " -> ")+": a package's init (or main) runs before what it depends on")
	// optional hooks are guarded by != nil, mandatory ones unconditional
	for _, st := range ef.Body.List {
		if is, ok := st.(*ast.IfStmt); ok {
			cond := strings.ReplaceAll(exprStr(is.Cond), " ", "")
			for _, m := range []string{"runtimeStub", "mainInit", "mainMain"} {
				if strings.Contains(cond, m) || strings.Contains(nodeSrcCalls(is.Body), m+".Expr") {
					c.Bad("R12.1", "entry "+m+" unconditional", is.Pos(), "the call of "+m+" is conditional ("+cond+")")
				}
			}
		}
	}
	// symbol bindings
	bind := map[string]string{}
	ast.Inspect(gm.Body, func(n ast.Node) bool {
		as, ok := n.(*ast.AssignStmt)
		if !ok || len(as.Lhs) != 1 || len(as.Rhs) != 1 {
			return true
		}
		call, ok := as.Rhs[0].(*ast.CallExpr)
		if !ok || len(call.Args) < 2 {
			return true
		}
		if f := calleeOf(bp.TypesInfo, call); f != nil && (f.Name() == "declareNoArgFunc" || f.Name() == "defineWeakNoArgStub") {
			bind[exprStr(as.Lhs[0])] = f.Name() + "(" + strings.ReplaceAll(exprStr(call.Args[1]), " ", "") + ")"
		}
		return true
	})
	wantBind := map[string]string{
		"runtimeStub": `defineWeakNoArgStub("runtime.init")`, "pyInit": `declareNoArgFunc("Py_Initialize")`,
		"rtInit": `declareNoArgFunc(rtPkgPath+".init")`, "mainInit": `declareNoArgFunc(pkg.PkgPath+".init")`, "mainMain": `declareNoArgFunc(pkg.PkgPath+".main")`,
	}
	for v, wb := range wantBind {
		c.Check(bind[v] == wb, "R12.1", "entry symbol "+v, gm.Pos(), wb, fmt.Sprintf("%s is bound to %s, expected %s", v, bind[v], wb))
	}
	// argument order at the call of defineEntryFunction equals its parameter order (by name)
	var params []string
	for _, f := range ef.Type.Params.List {
		for _, n := range f.Names {
			params = append(params, n.Name)
		}
	}
	okArgs := false
	for _, call := range callsIn(gm.Body) {
		if f := calleeOf(bp.TypesInfo, call); f != nil && f.Name() == "defineEntryFunction" {
			okArgs = len(call.Args) == len(params)
			for i, a := range call.Args {
				if i < len(params) {
					an := exprStr(a)
					pn := params[i]
					if pn == "pkg" {
						pn = "mainPkg"
					}
					if pn == "argvType" {
						pn = "argvValueType"
					}
					if an != pn {
						okArgs = false
					}
				}
			}
		}
	}
	c.Check(okArgs, "R12.1", "entry hooks passed in parameter order", gm.Pos(), strings.Join(params, ","), "the init hooks are passed to defineEntryFunction in a different order than its parameters (two same-typed functions swapped)")
	// rtPkgPath constant is the runtime package
	if o, ok := bp.Types.Scope().Lookup("rtPkgPath").(*types.Const); ok {
		c.Check(strings.Trim(o.Val().ExactString(), `"`) == rtPkgPath, "R12.1", "runtime package path", o.Pos(), rtPkgPath, "rtPkgPath = "+o.Val().ExactString())
	}

	// ---------------- R12.2
	checkPatchInit(c, cp)
	return "C12 (structural): the emitted call sequence of the program entry (Py_Initialize?, runtime init?, type-table init?, runtime.init hook, <main>.init, <main>.main, return), the symbol each hook is bound to and the positional wiring between genMainModule and defineEntryFunction; for overlaid standard packages, that the original init is renamed exactly in the has-patch state, that the overlay's init calls the renamed one exactly in the in-patch state (unless declared absent), that function bodies compiled later run under the package state captured at declaration, and that package state and the after-init hook are sequenced around the two processPkg passes and the deferred-body loop. NOT decided: dependency order among packages and variables (computed by go/ssa's synthetic init, outside /repo) and run-once guard semantics.", nil
}

func nodeSrcCalls(n ast.Node) string {
	var s []string
	ast.Inspect(n, func(x ast.Node) bool {
		if call, ok := x.(*ast.CallExpr); ok {
			s = append(s, strings.ReplaceAll(exprStr(call), " ", ""))
		}
		return true
	})
	return strings.Join(s, ";")
}

func checkPatchInit(c *Ctx, cp *packages.Package) {
	fd := findFunc(cp, "context.compileFuncDecl")
	cb := findFunc(cp, "context.compileBlock")
	var np *ast.FuncDecl
	for _, f := range allFuncs(cp) {
		has := false
		ast.Inspect(f.Body, func(n ast.Node) bool {
			if fs, ok := n.(*ast.ForStmt); ok && fs.Cond != nil && strings.ReplaceAll(exprStr(fs.Cond), " ", "") == "len(ctx.inits)>0" {
				has = true
			}
			return true
		})
		if has {
			np = f
		}
	}
	if fd == nil || cb == nil || np == nil {
		c.Bad("R12.2", "cl patch-init functions", 0, "compileFuncDecl/compileBlock/NewPackageEx not found")
		return
	}
	c.nfuncs += 3
	// (a) rename in has-patch state
	okRename := false
	ast.Inspect(fd.Body, func(n ast.Node) bool {
		if is, ok := n.(*ast.IfStmt); ok && strings.ReplaceAll(exprStr(is.Cond), " ", "") == "isInit&&state==pkgHasPatch" {
			if strings.Contains(strings.ReplaceAll(nodeSrc(is.Body), " ", ""), "name=initFnNameOfHasPatch(name)") {
				okRename = true
			}
		}
		return true
	})
	c.Check(okRename, "R12.2", "original init renamed in the has-patch state", fd.Pos(), "isInit && state == pkgHasPatch -> name$hasPatch", "the original package's init is not renamed when an overlay provides the visible init: two definitions of <pkg>.init, or the original one is never reachable")
	// isInit is "init" without receiver; state captured from p.state
	okState := false
	ast.Inspect(fd.Body, func(n ast.Node) bool {
		if as, ok := n.(*ast.AssignStmt); ok && len(as.Lhs) == 1 && exprStr(as.Lhs[0]) == "state" && strings.ReplaceAll(exprStr(as.Rhs[0]), " ", "") == "p.state" {
			okState = true
		}
		return true
	})
	// (c) deferred body restores the captured state before compiling blocks
	okRestore := false
	ast.Inspect(fd.Body, func(n ast.Node) bool {
		call, ok := n.(*ast.CallExpr)
		if !ok {
			return true
		}
		id, ok := call.Fun.(*ast.Ident)
		if !ok || id.Name != "append" || len(call.Args) != 2 || strings.ReplaceAll(exprStr(call.Args[0]), " ", "") != "p.inits" {
			return true
		}
		lit, ok := call.Args[1].(*ast.FuncLit)
		if !ok {
			return true
		}
		var setPos, blkPos token.Pos
		for _, st := range lit.Body.List {
			if as, ok := st.(*ast.AssignStmt); ok && strings.ReplaceAll(exprStr(as.Lhs[0]), " ", "") == "p.state" && exprStr(as.Rhs[0]) == "state" && setPos == 0 {
				setPos = as.Pos()
			}
		}
		ast.Inspect(lit.Body, func(x ast.Node) bool {
			if cc, ok := x.(*ast.CallExpr); ok {
				if f := calleeOf(cp.TypesInfo, cc); f != nil && f.Name() == "compileBlock" && blkPos == 0 {
					blkPos = cc.Pos()
				}
			}
			return true
		})
		if setPos != 0 && blkPos != 0 && setPos < blkPos {
			okRestore = true
		}
		return true
	})
	c.Check(okState && okRestore, "R12.2", "deferred function bodies compile under their declaration-time package state", fd.Pos(), "state := p.state at declaration; p.state = state before compileBlock in the deferred body", "bodies are compiled after both package passes, so without restoring the captured state an overlay's init is compiled in the wrong state and never calls the original package's init")
	// (b) chain call in the in-patch state, same naming helper
	okChain := false
	ast.Inspect(cb.Body, func(n ast.Node) bool {
		if is, ok := n.(*ast.IfStmt); ok {
			cond := strings.ReplaceAll(exprStr(is.Cond), " ", "")
			if cond == "i==1&&doModInit&&p.state==pkgInPatch" {
				s := strings.ReplaceAll(nodeSrc(is.Body), " ", "") + nodeSrcCalls(is.Body)
				if strings.Contains(s, "initFnNameOfHasPatch(p.fn.Name())") && strings.Contains(s, "b.Call(fnOld.Expr)") {
					okChain = true
				}
			}
		}
		return true
	})
	c.Check(okChain, "R12.2", "overlay init calls the renamed original init", cb.Pos(), "in the in-patch state (and only without the no-old-init flag) the init body calls <pkg>.init$hasPatch right after the guard is set", "the overlay's init does not chain to the original package's init: the original package-level variables and init functions never run")
	// exact equality p.state == pkgInPatch excludes the pkgFNoOldInit flag: check flag is OR-ed in when init is skipped
	okFlag := false
	ast.Inspect(np.Body, func(n ast.Node) bool {
		if is, ok := n.(*ast.IfStmt); ok {
			s := strings.ReplaceAll(exprStr(is.Cond), " ", "")
			if is.Init != nil {
				s += ";" + strings.ReplaceAll(nodeSrc(is.Init), " ", "")
				if as, ok := is.Init.(*ast.AssignStmt); ok {
					s += ";" + strings.ReplaceAll(exprStr(as.Rhs[0]), " ", "")
				}
			}
			body := strings.ReplaceAll(nodeSrc(is.Body), " ", "")
			if strings.Contains(s, `skips["init"]`) && strings.Contains(s, "ctx.skipall") && strings.Contains(body, "ctx.state|=pkgFNoOldInit") {
				okFlag = true
			}
		}
		return true
	})
	c.Check(okFlag, "R12.2", "no chain call when the overlay declares the original init absent", np.Pos(), "skips[init] or skipall -> pkgFNoOldInit", "an overlay that replaces init entirely still calls a renamed original that does not exist (undefined symbol) or vice versa")
	// (d) sequencing in NewPackageEx
	var order []string
	var loopEnd, afterPos token.Pos
	ast.Inspect(np.Body, func(n ast.Node) bool {
		switch x := n.(type) {
		case *ast.AssignStmt:
			if len(x.Lhs) == 1 && strings.ReplaceAll(exprStr(x.Lhs[0]), " ", "") == "ctx.state" && x.Tok == token.ASSIGN {
				order = append(order, "state="+exprStr(x.Rhs[0]))
			}
		case *ast.CallExpr:
			if f := calleeOf(cp.TypesInfo, x); f != nil && f.Name() == "processPkg" && len(x.Args) == 3 {
				order = append(order, "processPkg("+exprStr(x.Args[2])+")")
			}
		case *ast.ForStmt:
			if x.Cond != nil && strings.ReplaceAll(exprStr(x.Cond), " ", "") == "len(ctx.inits)>0" {
				order = append(order, "drain")
				loopEnd = x.End()
			}
		case *ast.IfStmt:
			if x.Init != nil && strings.Contains(strings.ReplaceAll(nodeText2(x.Init), " ", ""), "fn:=ctx.initAfter") {
				order = append(order, "initAfter")
				afterPos = x.Pos()
			}
		}
		return true
	})
	wantOrder := "state=pkgInPatch processPkg(patch.Alt) state=pkgHasPatch processPkg(pkg) drain initAfter"
	c.Check(strings.Join(order, " ") == wantOrder, "R12.2", "package state sequenced around the overlay and original passes", np.Pos(), wantOrder, "sequence is: "+strings.Join(order, " "))
	c.Check(afterPos > loopEnd && loopEnd != 0, "R12.2", "after-init hook runs once all deferred bodies are compiled", np.Pos(), "initAfter after the drain loop", "the after-init hook (symbol binding emitted into init) runs before bodies compiled in later rounds exist: what they reference is never initialised")
}

func nodeText2(s ast.Stmt) string {
	if as, ok := s.(*ast.AssignStmt); ok {
		return exprStr(as.Lhs[0]) + as.Tok.String() + exprStr(as.Rhs[0])
	}
	return ""
}

// ---------------------------------------------------------------------------
// C19

func checkC19(c *Ctx) (string, error) {
	w, err := loadMain(defaultCfg, "ssa", "cl", "internal/build")
	if err != nil {
		return "", err
	}
	c.use(w)
	sp, cp, bp := w.Main("ssa"), w.Main("cl"), w.Main("internal/build")
	info := sp.TypesInfo

	c.Rule("R19.1", "PyVal: every basic kind has an arm; signed integers are sign-extended to the signed constructor, unsigned ones zero-extended to the unsigned constructor; float32 widens", 14)
	c.Rule("R19.2", "pyCall: 0 arguments -> CallNoArgs, 1 non-variadic -> CallOneArg, otherwise CallFunctionObjArgs with the arguments in order and a terminating NULL", 3)
	c.Rule("R19.3", "module objects: imported once under a nil test before first use; the interpreter is started before any initialiser; symbol binding is emitted after all bodies are compiled", 4)
	c.Rule("R19.4", "shared type objects are never modified through a value (no assignment to the type fields of an Expr)", 1)
	checkC19b(c, sp)
	checkSliceDataLenPairs(c, sp)
	checkAfterInitAnchor(c, sp)
	checkPyNulTerminatedCtors(c, sp)
	checkPyCalleeSource(c, cp)

	pv := findFunc(sp, "Builder.PyVal")
	if pv == nil {
		return "", fmt.Errorf("ssa.Builder.PyVal not found")
	}
	c.nfuncs++
	v := newFnView(sp, pv)
	arms, _ := typeSwitchArms(pv)
	bc := arms["Basic"]
	seen := map[types.BasicKind]bool{}
	if bc != nil {
		var inner *ast.SwitchStmt
		for _, st := range bc.Body {
			if s, ok := st.(*ast.SwitchStmt); ok {
				inner = s
			}
		}
		if inner != nil {
			for _, cs := range inner.Body.List {
				cc := cs.(*ast.CaseClause)
				var kinds []types.BasicKind
				for _, e := range cc.List {
					if o, ok := usedObj(info, e).(*types.Const); ok {
						kv, _ := constValInt(o)
						kinds = append(kinds, types.BasicKind(kv))
						seen[types.BasicKind(kv)] = true
					}
				}
				ext, ctor := "", ""
				for _, call := range callsIn(cc) {
					name, _, ok := v.call(call)
					if !ok {
						continue
					}
					switch name {
					case "llvm.Builder.CreateSExt":
						ext = "sext"
					case "llvm.Builder.CreateZExt":
						ext = "zext"
					case "ssa.Builder.PyInt64", "ssa.Builder.PyUint64", "ssa.Builder.PyFloat", "ssa.Builder.PyBool", "ssa.Builder.PyStrExpr", "ssa.Builder.PyComplex64", "ssa.Builder.PyComplex128":
						ctor = strings.TrimPrefix(name, "ssa.Builder.")
					}
				}
				for _, k := range kinds {
					bt := types.Typ[k]
					key := "PyVal " + bt.Name()
					bi := bt.Info()
					switch {
					case bi&types.IsUnsigned != 0:
						c.Check(ctor == "PyUint64" && ext == "zext", "R19.1", key, cc.Pos(), "zext -> PyLong_FromUnsignedLongLong", fmt.Sprintf("unsigned kind converted with %s and %s: values with the top bit set arrive as huge or negative Python ints", ext, ctor))
					case bi&types.IsInteger != 0:
						c.Check(ctor == "PyInt64" && ext == "sext", "R19.1", key, cc.Pos(), "sext -> PyLong_FromLongLong", fmt.Sprintf("signed kind converted with %s and %s: negative values arrive as large positive Python ints", ext, ctor))
					case bi&types.IsFloat != 0:
						okF := ctor == "PyFloat"
						if k == types.Float32 {
							okF = okF && containsCallToName(v, cc, "ssa.castFloat")
						}
						c.Check(okF, "R19.1", key, cc.Pos(), "PyFloat_FromDouble (float32 widened first)", "float kind is not converted through a double")
					case bi&types.IsBoolean != 0:
						c.Check(ctor == "PyBool", "R19.1", key, cc.Pos(), "PyBool_FromLong", "bool converted with "+ctor)
					case bi&types.IsString != 0:
						c.Check(ctor == "PyStrExpr", "R19.1", key, cc.Pos(), "PyUnicode from (data,len)", "string converted with "+ctor)
					case bi&types.IsComplex != 0:
						c.Check(strings.HasPrefix(ctor, "PyComplex"), "R19.1", key, cc.Pos(), ctor, "complex converted with "+ctor)
					}
				}
			}
		}
	}
	for _, k := range []types.BasicKind{types.Bool, types.Int, types.Int8, types.Int16, types.Int32, types.Int64, types.Uint, types.Uint8, types.Uint16, types.Uint32, types.Uint64, types.Uintptr, types.Float32, types.Float64, types.String} {
		if !seen[k] {
			c.Bad("R19.1", "PyVal "+types.Typ[k].Name(), pv.Pos(), "no arm: converting such a value panics at compile time")
		}
	}
	// the constructors themselves
	for fn, py := range map[string]string{"Builder.PyInt64": "PyLong_FromLongLong", "Builder.PyUint64": "PyLong_FromUnsignedLongLong", "Builder.PyFloat": "PyFloat_FromDouble"} {
		fd := findFunc(sp, fn)
		ok := false
		if fd != nil {
			for _, call := range callsIn(fd.Body) {
				if f := calleeOf(info, call); f != nil && f.Name() == "pyFunc" && len(call.Args) >= 1 {
					if s, isS := constString(info, call.Args[0]); isS && s == py {
						ok = true
					}
				}
			}
		}
		c.Check(ok, "R19.1", "ssa."+fn+" -> "+py, 0, py, "constructor bound to another CPython function")
	}

	// ---------------- R19.2
	pc := findFunc(sp, "Builder.pyCall")
	if pc == nil {
		c.Bad("R19.2", "ssa.pyCall", 0, "function not found")
	} else {
		c.nfuncs++
		cases := map[string]*ast.CaseClause{}
		ast.Inspect(pc.Body, func(n ast.Node) bool {
			if sw, ok := n.(*ast.SwitchStmt); ok && sw.Tag != nil && exprStr(sw.Tag) == "n" {
				for _, cs := range sw.Body.List {
					cc := cs.(*ast.CaseClause)
					if cc.List == nil {
						cases["default"] = cc
					}
					for _, e := range cc.List {
						cases[exprStr(e)] = cc
					}
				}
			}
			return true
		})
		pyName := func(cc *ast.CaseClause) string {
			if cc == nil {
				return ""
			}
			for _, call := range callsIn(cc) {
				if f := calleeOf(info, call); f != nil && f.Name() == "pyFunc" {
					s, _ := constString(info, call.Args[0])
					return s
				}
			}
			return ""
		}
		c.Check(pyName(cases["0"]) == "PyObject_CallNoArgs", "R19.2", "pyCall arity 0", pc.Pos(), "PyObject_CallNoArgs(fn)", "zero-argument calls use "+pyName(cases["0"]))
		okOne := pyName(cases["1"]) == "PyObject_CallOneArg"
		if cc := cases["1"]; cc != nil {
			s := strings.ReplaceAll(nodeSrc(cc), " ", "") + nodeSrcCalls(cc)
			okOne = okOne && strings.Contains(s, "if !sig.Variadic()") || okOne && strings.Contains(strings.ReplaceAll(s, " ", ""), "!sig.Variadic()")
			okOne = okOne && strings.Contains(nodeSrcCalls(cc), "b.Call(call,fn,args[0])")
			// falls through to the general form for variadic
			ft := false
			for _, st := range cc.Body {
				if br, ok := st.(*ast.BranchStmt); ok && br.Tok == token.FALLTHROUGH {
					ft = true
				}
			}
			okOne = okOne && ft
		}
		c.Check(okOne, "R19.2", "pyCall arity 1", pc.Pos(), "non-variadic: PyObject_CallOneArg(fn, arg0); variadic: general form", "one-parameter callables are not dispatched on variadic-ness (a variadic call with 0 or 2 actual arguments goes through CallOneArg)")
		okGen := pyName(cases["default"]) == "PyObject_CallFunctionObjArgs"
		if cc := cases["default"]; cc != nil {
			s := strings.ReplaceAll(funcTextOf(cc), " ", "")
			okGen = okGen && strings.Contains(s, "n=len(args)") && strings.Contains(s, "callargs=make([]Expr,n+2)") && strings.Contains(s, "callargs[0]=fn") && strings.Contains(s, "callargs[n+1]=prog.Nil(prog.PyObjectPtr())") && strings.Contains(nodeSrcCalls(cc), "copy(callargs[1:],args)")
		}
		c.Check(okGen, "R19.2", "pyCall general form", pc.Pos(), "CallFunctionObjArgs(fn, args..., NULL)", "the variadic C call is not built as callable, arguments in order, NULL sentinel last (CPython reads past the argument list)")
	}

	// ---------------- R19.3
	cb := findFunc(cp, "context.compileBlock")
	okImp := false
	if cb != nil {
		ast.Inspect(cb.Body, func(n ast.Node) bool {
			if is, ok := n.(*ast.IfStmt); ok && exprStr(is.Cond) == "pyModInit" {
				s := nodeSrcCalls(is.Body)
				// load; cond = mod != nil; If(cond, jumpTo, newBlk); in newBlk: Store(modPtr, PyImportMod(path)); Jump
				i1, i2, i3, i4 := strings.Index(s, "b.Load(modPtr)"), strings.Index(s, "b.BinOp(token.NEQ,mod,"), strings.Index(s, "b.If(cond,jumpTo,newBlk)"), strings.Index(s, "b.Store(modPtr,b.PyImportMod(modPath))")
				okImp = i1 >= 0 && i2 > i1 && i3 > i2 && i4 > i3 && strings.Contains(s[i4:], "b.Jump(jumpTo)")
			}
			return true
		})
	}
	c.Check(okImp, "R19.3", "module imported once under a nil test", 0, "load; if nil { store(import) }; continue", "the module global is re-imported on every init, or used without being imported")
	// Py_Initialize first in entry (shared with C12)
	if ef := findFunc(bp, "defineEntryFunction"); ef != nil {
		seq := emittedCallSeq(ef)
		first := ""
		for _, s := range seq {
			if s == "pyInit" || s == "rtInit" || s == "abiInit" || s == "runtimeStub" || s == "mainInit" {
				first = s
				break
			}
		}
		c.Check(first == "pyInit", "R19.3", "interpreter started before any initialiser", ef.Pos(), "Py_Initialize first", "an initialiser that imports a Python module can run before Py_Initialize")
	}
	// NeedPyInit propagated: pyInit requested iff some package needs it
	okNeed := false
	for _, fd := range allFuncs(bp) {
		ast.Inspect(fd.Body, func(n ast.Node) bool {
			if as, ok := n.(*ast.AssignStmt); ok && len(as.Lhs) == 1 && strings.ReplaceAll(exprStr(as.Lhs[0]), " ", "") == "needPyInit" {
				if strings.ReplaceAll(exprStr(as.Rhs[0]), " ", "") == "needPyInit||aPkg.NeedPyInit" {
					okNeed = true
				}
			}
			return true
		})
	}
	c.Check(okNeed, "R19.3", "interpreter start requested when any package uses Python", 0, "needPyInit accumulates over packages (also for cache hits)", "NeedPyInit of a package is not propagated to the entry")
	// initAfter after drain (where the Python symbol binding is emitted)
	sub := newCtx(c.Prop, c.Tier)
	sub.fset = c.fset
	sub.Rule("R12.2", "", 0)
	checkPatchInit(sub, cp)
	for _, o := range sub.obls {
		if strings.Contains(o.Construct, "after-init hook") {
			c.add("R19.3", "python symbols bound after all bodies are compiled", 0, o.Verdict, o.Witness, true)
			c.obls[len(c.obls)-1].Pos = o.Pos
		}
	}

	// ---------------- R19.4
	n := 0
	for _, p := range []*packages.Package{sp, cp} {
		for _, fd := range allFuncs(p) {
			ast.Inspect(fd.Body, func(x ast.Node) bool {
				as, ok := x.(*ast.AssignStmt)
				if !ok {
					return true
				}
				for _, l := range as.Lhs {
					sel, ok := l.(*ast.SelectorExpr)
					if !ok || (sel.Sel.Name != "ll" && sel.Sel.Name != "kind" && sel.Sel.Name != "raw") {
						continue
					}
					t := p.TypesInfo.TypeOf(sel.X)
					if t == nil || !strings.HasSuffix(t.String(), "ssa.Expr") {
						continue
					}
					n++
					c.Bad("R19.4", fmt.Sprintf("%s.%s writes %s", strings.TrimPrefix(p.PkgPath, mainMod+"/"), declName(fd), exprStr(l)), as.Pos(), "assignment through an Expr's embedded *aType changes the cached, program-wide type object: every later use of that Go type is lowered with the new LLVM type")
				}
				return true
			})
		}
	}
	if n == 0 {
		c.OK("R19.4", "no writes through Expr to shared type objects", 0, "no assignment to .ll/.kind/.raw of an ssa.Expr in ssa or cl")
	}
	return "C19 (structural): PyVal's basic-kind arms (extension direction and CPython constructor per signedness; coverage of all basic kinds), the CPython functions the constructors bind, pyCall's dispatch by arity and variadic-ness with argument order and NULL sentinel, the import-once guard emitted into package init, interpreter start before any initialiser and propagation of the need for it, emission of symbol binding after all function bodies, and the ownership rule that shared type objects are never modified through a value. NOT decided: marshalled values, reference counts, CPython's own behaviour.", nil
}

func containsCallToName(v *fnView, n ast.Node, name string) bool {
	for _, call := range callsIn(n) {
		if nm, _, ok := v.call(call); ok && nm == name {
			return true
		}
	}
	return false
}

func funcTextOf(n ast.Node) string {
	var parts []string
	ast.Inspect(n, func(x ast.Node) bool {
		if as, ok := x.(*ast.AssignStmt); ok {
			for i := range as.Lhs {
				if i < len(as.Rhs) {
					parts = append(parts, exprStr(as.Lhs[i])+"="+exprStr(as.Rhs[i]))
				}
			}
		}
		return true
	})
	return strings.Join(parts, ";")
}

func init() {
	addMutant(Mutant{Prop: "C12", Name: "entry-main-init-before-runtime", File: "internal/build/main_module.go", Old: "\tb.Call(runtimeStub.Expr)\n\tb.Call(mainInit.Expr)\n", New: "\tb.Call(mainInit.Expr)\n\tb.Call(runtimeStub.Expr)\n", Expect: "R12.1 entry call order"})
	addMutant(Mutant{Prop: "C12", Name: "entry-hooks-swapped-at-call", File: "internal/build/main_module.go", Old: "runtimeStub, mainInit, mainMain, pyInit, rtInit, abiInit)", New: "runtimeStub, mainMain, mainInit, pyInit, rtInit, abiInit)", Expect: "R12.1 entry hooks passed in parameter order"})
	addMutant(Mutant{Prop: "C12", Name: "entry-main-bound-to-init", File: "internal/build/main_module.go", Old: "mainMain := declareNoArgFunc(mainPkg, pkg.PkgPath+\".main\")", New: "mainMain := declareNoArgFunc(mainPkg, pkg.PkgPath+\".init\")", Expect: "R12.1 entry symbol mainMain"})
	addMutant(Mutant{Prop: "C12", Name: "body-state-not-restored", File: "cl/compile.go", Old: "\t\t\tp.state = state // restore pkgState when compiling funcBody\n", New: "", Expect: "R12.2 deferred function bodies"})
	addMutant(Mutant{Prop: "C12", Name: "chain-call-in-wrong-state", File: "cl/compile.go", Old: "if i == 1 && doModInit && p.state == pkgInPatch {", New: "if i == 1 && doModInit && p.state == pkgHasPatch {", Expect: "R12.2 overlay init calls the renamed original init"})
	addMutant(Mutant{Prop: "C12", Name: "initafter-inside-drain", File: "cl/compile.go", Old: "\t\tfor _, ini := range inits {\n\t\t\tini()\n\t\t}\n\t}\n\tif fn := ctx.initAfter; fn != nil {\n\t\tctx.initAfter = nil\n\t\tfn()\n\t}\n", New: "\t\tfor _, ini := range inits {\n\t\t\tini()\n\t\t}\n\t\tif fn := ctx.initAfter; fn != nil {\n\t\t\tctx.initAfter = nil\n\t\t\tfn()\n\t\t}\n\t}\n", Expect: "R12.2 after-init hook"})
	addMutant(Mutant{Prop: "C19", Name: "pyval-merged-sext", File: "ssa/python.go", Old: "v = Expr{llvm.CreateZExt(b.impl, v.impl, typ.ll), typ}", New: "v = Expr{llvm.CreateSExt(b.impl, v.impl, typ.ll), typ}", Expect: "R19.1 PyVal uint8"})
	addMutant(Mutant{Prop: "C19", Name: "pycall-no-sentinel", File: "ssa/python.go", Old: "\t\tcallargs := make([]Expr, n+2)\n\t\tcallargs[0] = fn\n\t\tcopy(callargs[1:], args)\n\t\tcallargs[n+1] = prog.Nil(prog.PyObjectPtr())", New: "\t\tcallargs := make([]Expr, n+1)\n\t\tcallargs[0] = fn\n\t\tcopy(callargs[1:], args)", Expect: "R19.2 pyCall general form"})
	addMutant(Mutant{Prop: "C19", Name: "pycall-onearg-variadic", File: "ssa/python.go", Old: "\t\tif !sig.Variadic() {\n\t\t\tcall := pkg.pyFunc(\"PyObject_CallOneArg\", prog.tyCallOneArg())\n\t\t\treturn b.Call(call, fn, args[0])\n\t\t}\n\t\tfallthrough", New: "\t\tif len(args) == 1 {\n\t\t\tcall := pkg.pyFunc(\"PyObject_CallOneArg\", prog.tyCallOneArg())\n\t\t\treturn b.Call(call, fn, args[0])\n\t\t}\n\t\tfallthrough", Expect: "R19.2 pyCall arity 1"})
	addMutant(Mutant{Prop: "C19", Name: "pyval-mutates-shared-type", File: "ssa/python.go", Old: "v = Expr{llvm.CreateSExt(b.impl, v.impl, typ.ll), typ}", New: "v.impl = llvm.CreateSExt(b.impl, v.impl, typ.ll)\n\t\t\t\tv.ll = typ.ll", Expect: "R19.4"})
	addMutant(Mutant{Prop: "C19", Name: "initafter-inside-drain", File: "cl/compile.go", Old: "\t\tfor _, ini := range inits {\n\t\t\tini()\n\t\t}\n\t}\n\tif fn := ctx.initAfter; fn != nil {\n\t\tctx.initAfter = nil\n\t\tfn()\n\t}\n", New: "\t\tfor _, ini := range inits {\n\t\t\tini()\n\t\t}\n\t\tif fn := ctx.initAfter; fn != nil {\n\t\t\tctx.initAfter = nil\n\t\t\tfn()\n\t\t}\n\t}\n", Expect: "R19.3 python symbols bound"})
}
