package main

// Engine E7 (descriptor layout): the ordered value lists the compiler writes for run-time type
// descriptors (ssa/abitype.go) against the struct declarations the runtime reads them through (runtime/abi).

import (
	"fmt"
	"go/ast"
	"go/types"
	"strings"

	"golang.org/x/tools/go/packages"
)

// shapeOfField classifies a runtime struct field type.
func shapeOfField(t types.Type) string {
	switch u := t.Underlying().(type) {
	case *types.Basic:
		switch u.Kind() {
		case types.Uintptr:
			return "int:Uintptr"
		case types.Uint32:
			return "int:Uint32"
		case types.Uint16:
			return "int:Uint16"
		case types.Uint8:
			return "int:Byte"
		case types.Int:
			return "int:Int"
		case types.Int32:
			return "int:Int32"
		case types.Bool:
			return "bool"
		case types.String:
			return "string"
		case types.UnsafePointer:
			return "ptr"
		}
	case *types.Pointer:
		return "ptr"
	case *types.Signature:
		return "func"
	case *types.Slice:
		return "slice"
	}
	return "?" + t.String()
}

// shapeOfValue classifies an emitted descriptor value.
func shapeOfValue(v *fnView, e ast.Expr) string {
	r := v.res(e)
	if sel, ok := r.(*ast.SelectorExpr); ok && sel.Sel.Name == "impl" {
		r = v.res(sel.X)
	}
	name, args, ok := v.call(r)
	if !ok {
		// equal / hasher variables assigned in several branches
		if id, isId := ast.Unparen(r).(*ast.Ident); isId {
			shapes := map[string]bool{}
			for _, d := range v.allDefs(id) {
				if d != nil {
					shapes[shapeOfValue(v, d)] = true
				}
			}
			if len(shapes) == 1 {
				for s := range shapes {
					return s
				}
			}
			if t := v.info.TypeOf(id); t != nil && strings.HasSuffix(t.String(), "ssa.Expr") {
				// closure-shaped values (equal/hasher): {fn, env} aggregates or rtClosure
				all := true
				for s := range shapes {
					if s != "func" && s != "ptr" {
						all = false
					}
				}
				if all && len(shapes) > 0 {
					return "func"
				}
			}
		}
		return "?" + exprStr(r)
	}
	switch name {
	case "ssa.Program.IntVal":
		if len(args) == 2 {
			if n2, _, ok := v.call(args[1]); ok && strings.HasPrefix(n2, "ssa.Program.") {
				return "int:" + strings.TrimPrefix(n2, "ssa.Program.")
			}
		}
	case "ssa.Program.BoolVal":
		return "bool"
	case "ssa.Builder.Str":
		return "string"
	case "ssa.Builder.abiType":
		return "ptr"
	case "ssa.Program.Nil":
		if len(args) == 1 {
			if n2, a2, ok := v.call(args[0]); ok && n2 == "ssa.Program.Type" && len(a2) >= 1 {
				if id, ok := ast.Unparen(a2[0]).(*ast.Ident); ok && (id.Name == "equalFunc" || id.Name == "hashFunc") {
					return "func"
				}
			}
		}
		return "ptr"
	case "ssa.Builder.abiTuples", "ssa.Builder.abiStructFields", "ssa.Builder.abiInterfaceImethods":
		return "slice"
	case "ssa.Builder.aggregateValue", "ssa.Builder.rtClosure", "ssa.Package.rtFunc":
		return "func"
	case "ssa.Builder.abiMethodFunc":
		return "ptr"
	}
	return "?" + name
}

type descWriter struct {
	fn      string // function in ssa
	list    string // name of the slice variable appended to
	rtType  string // runtime/abi struct
	skipEmb bool   // skip the embedded Type field
	roles   map[string]string // runtime field -> substring the producing expression must contain
}

func structFields(st *types.Struct, skipEmbedded bool) []*types.Var {
	var out []*types.Var
	for i := 0; i < st.NumFields(); i++ {
		f := st.Field(i)
		if skipEmbedded && f.Embedded() && f.Name() == "Type" {
			continue
		}
		out = append(out, f)
	}
	return out
}

// appendChain returns, in source order, the expressions appended to variable `list` in fd.
// An if/else whose two branches each append once counts as one position with two alternatives.
func appendChain(fd *ast.FuncDecl, list string) [][]ast.Expr {
	var out [][]ast.Expr
	var walk func(stmts []ast.Stmt)
	appendsOf := func(s ast.Stmt) []ast.Expr {
		as, ok := s.(*ast.AssignStmt)
		if !ok || len(as.Lhs) != 1 || exprStr(as.Lhs[0]) != list || len(as.Rhs) != 1 {
			return nil
		}
		call, ok := as.Rhs[0].(*ast.CallExpr)
		if !ok || len(call.Args) < 2 {
			return nil
		}
		if id, ok := call.Fun.(*ast.Ident); !ok || id.Name != "append" || exprStr(call.Args[0]) != list {
			return nil
		}
		return call.Args[1:]
	}
	walk = func(stmts []ast.Stmt) {
		for _, s := range stmts {
			if a := appendsOf(s); a != nil {
				for _, e := range a {
					out = append(out, []ast.Expr{e})
				}
				continue
			}
			switch x := s.(type) {
			case *ast.IfStmt:
				if els, ok := x.Else.(*ast.BlockStmt); ok && len(x.Body.List) == 1 && len(els.List) == 1 {
					a1, a2 := appendsOf(x.Body.List[0]), appendsOf(els.List[0])
					if len(a1) == 1 && len(a2) == 1 {
						out = append(out, []ast.Expr{a1[0], a2[0]})
						continue
					}
				}
				if x.Else == nil {
					walk(x.Body.List)
				}
			case *ast.ForStmt:
				walk(x.Body.List)
			case *ast.BlockStmt:
				walk(x.List)
			}
		}
	}
	walk(fd.Body.List)
	return out
}

func checkDescriptorLayout(c *Ctx, rule string, sp *packages.Package, abiP *packages.Package) {
	writers := []descWriter{
		{"Builder.abiCommonFields", "fields", "Type", false, map[string]string{"Size_": "ab.Size(t)", "PtrBytes": "ab.PtrBytes(t)", "Hash": "hash", "TFlag": "tflag", "Align_": "ab.Align(t)", "FieldAlign_": "ab.FieldAlign(t)", "Kind_": "kind", "Str_": "ab.Str(t)"}},
		{"Builder.abiStructFields", "values", "StructField", false, map[string]string{"Name_": "f.Name()", "Typ": "f.Type()", "Offset": "OffsetOf(typ, i)", "Tag_": "t.Tag(i)", "Embedded_": "f.Embedded()"}},
		{"Builder.abiInterfaceImethods", "values", "Imethod", false, map[string]string{"Name_": "name", "Typ_": "ftyp"}},
		{"Builder.abiUncommonType", "fields", "UncommonType", false, map[string]string{"PkgPath_": "pkgPath", "Mcount": "mcount", "Xcount": "xcount", "Moff": "moff"}},
		{"Builder.abiUncommonMethods", "values", "Method", false, map[string]string{"Name_": "name", "Mtyp_": "ftyp", "Ifn_": "ifn", "Tfn_": "tfn"}},
	}
	for _, w := range writers {
		fd := findFunc(sp, w.fn)
		st := structOf(lookupNamed(abiP.Types, w.rtType))
		if fd == nil || st == nil {
			c.Bad(rule, "descriptor "+w.rtType, 0, "writer ssa."+w.fn+" or runtime abi."+w.rtType+" not found")
			continue
		}
		c.nfuncs++
		v := newFnView(sp, fd)
		chain := appendChain(fd, w.list)
		fields := structFields(st, w.skipEmb)
		if len(chain) != len(fields) {
			c.Bad(rule, "descriptor "+w.rtType+" field count", fd.Pos(), fmt.Sprintf("compiler writes %d values, runtime abi.%s has %d fields: every later field is read at the wrong offset", len(chain), w.rtType, len(fields)))
			continue
		}
		for i, f := range fields {
			want := shapeOfField(f.Type())
			key := fmt.Sprintf("descriptor %s.%s", w.rtType, f.Name())
			ok := true
			got := ""
			for _, alt := range chain[i] {
				got = shapeOfValue(v, alt)
				if got != want && !(want == "ptr" && got == "func") {
					ok = false
				}
			}
			if !ok {
				c.Bad(rule, key, chain[i][0].Pos(), fmt.Sprintf("value #%d is emitted as %s, the runtime reads field %s as %s", i+1, got, f.Name(), want))
				continue
			}
			if sub, has := w.roles[f.Name()]; has {
				txt := exprStr(v.res(chain[i][0]))
				raw := exprStr(chain[i][0])
				if !strings.Contains(strings.ReplaceAll(txt, " ", ""), strings.ReplaceAll(sub, " ", "")) && !strings.Contains(strings.ReplaceAll(raw, " ", ""), strings.ReplaceAll(sub, " ", "")) && !defMentions(v, chain[i][0], sub, 0) {
					c.Bad(rule, key, chain[i][0].Pos(), fmt.Sprintf("value #%d (%s) is not produced from %s: field %s receives another attribute", i+1, raw, sub, f.Name()))
					continue
				}
			}
			c.OK(rule, key, chain[i][0].Pos(), "position "+fmt.Sprint(i+1)+" "+want)
		}
	}
	// extended fields per kind
	ext := findFunc(sp, "Builder.abiExtendedFields")
	if ext == nil {
		c.Bad(rule, "descriptor extended fields", 0, "ssa.Builder.abiExtendedFields not found")
		return
	}
	c.nfuncs++
	v := newFnView(sp, ext)
	kindStruct := map[string]string{"Pointer": "PtrType", "Chan": "ChanType", "Slice": "SliceType", "Array": "ArrayType", "Map": "MapType", "Signature": "FuncType", "Struct": "StructType", "Interface": "InterfaceType"}
	extRoles := map[string]map[string]string{
		"MapType":   {"Key": "t.Key()", "Elem": "t.Elem()", "Bucket": "bucket", "Hasher": "hasher", "KeySize": "keySize", "ValueSize": "elemSize", "BucketSize": "Size(bucket)", "Flags": "flags"},
		"ArrayType": {"Elem": "elem", "Slice": "NewSlice(elem)", "Len": "t.Len()"},
		"ChanType":  {"Elem": "t.Elem()", "Dir": "dir"},
		"FuncType":  {"In": "t.Params()", "Out": "t.Results()"},
	}
	seen := map[string]bool{}
	ast.Inspect(ext.Body, func(n ast.Node) bool {
		cc, ok := n.(*ast.CaseClause)
		if !ok || len(cc.List) != 1 {
			return true
		}
		kind := strings.TrimPrefix(exprStr(cc.List[0]), "*types.")
		rt, known := kindStruct[kind]
		if !known {
			return true
		}
		seen[kind] = true
		st := structOf(lookupNamed(abiP.Types, rt))
		if st == nil {
			c.Bad(rule, "descriptor "+rt, cc.Pos(), "runtime abi."+rt+" not found")
			return true
		}
		var lit *ast.CompositeLit
		for _, s := range cc.Body {
			if as, ok := s.(*ast.AssignStmt); ok && len(as.Lhs) == 1 && exprStr(as.Lhs[0]) == "fields" {
				if cl, ok := as.Rhs[0].(*ast.CompositeLit); ok {
					lit = cl
				}
			}
		}
		if lit == nil {
			c.Undecided(rule, "descriptor "+rt, cc.Pos(), "no fields = []llvm.Value{...} literal in the "+kind+" arm")
			return true
		}
		fields := structFields(st, true)
		if len(lit.Elts) != len(fields) {
			c.Bad(rule, "descriptor "+rt+" field count", lit.Pos(), fmt.Sprintf("compiler writes %d values, runtime abi.%s has %d fields after the common header", len(lit.Elts), rt, len(fields)))
			return true
		}
		for i, f := range fields {
			want := shapeOfField(f.Type())
			got := shapeOfValue(v, lit.Elts[i])
			key := fmt.Sprintf("descriptor %s.%s", rt, f.Name())
			if got != want && !(want == "ptr" && got == "func") && !(want == "func" && got == "ptr") {
				c.Bad(rule, key, lit.Elts[i].Pos(), fmt.Sprintf("value #%d is emitted as %s, the runtime reads field %s as %s", i+1, got, f.Name(), want))
				continue
			}
			if sub, has := extRoles[rt][f.Name()]; has {
				raw := strings.ReplaceAll(exprStr(lit.Elts[i]), " ", "")
				if !strings.Contains(raw, strings.ReplaceAll(sub, " ", "")) && !defMentions(v, lit.Elts[i], sub, 0) {
					c.Bad(rule, key, lit.Elts[i].Pos(), fmt.Sprintf("value #%d (%s) is not produced from %s", i+1, exprStr(lit.Elts[i]), sub))
					continue
				}
			}
			c.OK(rule, key, lit.Elts[i].Pos(), "position "+fmt.Sprint(i+1)+" "+want)
		}
		return true
	})
	for kind, rt := range kindStruct {
		if !seen[kind] {
			c.Bad(rule, "descriptor "+rt, ext.Pos(), "no arm for *types."+kind+" in abiExtendedFields: the kind-specific part of the descriptor is missing")
		}
	}
}

// defMentions: some identifier inside e has a (transitive) definition whose text contains sub.
func defMentions(v *fnView, e ast.Expr, sub string, depth int) bool {
	if depth > 4 {
		return false
	}
	sub = strings.ReplaceAll(sub, " ", "")
	found := false
	ast.Inspect(e, func(n ast.Node) bool {
		id, ok := n.(*ast.Ident)
		if !ok || found {
			return !found
		}
		for _, d := range v.allDefs(id) {
			if d == nil {
				continue
			}
			if strings.Contains(strings.ReplaceAll(exprStr(d), " ", ""), sub) || defMentions(v, d, sub, depth+1) {
				found = true
			}
		}
		return !found
	})
	return found
}
