package main

import (
	"fmt"
	"go/ast"
	"go/constant"
	"go/types"
	"strings"

	"golang.org/x/tools/go/packages"
)

// checkRecvSlots (R10.8): runtime.ChanRecv / chanTryRecv leave the destination untouched when the channel is
// closed and drained; "receive from a closed channel yields the zero value" therefore relies on the compiler
// handing over a zero-initialised slot.
func checkRecvSlots(c *Ctx, sp *packages.Package) {
	c.Rule("R10.8", "every receive destination the compiler hands to the runtime (ChanRecv, receive cases of select) is a zero-initialised slot", 2)
	zeroing := func(v *fnView, e ast.Expr) (bool, string) {
		defs := v.allDefs(e)
		if len(defs) == 0 {
			defs = []ast.Expr{e}
		}
		for _, d := range defs {
			if d == nil {
				return false, "opaque definition"
			}
			name, args, ok := v.call(d)
			if !ok || name != "ssa.Builder.Alloc" || len(args) != 2 {
				return false, "slot comes from " + exprStr(d) + ", not from the zero-initialising Builder.Alloc"
			}
		}
		return true, ""
	}
	// Recv
	if fd := findFunc(sp, "Builder.Recv"); fd == nil {
		c.Undecided("R10.8", "ssa.Builder.Recv", 0, "function not found")
	} else {
		c.nfuncs++
		v := newFnView(sp, fd)
		calls := v.findRTCalls(fd.Body, "ChanRecv")
		if len(calls) == 0 {
			c.Undecided("R10.8", "ssa.Builder.Recv slot", fd.Pos(), "ChanRecv call not found")
		}
		for i, call := range calls {
			_, args, _ := v.rtCall(call)
			key := fmt.Sprintf("ssa.Builder.Recv slot of ChanRecv#%d", i+1)
			if len(args) < 2 {
				c.Undecided("R10.8", key, call.Pos(), "unexpected arguments")
				continue
			}
			ok, why := zeroing(v, args[1])
			c.Check(ok, "R10.8", key, call.Pos(), "Builder.Alloc (zeroing)", why+": a receive from a closed, drained channel returns stack garbage instead of the zero value")
		}
	}
	// select receive cases
	if fd := findFunc(sp, "Builder.chanOp"); fd == nil {
		c.Undecided("R10.8", "ssa.Builder.chanOp", 0, "function not found")
	} else {
		c.nfuncs++
		v := newFnView(sp, fd)
		n := 0
		ast.Inspect(fd.Body, func(x ast.Node) bool {
			as, ok := x.(*ast.AssignStmt)
			if !ok || len(as.Lhs) != 1 || exprStr(as.Lhs[0]) != "val" {
				return true
			}
			// receive arm: the assignment is on the false side of `s.Send`
			recv := false
			for _, cp := range pathConds(fd.Body, as) {
				if strings.ReplaceAll(exprStr(cp.cond), " ", "") == "s.Send" && !cp.pol {
					recv = true
				}
			}
			if !recv {
				return true
			}
			n++
			name, args, isCall := v.call(as.Rhs[0])
			ok2 := isCall && name == "ssa.Builder.Alloc" && len(args) == 2
			c.Check(ok2, "R10.8", fmt.Sprintf("ssa.Builder.chanOp receive slot #%d", n), as.Pos(), "Builder.Alloc (zeroing)", "select receive slot comes from "+exprStr(as.Rhs[0])+": r_i must be the zero value when the case is not chosen or the channel is closed")
			return true
		})
		if n == 0 {
			c.Undecided("R10.8", "ssa.Builder.chanOp receive slot", fd.Pos(), "receive arm not found")
		}
	}
}

// checkSelfRendezvous (R10.9): a select that both sends and receives on one channel must not pair its receive
// with its own registered send.  Every receive probe that accepts select-senders gets the select's own send
// channels to exclude; each order probes both directions once.
func checkSelfRendezvous(c *Ctx, rp *packages.Package) {
	c.Rule("R10.9", "a select never pairs with itself: every receive probe that accepts registered select-senders is given the select's own send-channel set, and each probing order covers both directions", 3)
	info := rp.TypesInfo
	fd := findFunc(rp, "trySelect")
	if fd == nil {
		c.Undecided("R10.9", "runtime.trySelect", 0, "function not found")
		return
	}
	c.nfuncs++
	ownSet := ""
	if ps := fd.Type.Params.List; len(ps) > 0 {
		last := ps[len(ps)-1]
		ownSet = last.Names[len(last.Names)-1].Name
	}
	type probe struct {
		send, accept bool
		set          string
		call         *ast.CallExpr
		branch       int // 1: under the ordering condition, 0: otherwise
	}
	var probes []probe
	for _, call := range callsIn(fd.Body) {
		if f := calleeOf(info, call); f == nil || f.Name() != "trySelectDir" || len(call.Args) != 4 {
			continue
		}
		s, ok1 := constBool(info, call.Args[1])
		a, ok2 := constBool(info, call.Args[2])
		if !ok1 || !ok2 {
			c.Undecided("R10.9", "runtime.trySelect probe arguments", call.Pos(), "direction/accept arguments are not constants: "+exprStr(call))
			return
		}
		br := 0
		for _, cp := range pathConds(fd.Body, call) {
			if cp.pol {
				br = 1
			}
		}
		probes = append(probes, probe{s, a, exprStr(call.Args[3]), call, br})
	}
	if len(probes) < 4 {
		c.Undecided("R10.9", "runtime.trySelect probes", fd.Pos(), fmt.Sprintf("%d trySelectDir calls found, expected 4", len(probes)))
		return
	}
	n := 0
	for _, p := range probes {
		if p.send || !p.accept {
			continue
		}
		n++
		c.Check(p.set == ownSet, "R10.9", fmt.Sprintf("runtime.trySelect accepting receive probe #%d excludes own sends", n), p.call.Pos(), "trySelectDir(ops, false, true, "+ownSet+")",
			"a receive probe that accepts registered select-senders is called with "+p.set+" instead of the select's own send channels: a select with a send and a receive case on one unbuffered channel rendezvouses with its own registration and blocks forever")
	}
	if n == 0 {
		c.Undecided("R10.9", "runtime.trySelect accepting receive probe", fd.Pos(), "no receive probe accepts select-senders")
	}
	for br := 0; br <= 1; br++ {
		var dirs []bool
		for _, p := range probes {
			if p.branch == br {
				dirs = append(dirs, p.send)
			}
		}
		ok := len(dirs) == 2 && dirs[0] != dirs[1]
		name := "receive-first"
		if br == 1 {
			name = "send-first"
			ok = ok && dirs[0]
		} else {
			ok = ok && !dirs[0]
		}
		c.Check(ok, "R10.9", "runtime.trySelect "+name+" order probes each direction once", fd.Pos(), "two probes, opposite directions, in the announced order", fmt.Sprintf("probes %v: a direction is probed twice or not at all", dirs))
	}
	// trySelectDir: the exclusion is applied to the accept flag handed to chanTryRecv
	if dd := findFunc(rp, "trySelectDir"); dd != nil {
		ok := false
		for _, call := range callsIn(dd.Body) {
			if f := calleeOf(info, call); f != nil && f.Name() == "chanTryRecv" && len(call.Args) == 4 {
				flag := exprStr(call.Args[3])
				ast.Inspect(dd.Body, func(x ast.Node) bool {
					is, isIf := x.(*ast.IfStmt)
					if !isIf || !strings.Contains(strings.ReplaceAll(exprStr(is.Cond), " ", ""), "sendChans[op.C]") {
						return true
					}
					for _, st := range is.Body.List {
						if as, isAs := st.(*ast.AssignStmt); isAs && len(as.Lhs) == 1 && exprStr(as.Lhs[0]) == flag {
							if bv, isC := constBool(info, as.Rhs[0]); isC && !bv {
								ok = true
							}
						}
					}
					return true
				})
			}
		}
		c.Check(ok, "R10.9", "runtime.trySelectDir clears the accept flag for own send channels", dd.Pos(), "accept = false when sendChans[op.C]", "the own-send exclusion does not reach chanTryRecv")
	}
}

func constBool(info *types.Info, e ast.Expr) (bool, bool) {
	if tv, ok := info.Types[e]; ok && tv.Value != nil && tv.Value.Kind() == constant.Bool {
		return constant.BoolVal(tv.Value), true
	}
	return false, false
}

func init() {
	addMutant(Mutant{Prop: "C10", Name: "recv-commaok-unzeroed-slot", File: "ssa/datastruct.go",
		Old: "\tetyp := prog.Elem(ch.Type)\n\tptr := b.Alloc(etyp, false)\n\tok := b.InlineCall(b.Pkg.rtFunc(\"ChanRecv\"), ch, ptr, eltSize)",
		New: "\tetyp := prog.Elem(ch.Type)\n\tptr := b.AllocaT(etyp)\n\tok := b.InlineCall(b.Pkg.rtFunc(\"ChanRecv\"), ch, ptr, eltSize)", Expect: "R10.8 ssa.Builder.Recv"})
	addMutant(Mutant{Prop: "C10", Name: "select-recvfirst-args-swapped", File: "runtime/internal/runtime/z_chan.go",
		Old: "\tif isel, recvOK, tryOK = trySelectDir(ops, false, true, sendChans); tryOK {\n\t\treturn\n\t}\n\treturn trySelectDir(ops, true, true, nil)",
		New: "\tif isel, recvOK, tryOK = trySelectDir(ops, false, true, nil); tryOK {\n\t\treturn\n\t}\n\treturn trySelectDir(ops, true, true, sendChans)", Expect: "R10.9 runtime.trySelect accepting receive probe"})
}

// checkSelectNotifyOrder (R10.10): the sleeper re-tests `sem` under the mutex and then waits on the condition
// variable; the waker must set `sem` before it signals, otherwise a waker that runs between the test and the
// wait signals nobody and the flag it sets afterwards is not seen until another wake-up arrives.
func checkSelectNotifyOrder(c *Ctx, rp *packages.Package) {
	c.Rule("R10.10", "selectOp.notify publishes the wake-up flag before it signals the condition variable", 1)
	fd := findFunc(rp, "selectOp.notify")
	if fd == nil {
		c.Undecided("R10.10", "runtime.selectOp.notify", 0, "function not found")
		return
	}
	c.nfuncs++
	info := rp.TypesInfo
	g := buildCFG(rp, fd)
	isSet := func(n ast.Node) bool {
		as, ok := n.(*ast.AssignStmt)
		if !ok || len(as.Lhs) != 1 || !strings.HasSuffix(exprStr(as.Lhs[0]), ".sem") {
			return false
		}
		bv, isC := constBool(info, as.Rhs[0])
		return isC && bv
	}
	isWake := func(n ast.Node) bool {
		return nodeHas(n, func(x ast.Node) bool {
			call, ok := x.(*ast.CallExpr)
			if !ok {
				return false
			}
			se, ok := call.Fun.(*ast.SelectorExpr)
			return ok && (se.Sel.Name == "Signal" || se.Sel.Name == "Broadcast")
		})
	}
	hit, reached := g.reach(g.entry(), isSet, isWake, false, nil)
	c.Check(!reached, "R10.10", "runtime.selectOp.notify sets sem before signalling", fd.Pos(), "sem = true on every path to Signal", "the condition variable is signalled ("+c.posStr(posOf(hit))+") before sem is set: a select that has tested sem and is about to wait misses the wake-up and sleeps although its channel is ready")
}

func init() {
	addMutant(Mutant{Prop: "C10", Name: "notify-signal-before-flag", File: "runtime/internal/runtime/z_chan.go",
		Old: "\tp.mutex.Lock()\n\tp.sem = true\n\tp.mutex.Unlock()\n\tp.cond.Signal()", New: "\tp.cond.Signal()\n\tp.mutex.Lock()\n\tp.sem = true\n\tp.mutex.Unlock()", Expect: "R10.10"})
}
