package main

import (
	"fmt"
	"os"
	"path/filepath"
	"runtime"
	"sort"
	"strings"
)

// Mutant is a seeded change applied in memory (packages.Config.Overlay) to prove a rule fires.
type Mutant struct {
	Prop   string
	Name   string
	File   string // relative to /repo
	Old    string // must occur exactly once
	New    string
	Expect string // substring of the key (rule + construct) that must become non-discharged
}

var mutants []Mutant

func addMutant(m Mutant) { mutants = append(mutants, m) }

// runMutants analyses every mutant of a property; returns count and the names not detected.
func runMutants(id string) (int, []string) {
	base, _, err := runOnly(id, "quick")
	if err != nil {
		return 0, []string{"baseline: " + err.Error()}
	}
	baseProblems := base.problems()
	var failed []string
	n := 0
	for _, m := range mutants {
		if m.Prop != id {
			continue
		}
		status, detail := runMutant(m, baseProblems)
		fmt.Printf("  mutant %-4s %-40s %s %s\n", m.Prop, m.Name, status, detail)
		if status == "STALE" {
			continue
		}
		n++
		if status != "DETECTED" {
			failed = append(failed, m.Name+": "+detail)
		}
		runtime.GC()
	}
	return n, failed
}

func runMutant(m Mutant, baseProblems map[string]Obligation) (string, string) {
	abs := filepath.Join(repoDir, m.File)
	src, err := os.ReadFile(abs)
	if err != nil {
		return "STALE", err.Error()
	}
	if strings.Count(string(src), m.Old) != 1 {
		return "STALE", fmt.Sprintf("anchor text occurs %d times in %s", strings.Count(string(src), m.Old), m.File)
	}
	overlay = map[string][]byte{abs: []byte(strings.Replace(string(src), m.Old, m.New, 1))}
	defer func() { overlay = nil }()
	c, _, err := runOnly(m.Prop, "quick")
	if err != nil {
		// a mutant that does not type-check is not a valid mutant
		return "INVALID", "mutant does not load: " + firstLine(err.Error())
	}
	var hits []string
	for k, o := range c.problems() {
		if _, inBase := baseProblems[k]; inBase {
			continue
		}
		if strings.Contains(k, m.Expect) {
			hits = append(hits, o.Verdict+" "+k)
		}
	}
	// a min_instances failure of the expected rule also counts as detection
	sort.Strings(hits)
	if len(hits) > 0 {
		return "DETECTED", hits[0]
	}
	var others []string
	for k := range c.problems() {
		if _, inBase := baseProblems[k]; !inBase {
			others = append(others, k)
		}
	}
	sort.Strings(others)
	return "MISSED", fmt.Sprintf("expected a report containing %q; new reports: %v", m.Expect, others)
}

func firstLine(s string) string {
	if i := strings.IndexByte(s, '\n'); i >= 0 {
		return s[:i]
	}
	return s
}

func selftest(ids []string) int {
	if len(ids) == 0 {
		seen := map[string]bool{}
		for _, m := range mutants {
			if !seen[m.Prop] {
				seen[m.Prop] = true
				ids = append(ids, m.Prop)
			}
		}
		sort.Strings(ids)
	}
	rc := 0
	for _, id := range ids {
		fmt.Printf("selftest %s\n", id)
		n, failed := runMutants(id)
		fmt.Printf("selftest %s: %d mutants, %d not detected\n", id, n, len(failed))
		for _, f := range failed {
			fmt.Println("  NOT DETECTED:", f)
			rc = 1
		}
	}
	return rc
}
