package main

import (
	"fmt"
	"go/ast"
	"go/token"
	"go/types"
	"strings"

	"golang.org/x/tools/go/packages"
)

// checkIDCounters: a counter field (next*) whose value is taken as an identifier must be advanced on every
// returning path after the read; otherwise two defer statements (or two condition bits) share one identifier.
func checkIDCounters(c *Ctx, sp *packages.Package) {
	c.Rule("R04.7", "identifier counters of the defer machinery: after a counter is read as an id (defer statement id, condition bit), it is advanced on every returning path, so that no two defer statements share an id", 2)
	info := sp.TypesInfo
	isCounter := func(e ast.Expr) (string, bool) {
		se, ok := ast.Unparen(e).(*ast.SelectorExpr)
		if !ok {
			return "", false
		}
		v, ok := info.Uses[se.Sel].(*types.Var)
		if !ok || !v.IsField() || !strings.HasPrefix(v.Name(), "next") || len(v.Name()) < 5 {
			return "", false
		}
		if b, ok := v.Type().Underlying().(*types.Basic); !ok || b.Info()&types.IsInteger == 0 {
			return "", false
		}
		return strings.ReplaceAll(exprStr(se), " ", ""), true
	}
	n := 0
	for _, fd := range allFuncs(sp) {
		if !strings.HasSuffix(sp.Fset.Position(fd.Pos()).Filename, "eh.go") {
			continue
		}
		type read struct {
			e    ast.Expr
			name string
		}
		var reads []read
		incs := map[ast.Node]string{}
		skip := map[ast.Expr]bool{}
		ast.Inspect(fd.Body, func(x ast.Node) bool {
			switch s := x.(type) {
			case *ast.IncDecStmt:
				if nm, ok := isCounter(s.X); ok && s.Tok == token.INC {
					incs[s] = nm
					skip[ast.Unparen(s.X)] = true
				}
			case *ast.AssignStmt:
				for _, l := range s.Lhs {
					if _, ok := isCounter(l); ok {
						skip[ast.Unparen(l)] = true
						if s.Tok == token.ADD_ASSIGN {
							nm, _ := isCounter(l)
							incs[s] = nm
						}
					}
				}
			}
			return true
		})
		ast.Inspect(fd.Body, func(x ast.Node) bool {
			if e, ok := x.(ast.Expr); ok {
				if nm, isC := isCounter(e); isC && !skip[ast.Unparen(e)] {
					if _, isSel := e.(*ast.SelectorExpr); isSel {
						reads = append(reads, read{e, nm})
					}
				}
			}
			return true
		})
		if len(reads) == 0 {
			continue
		}
		g := buildCFG(sp, fd)
		for i, r := range reads {
			// a read that is only compared (bounds test) does not take an id
			if be := enclosingBinaryCmp(fd.Body, r.e); be {
				continue
			}
			n++
			key := fmt.Sprintf("ssa.%s takes %s as id (#%d)", declName(fd), r.name, i+1)
			pos, ok := g.nodePos(r.e)
			if !ok {
				c.Undecided("R04.7", key, r.e.Pos(), "read not located in the CFG")
				continue
			}
			isInc := func(nd ast.Node) bool { return incs[nd] == r.name }
			_, escapes := g.reach(pos.after(), isInc, nil, true, nil)
			c.Check(!escapes, "R04.7", key, r.e.Pos(), r.name+"++ on every returning path after the read",
				"a returning path leaves "+r.name+" unchanged after its value was taken as an identifier: the next defer statement gets the same id, and the drain loop dispatches one statement's node to the other's call")
		}
	}
	if n == 0 {
		c.Undecided("R04.7", "ssa/eh.go counters", 0, "no identifier counter read found")
	}
}

// enclosingBinaryCmp reports whether e occurs directly as an operand of a comparison.
func enclosingBinaryCmp(root ast.Node, e ast.Expr) bool {
	chain := enclosingStmts(root, e)
	for i := len(chain) - 2; i >= 0; i-- {
		switch p := chain[i].(type) {
		case *ast.ParenExpr:
			continue
		case *ast.BinaryExpr:
			switch p.Op {
			case token.LSS, token.LEQ, token.GTR, token.GEQ, token.EQL, token.NEQ:
				return true
			}
			return false
		default:
			return false
		}
	}
	return false
}

func init() {
	addMutant(Mutant{Prop: "C04", Name: "defer-id-advanced-only-in-loop", File: "ssa/eh.go",
		Old: "\tid := b.Prog.Val(b.Func.nextDeferID)\n\tb.Func.nextDeferID++\n\tswitch kind {", New: "\tid := b.Prog.Val(b.Func.nextDeferID)\n\tif kind == DeferInLoop {\n\t\tb.Func.nextDeferID++\n\t}\n\tswitch kind {",
		Expect: "R04.7 ssa.Builder.Defer"})
	addMutant(Mutant{Prop: "C04", Name: "deferto-id-not-advanced", File: "ssa/eh.go",
		Old: "\tid := b.Prog.Val(owner.nextDeferID)\n\towner.nextDeferID++", New: "\tid := b.Prog.Val(owner.nextDeferID)",
		Expect: "R04.7 ssa.Builder.DeferTo"})
}
