package main

import (
	"fmt"
	"go/ast"
	"strings"

	"golang.org/x/tools/go/packages"
)

// checkIntToFloat: integer -> float conversion is one instruction to the DESTINATION float type (a detour
// through another float width rounds twice), UIToFP exactly for unsigned sources.
func checkIntToFloat(c *Ctx, p *packages.Package) {
	c.Rule("R02.7", "integer->float conversion is a single uitofp/sitofp to the destination type, chosen by the source's signedness (no intermediate float width: double rounding)", 2)
	fd := findFunc(p, "Builder.Convert")
	if fd == nil {
		c.Undecided("R02.7", "ssa.Builder.Convert", 0, "function not found")
		return
	}
	v := newFnView(p, fd)
	// destination type parameter
	dst := ""
	if fd.Type.Params != nil && len(fd.Type.Params.List) > 0 && len(fd.Type.Params.List[0].Names) > 0 {
		dst = fd.Type.Params.List[0].Names[0].Name
	}
	n := 0
	for _, name := range []string{"llvm.Builder.CreateUIToFP", "llvm.Builder.CreateSIToFP"} {
		for _, call := range v.findCalls(fd.Body, name) {
			n++
			_, args, _ := v.call(call)
			key := fmt.Sprintf("ssa.Builder.Convert %s #%d", name[strings.LastIndex(name, ".")+1:], n)
			if len(args) < 2 {
				c.Undecided("R02.7", key, call.Pos(), "unexpected argument list")
				continue
			}
			ty := strings.ReplaceAll(exprStr(v.res(args[1])), " ", "")
			okTy := ty == dst+".ll"
			// signedness condition
			wantUnsigned := strings.HasSuffix(name, "UIToFP")
			pol, found := false, false
			for _, cp := range pathConds(fd.Body, call) {
				s := strings.ReplaceAll(exprStr(cp.cond), " ", "")
				if strings.Contains(s, "IsUnsigned") && strings.Contains(s, "xtyp.Info()") {
					found = true
					pol = cp.pol
					if strings.HasSuffix(s, "==0") {
						pol = !pol
					}
				}
			}
			// the result must be the conversion's result, not fed to a further float cast
			recast := false
			for _, st := range enclosingStmts(fd.Body, call) {
				if blk, ok := st.(*ast.BlockStmt); ok {
					for _, s := range blk.List {
						if s.Pos() > call.End() {
							for _, cc := range callsIn(s) {
								if f := calleeOf(p.TypesInfo, cc); f != nil && f.Name() == "castFloat" && len(cc.Args) >= 2 && strings.ReplaceAll(exprStr(cc.Args[1]), " ", "") == "ret.impl" {
									recast = true
								}
							}
						}
					}
				}
			}
			switch {
			case !okTy:
				c.Bad("R02.7", key, call.Pos(), fmt.Sprintf("converts to %s instead of the destination type %s.ll: a conversion through another float width rounds twice (float32(int64) differs from Go by one ulp near midpoints)", ty, dst))
			case recast:
				c.Bad("R02.7", key, call.Pos(), "the converted value is cast to another float width afterwards: double rounding")
			case !found:
				c.Undecided("R02.7", key, call.Pos(), "signedness condition of the source not found on the path")
			case pol != wantUnsigned:
				c.Bad("R02.7", key, call.Pos(), "uitofp/sitofp chosen against the source's signedness")
			default:
				c.OK("R02.7", key, call.Pos(), "single conversion to "+dst+".ll by source signedness")
			}
		}
	}
	if n < 2 {
		c.Undecided("R02.7", "ssa.Builder.Convert integer->float sites", fd.Pos(), fmt.Sprintf("%d sites found, expected uitofp and sitofp", n))
	}
}

func init() {
	addMutant(Mutant{Prop: "C02", Name: "int-to-float-via-double", File: "ssa/expr.go",
		Old: "\t\t\t\t\t\tret.impl = llvm.CreateSIToFP(b.impl, x.impl, t.ll)", New: "\t\t\t\t\t\tret.impl = castFloat(b, llvm.CreateSIToFP(b.impl, x.impl, b.Prog.Float64().ll), t)",
		Expect: "R02.7"})
	addMutant(Mutant{Prop: "C02", Name: "fitintsize-type-overwritten", File: "ssa/datastruct.go",
		Old: "\t\tsrcType := n.Type\n\t\tn.Type = typ\n\t\tn.impl = castInt(b, n.impl, srcType, typ)", New: "\t\tn.Type = typ\n\t\tn.impl = castInt(b, n.impl, n.Type, typ)",
		Expect: "R02.5 Builder.FitIntSize"})
}
