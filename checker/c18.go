package main

import (
	"encoding/json"
	"fmt"
	"go/ast"
	"go/token"
	"go/types"
	"os"
	"path/filepath"
	"reflect"
	"sort"
	"strings"

	"golang.org/x/tools/go/cfg"
	"golang.org/x/tools/go/packages"
)

func init() { register("C18", checkC18) }

// returnsError reports whether ret returns a non-nil value in its last (error-typed) result.
func returnsError(info *types.Info, ret *ast.ReturnStmt) bool {
	if len(ret.Results) == 0 {
		return false
	}
	last := ret.Results[len(ret.Results)-1]
	if isNilIdent(info, last) {
		return false
	}
	t := info.TypeOf(last)
	if t == nil {
		return false
	}
	return types.Implements(t, errorIface()) || types.Identical(t, types.Universe.Lookup("error").Type())
}

func errorIface() *types.Interface {
	return types.Universe.Lookup("error").Type().Underlying().(*types.Interface)
}

// selField decomposes "x.F" where x is the identifier for object o; returns field name.
func selFieldOf(info *types.Info, e ast.Expr, o types.Object) (string, bool) {
	s, ok := ast.Unparen(e).(*ast.SelectorExpr)
	if !ok {
		return "", false
	}
	id, ok := ast.Unparen(s.X).(*ast.Ident)
	if !ok || info.Uses[id] != o {
		return "", false
	}
	return s.Sel.Name, true
}

func checkC18(c *Ctx) (string, error) {
	w, err := loadMain(defaultCfg, "internal/targets")
	if err != nil {
		return "", err
	}
	c.use(w)
	p := w.Main("internal/targets")
	info := p.TypesInfo

	c.Rule("R18.1", "mergeConfig merges every Config field exactly once with the shape its kind requires (scalar: override when set; list: dst first, append src)", 20)
	c.Rule("R18.2", "resolveInheritance merges parents in Inherits order, then the description itself, and propagates a failed parent load", 4)
	c.Rule("R18.3", "the recursion Load->resolveInheritance->Load is cut by an in-progress test that returns an error", 1)
	c.Rule("R18.6", "the configuration under construction owns its list storage (never a struct copy of a cached description)", 1)
	c.Rule("R18.4", "shipped targets/*.json conform to Config (value types, known parents, acyclic inheritance)", 100)
	c.Rule("R18.5", "no map iteration order reaches a list-valued field or returned list", 1)
	checkCacheOnlySuccess(c, p)
	checkEnumValidation(c, p)

	cfgT := structOf(lookupNamed(p.Types, "Config"))
	if cfgT == nil {
		return "", fmt.Errorf("targets.Config not found")
	}

	// ---------------- R18.1
	mc := findFunc(p, "Loader.mergeConfig")
	if mc == nil {
		c.Undecided("R18.1", "Loader.mergeConfig", 0, "function not found")
	} else {
		c.nfuncs++
		params := mc.Type.Params.List
		var dst, src types.Object
		var names []*ast.Ident
		for _, f := range params {
			names = append(names, f.Names...)
		}
		if len(names) == 2 {
			dst, src = info.Defs[names[0]], info.Defs[names[1]]
		}
		merged := map[string][]string{} // field -> shapes seen
		for _, st := range mc.Body.List {
			field, shape, why := classifyMergeStmt(info, st, dst, src)
			if field == "" {
				c.Undecided("R18.1", "mergeConfig statement "+stmtHead(st), st.Pos(), "unrecognised merge idiom: "+why)
				continue
			}
			merged[field] = append(merged[field], shape)
		}
		for i := 0; i < cfgT.NumFields(); i++ {
			f := cfgT.Field(i)
			if f.Name() == "Name" {
				continue
			}
			key := "Config." + f.Name()
			shapes := merged[f.Name()]
			_, isSlice := f.Type().Underlying().(*types.Slice)
			want := "scalar"
			if isSlice {
				want = "list"
			}
			switch {
			case len(shapes) == 0:
				c.Bad("R18.1", key, mc.Pos(), "field is never merged: a value set in a parent or in the description itself is lost")
			case len(shapes) > 1:
				c.Bad("R18.1", key, mc.Pos(), fmt.Sprintf("field merged %d times", len(shapes)))
			case shapes[0] != want:
				c.Bad("R18.1", key, mc.Pos(), fmt.Sprintf("field of kind %s merged with %s shape (%s)", want, shapes[0], shapes[0]))
			default:
				c.OK("R18.1", key, mc.Pos(), want+" merge")
			}
			delete(merged, f.Name())
		}
		for f := range merged {
			c.Undecided("R18.1", "Config."+f, mc.Pos(), "merge of a field not declared in Config")
		}
	}

	// ---------------- R18.2 / R18.3
	ri := findFunc(p, "Loader.resolveInheritance")
	if ri == nil {
		c.Undecided("R18.2", "Loader.resolveInheritance", 0, "function not found")
	} else {
		c.nfuncs++
		checkResolveInheritance(c, p, ri)
	}
	checkRecursionGuard(c, p)

	// ---------------- R18.4 data conformance
	checkTargetData(c, cfgT, lookupNamed(p.Types, "RawConfig"))

	// ---------------- R18.5 map ranges
	nr := 0
	for _, fd := range allFuncs(p) {
		ast.Inspect(fd.Body, func(n ast.Node) bool {
			rs, ok := n.(*ast.RangeStmt)
			if !ok {
				return true
			}
			nr++
			t := info.TypeOf(rs.X)
			if t == nil {
				return true
			}
			if _, isMap := t.Underlying().(*types.Map); isMap {
				// order-insensitive bodies only: inserts into a map / set
				if rangeBodyOrderInsensitive(info, rs) {
					c.OK("R18.5", declName(fd)+" range "+exprStr(rs.X), rs.Pos(), "map range with order-insensitive body")
				} else {
					c.Bad("R18.5", declName(fd)+" range "+exprStr(rs.X), rs.Pos(), "map iteration order can reach a list or output")
				}
			} else {
				c.Exists("R18.5", declName(fd)+" range "+exprStr(rs.X), rs.Pos(), "ordered range over "+t.String())
			}
			return true
		})
	}
	return "C18 (structural): merge completeness/shape of targets.Loader.mergeConfig over all Config fields; order and error propagation in resolveInheritance on all CFG paths; recursion guard on the Load/resolveInheritance cycle; conformance of every shipped targets/*.json to the decoding struct incl. acyclic, resolvable inheritance; no map order dependence. NOT decided: useTarget's flag derivation.", nil
}

// freshConfigExpr returns "" if e is &T{...}/new(T) with no slice-valued element, else the reason.
func freshConfigExpr(info *types.Info, e ast.Expr) string {
	e = ast.Unparen(e)
	if u, ok := e.(*ast.UnaryExpr); ok && u.Op == token.AND {
		if cl, ok := ast.Unparen(u.X).(*ast.CompositeLit); ok {
			for _, el := range cl.Elts {
				v := el
				if kv, ok := el.(*ast.KeyValueExpr); ok {
					v = kv.Value
				}
				if t := info.TypeOf(v); t != nil {
					if _, isSlice := t.Underlying().(*types.Slice); isSlice {
						return "literal initialises a list field from " + exprStr(v)
					}
				}
			}
			return ""
		}
		return "address of non-literal " + exprStr(u.X)
	}
	if call, ok := e.(*ast.CallExpr); ok {
		if id, ok := call.Fun.(*ast.Ident); ok && id.Name == "new" {
			return ""
		}
	}
	if isNilIdent(info, e) {
		return ""
	}
	return "assigned from " + exprStr(e)
}

func stmtHead(s ast.Stmt) string {
	switch x := s.(type) {
	case *ast.IfStmt:
		return "if " + exprStr(x.Cond)
	case *ast.AssignStmt:
		if len(x.Lhs) > 0 {
			return exprStr(x.Lhs[0]) + " " + x.Tok.String()
		}
	case *ast.ExprStmt:
		return exprStr(x.X)
	}
	return fmt.Sprintf("%T", s)
}

// classifyMergeStmt recognises the two accepted merge idioms.
func classifyMergeStmt(info *types.Info, st ast.Stmt, dst, src types.Object) (field, shape, why string) {
	body := st
	condField := ""
	condKind := ""
	if is, ok := st.(*ast.IfStmt); ok {
		if is.Init != nil || is.Else != nil || len(is.Body.List) != 1 {
			return "", "", "if with init/else/multiple statements"
		}
		body = is.Body.List[0]
		// cond: src.F != zero | src.F | len(src.F) > 0 | len(src.F) != 0 | src.F != nil
		cond := ast.Unparen(is.Cond)
		if f, ok := selFieldOf(info, cond, src); ok {
			condField, condKind = f, "set"
		} else if x, y, op, ok := binCmp(cond); ok {
			if f, ok := selFieldOf(info, x, src); ok && op == token.NEQ {
				if tv, ok := info.Types[y]; ok && (tv.IsNil() || (tv.Value != nil && isZeroConst(tv))) {
					condField, condKind = f, "set"
				}
			} else if call, ok := ast.Unparen(x).(*ast.CallExpr); ok && len(call.Args) == 1 {
				if id, ok := call.Fun.(*ast.Ident); ok && id.Name == "len" {
					if f, ok := selFieldOf(info, call.Args[0], src); ok {
						if v, isC := constInt(info, y); isC && v == 0 && (op == token.GTR || op == token.NEQ) {
							condField, condKind = f, "nonempty"
						}
					}
				}
			}
		}
		if condField == "" {
			return "", "", "condition is not a 'source field is set' test: " + exprStr(is.Cond)
		}
	}
	as, ok := body.(*ast.AssignStmt)
	if !ok || as.Tok != token.ASSIGN || len(as.Lhs) != 1 || len(as.Rhs) != 1 {
		return "", "", "not a single assignment"
	}
	lf, ok := selFieldOf(info, as.Lhs[0], dst)
	if !ok {
		return "", "", "left side is not dst.<field>"
	}
	if condField != "" && condField != lf {
		return lf, "mismatched(cond tests " + condField + ")", ""
	}
	if rf, ok := selFieldOf(info, as.Rhs[0], src); ok {
		if rf != lf {
			return lf, "mismatched(assigns src." + rf + ")", ""
		}
		if condKind == "" {
			return lf, "unconditional-overwrite", ""
		}
		return lf, "scalar", ""
	}
	if call, ok := as.Rhs[0].(*ast.CallExpr); ok {
		if id, ok := call.Fun.(*ast.Ident); ok && id.Name == "append" && len(call.Args) == 2 && call.Ellipsis.IsValid() {
			a0, ok0 := selFieldOf(info, call.Args[0], dst)
			a1, ok1 := selFieldOf(info, call.Args[1], src)
			if ok0 && ok1 && a0 == lf && a1 == lf {
				return lf, "list", ""
			}
			b0, okb0 := selFieldOf(info, call.Args[0], src)
			b1, okb1 := selFieldOf(info, call.Args[1], dst)
			if okb0 && okb1 && b0 == lf && b1 == lf {
				return lf, "list-reversed(src before dst)", ""
			}
			return lf, "mismatched(append of other fields: " + exprStr(call) + ")", ""
		}
	}
	return "", "", "unrecognised right side " + exprStr(as.Rhs[0])
}

func isZeroConst(tv types.TypeAndValue) bool {
	s := tv.Value.ExactString()
	return s == `""` || s == "0" || s == "false"
}

func rangeBodyOrderInsensitive(info *types.Info, rs *ast.RangeStmt) bool {
	ok := true
	ast.Inspect(rs.Body, func(n ast.Node) bool {
		switch x := n.(type) {
		case *ast.CallExpr:
			if id, isId := x.Fun.(*ast.Ident); isId && id.Name == "append" {
				ok = false
			}
		case *ast.ReturnStmt, *ast.BranchStmt:
			ok = false
		}
		return ok
	})
	return ok
}

func checkResolveInheritance(c *Ctx, p *packages.Package, ri *ast.FuncDecl) {
	info := p.TypesInfo
	g := buildCFG(p, ri)
	// find the loop over the inherits list
	var loop *ast.RangeStmt
	ast.Inspect(ri.Body, func(n ast.Node) bool {
		if rs, ok := n.(*ast.RangeStmt); ok && loop == nil {
			loop = rs
		}
		return true
	})
	if loop == nil {
		c.Undecided("R18.2", "resolveInheritance parent loop", ri.Pos(), "no range loop found")
		return
	}
	// (a) ordered iteration over the Inherits list
	lt := info.TypeOf(loop.X)
	_, isSlice := lt.Underlying().(*types.Slice)
	src := exprStr(loop.X)
	inheritsSrc := strings.Contains(src, "Inherits")
	c.Check(isSlice && inheritsSrc && loop.Value != nil, "R18.2", "parents iterated in Inherits order", loop.Pos(),
		"range over slice "+src, "loop does not range in order over the inherits slice: "+src)

	// (b) inside the loop: parent loaded from the range value, error returned, merged into result
	var parentMerge, ownMerge *ast.CallExpr
	var loadCall *ast.CallExpr
	for _, call := range callsIn(ri.Body) {
		f := calleeOf(info, call)
		if f == nil {
			continue
		}
		switch shortName(f) {
		case "internal/targets.Loader.mergeConfig":
			if call.Pos() > loop.Pos() && call.End() < loop.End() {
				parentMerge = call
			} else if call.Pos() > loop.End() {
				ownMerge = call
			} else {
				c.Bad("R18.2", "own description merged after all parents", call.Pos(), "mergeConfig before the parent loop: a parent would override the description's own settings")
			}
		case "internal/targets.Loader.Load", "internal/targets.Loader.load":
			if call.Pos() > loop.Pos() && call.End() < loop.End() {
				loadCall = call
			}
		}
	}
	if parentMerge == nil || loadCall == nil {
		c.Bad("R18.2", "parent merged inside loop", loop.Pos(), "no Load + mergeConfig pair inside the parent loop")
	} else {
		valObj := info.Defs[loop.Value.(*ast.Ident)]
		okArg := len(loadCall.Args) >= 1 && mentions(info, loadCall.Args[0], valObj)
		// dst of merge is the result variable that is later returned
		c.Check(okArg, "R18.2", "parent merged inside loop", parentMerge.Pos(), "Load(range value) then mergeConfig(result, parent)", "parent is not loaded from the range value")
		// error propagation: path from load to parentMerge must pass an err check; the failing side returns an error
		lp, _ := g.nodePos(loadCall)
		errReturned := false
		for _, b := range g.G.Blocks {
			if !b.Live {
				continue
			}
			for _, n := range b.Nodes {
				if ret, ok := n.(*ast.ReturnStmt); ok && ret.Pos() > loop.Pos() && ret.End() < loop.End() && returnsError(info, ret) {
					errReturned = true
				}
			}
		}
		// the merge must not be reachable on the err != nil edge
		reachedOnErr := false
		if lp.B != nil {
			cond := condOf(lp.B)
			if cond != nil {
				x, y, op, ok := binCmp(cond)
				if ok && op == token.NEQ && isNilIdent(info, y) && exprStr(x) == "err" {
					// successor 0 = err != nil
					_, reachedOnErr = g.reach(cfgPos{lp.B.Succs[0], 0}, nil, func(n ast.Node) bool {
						return nodeHas(n, func(x ast.Node) bool { return x == ast.Node(parentMerge) })
					}, false, func(b *cfg.Block, k int) bool {
						// do not follow the loop back edge
						return true
					})
					// reaching via the loop back edge is legitimate only if a return intervenes; the error side must return
					rn, exits := g.reach(cfgPos{lp.B.Succs[0], 0}, func(n ast.Node) bool { _, isRet := n.(*ast.ReturnStmt); return isRet }, func(n ast.Node) bool {
						return nodeHas(n, func(x ast.Node) bool { return x == ast.Node(parentMerge) })
					}, false, nil)
					_ = rn
					reachedOnErr = exits
				} else {
					errReturned = false
				}
			} else {
				errReturned = false
			}
		}
		c.Check(errReturned && !reachedOnErr, "R18.2", "failed parent load returns the error", loadCall.Pos(),
			"err != nil edge returns a non-nil error before any merge", "a failed parent load does not end resolution with an error")
	}
	// (d) ownership: the configuration being built must be fresh storage. A struct copy of a parent
	// (*parent) shares the parent's list backing arrays with the loader cache, so later appends write
	// into another description's lists.
	for _, mcall := range []*ast.CallExpr{parentMerge, ownMerge} {
		if mcall == nil || len(mcall.Args) < 1 {
			continue
		}
		id, ok := ast.Unparen(mcall.Args[0]).(*ast.Ident)
		if !ok {
			c.Undecided("R18.6", "merge destination is fresh storage", mcall.Pos(), "destination is not a local variable: "+exprStr(mcall.Args[0]))
			continue
		}
		dstObj := info.Uses[id]
		fresh, why := true, ""
		ndefs := 0
		ast.Inspect(ri.Body, func(n ast.Node) bool {
			as, ok := n.(*ast.AssignStmt)
			if !ok {
				return true
			}
			for i, l := range as.Lhs {
				lid, ok := l.(*ast.Ident)
				if !ok {
					continue
				}
				o := info.Defs[lid]
				if o == nil {
					o = info.Uses[lid]
				}
				if o != dstObj || len(as.Rhs) != len(as.Lhs) {
					continue
				}
				ndefs++
				if w := freshConfigExpr(info, as.Rhs[i]); w != "" {
					fresh, why = false, w
				}
			}
			return true
		})
		if ndefs == 0 {
			fresh, why = false, "no local definition of "+id.Name
		}
		c.Check(fresh, "R18.6", "merge destination "+id.Name+" is fresh storage", mcall.Pos(),
			"built from a fresh &Config{...} literal without list fields", "result may share list storage with a cached description ("+why+"): appends for one target leak into its siblings")
		break
	}

	// (c) own merge after loop dominates every successful return of the merged result
	if ownMerge == nil {
		c.Bad("R18.2", "own description merged after all parents", loop.End(), "no mergeConfig of the description itself after the parent loop")
	} else {
		// every path from loop exit to a nil-error return passes ownMerge
		bad := false
		for _, b := range g.G.Blocks {
			if !b.Live {
				continue
			}
			for _, n := range b.Nodes {
				ret, ok := n.(*ast.ReturnStmt)
				if !ok || ret.Pos() < loop.End() || returnsError(info, ret) {
					continue
				}
				dom, found := g.dominatedBy(ret, func(n ast.Node) bool {
					return nodeHas(n, func(x ast.Node) bool { return x == ast.Node(ownMerge) })
				}, nil)
				if !found || !dom {
					bad = true
				}
			}
		}
		// second argument must be the raw description's own Config
		argOK := len(ownMerge.Args) == 2 && strings.Contains(exprStr(ownMerge.Args[1]), "Config")
		c.Check(!bad && argOK, "R18.2", "own description merged after all parents", ownMerge.Pos(),
			"mergeConfig(result, &raw.Config) dominates the successful return", "a successful return is reachable without merging the description's own settings last")
	}
}


// checkRecursionGuard: on the call cycle Load -> resolveInheritance -> Load there must be a test of
// persistent state (receiver field or parameter of map/slice/int type) whose taken side returns an error,
// dominating the recursive call, and that state must be updated before the call.
func checkRecursionGuard(c *Ctx, p *packages.Package) {
	info := p.TypesInfo
	// build the static call graph of the package
	decls := map[*types.Func]*ast.FuncDecl{}
	for _, fd := range allFuncs(p) {
		if o, ok := info.Defs[fd.Name].(*types.Func); ok {
			decls[o] = fd
		}
	}
	edges := map[*types.Func][]*types.Func{}
	for o, fd := range decls {
		for _, call := range callsIn(fd.Body) {
			if cal := calleeOf(info, call); cal != nil && decls[cal] != nil {
				edges[o] = append(edges[o], cal)
			}
		}
	}
	// find cycles through resolveInheritance
	var start *types.Func
	for o := range decls {
		if shortName(o) == "internal/targets.Loader.resolveInheritance" {
			start = o
		}
	}
	if start == nil {
		c.Undecided("R18.3", "recursion guard", 0, "resolveInheritance not found")
		return
	}
	// functions on a cycle with start: reachable from start and reaching start
	reachFrom := func(s *types.Func) map[*types.Func]bool {
		seen := map[*types.Func]bool{}
		var dfs func(*types.Func)
		dfs = func(f *types.Func) {
			for _, g := range edges[f] {
				if !seen[g] {
					seen[g] = true
					dfs(g)
				}
			}
		}
		dfs(s)
		return seen
	}
	fromStart := reachFrom(start)
	var cycle []*types.Func
	for f := range fromStart {
		if reachFrom(f)[start] {
			cycle = append(cycle, f)
		}
	}
	if len(cycle) == 0 {
		c.OK("R18.3", "recursion guard", decls[start].Pos(), "inheritance resolution is not recursive")
		return
	}
	sort.Slice(cycle, func(i, j int) bool { return cycle[i].Name() < cycle[j].Name() })
	var names []string
	inCycle := map[*types.Func]bool{}
	for _, f := range cycle {
		names = append(names, f.Name())
		inCycle[f] = true
	}
	// look for a guard in any cycle function: if <cond reading persistent state> { return ..., err }
	guarded := false
	var where token.Pos
	for _, f := range cycle {
		fd := decls[f]
		g := buildCFG(p, fd)
		c.nfuncs++
		// recursive call sites in this function
		for _, call := range callsIn(fd.Body) {
			cal := calleeOf(info, call)
			if cal == nil || !inCycle[cal] {
				continue
			}
			dom, found := g.dominatedBy(call, func(n ast.Node) bool { return false }, nil)
			_ = dom
			_ = found
		}
		for _, b := range g.G.Blocks {
			if !b.Live {
				continue
			}
			cond := condOf(b)
			if cond == nil {
				continue
			}
			if !readsPersistentState(info, fd, b, cond) {
				continue
			}
			// does a successor return an error without recursing?
			for k := range b.Succs {
				n, hit := g.reach(cfgPos{b.Succs[k], 0}, func(n ast.Node) bool {
					for _, call := range callsIn(n) {
						if cal := calleeOf(info, call); cal != nil && inCycle[cal] {
							return true
						}
					}
					return false
				}, func(n ast.Node) bool {
					ret, ok := n.(*ast.ReturnStmt)
					return ok && returnsError(info, ret)
				}, false, nil)
				if hit && len(b.Succs[k].Nodes) > 0 && b.Succs[k].Nodes[0] == n || hit && directReturn(b.Succs[k], info) {
					guarded = true
					where = cond.Pos()
				}
			}
		}
	}
	key := "cycle " + strings.Join(names, "->")
	if guarded {
		c.OK("R18.3", key, where, "an in-progress/visited test returns an error before recursing")
		// the tested state must be marked before the recursive call and cleared on exit
		// (otherwise: no protection, or a diamond-shaped acyclic forest is rejected)
		for _, f := range cycle {
			fd := decls[f]
			if !(fd.Pos() <= where && where <= fd.End()) {
				continue
			}
			g := buildCFG(p, fd)
			var condExpr ast.Expr
			for _, b := range g.G.Blocks {
				if ce := condOf(b); ce != nil && ce.Pos() == where {
					condExpr = ce
				}
			}
			state := ""
			ast.Inspect(condExpr, func(n ast.Node) bool {
				if ix, ok := n.(*ast.IndexExpr); ok && state == "" {
					if t := info.TypeOf(ix.X); t != nil {
						if _, isMap := t.Underlying().(*types.Map); isMap {
							state = exprStr(ix.X)
						}
					}
				}
				return true
			})
			if state == "" {
				c.Note("R18.3: guard state is not a map index; mark/clear discipline not analysed")
				continue
			}
			isSet := func(n ast.Node) bool {
				as, ok := n.(*ast.AssignStmt)
				if !ok || len(as.Lhs) != 1 {
					return false
				}
				ix, ok := as.Lhs[0].(*ast.IndexExpr)
				return ok && exprStr(ix.X) == state
			}
			isDel := func(n ast.Node) bool {
				return nodeHas(n, func(x ast.Node) bool {
					call, ok := x.(*ast.CallExpr)
					if !ok || len(call.Args) != 2 {
						return false
					}
					id, ok := call.Fun.(*ast.Ident)
					return ok && id.Name == "delete" && exprStr(call.Args[0]) == state
				})
			}
			for _, call := range callsIn(fd.Body) {
				cal := calleeOf(info, call)
				if cal == nil || !inCycle[cal] {
					continue
				}
				dom, found := g.dominatedBy(call, isSet, nil)
				c.Check(found && dom, "R18.3", key+" marks "+state+" before recursing", call.Pos(),
					"assignment to "+state+"[...] dominates the recursive call", "the recursive call is reachable without marking "+state+": the cycle test can never succeed")
			}
			hasDefer := false
			ast.Inspect(fd.Body, func(n ast.Node) bool {
				if d, ok := n.(*ast.DeferStmt); ok && isDel(d.Call) {
					hasDefer = true
				}
				return true
			})
			cleared := hasDefer
			if !hasDefer {
				cleared = true
				for _, b := range g.G.Blocks {
					for i, n := range b.Nodes {
						if b.Live && isSet(n) {
							if _, leaks := g.reach(cfgPos{b, i + 1}, isDel, nil, true, nil); leaks {
								cleared = false
							}
						}
					}
				}
			}
			c.Check(cleared, "R18.3", key+" clears "+state+" on every exit", fd.Pos(),
				"mark removed by defer/delete on all exits", "the in-progress mark outlives the call: a description reached twice through different parents (diamond) is wrongly rejected as cyclic")
		}
	} else {
		c.Bad("R18.3", key, decls[start].Pos(), "unguarded recursion: a description that (transitively) inherits from itself recurses until the stack overflows instead of returning an error")
	}
}

func directReturn(b *cfg.Block, info *types.Info) bool {
	for _, n := range b.Nodes {
		if ret, ok := n.(*ast.ReturnStmt); ok {
			return returnsError(info, ret)
		}
		if len(callsIn(n)) > 0 {
			// formatting the error is fine
			continue
		}
	}
	return false
}

// readsPersistentState: cond (or the init statements of its block) reads a map/slice/int reachable from
// the receiver or a parameter, other than through the plain memo cache hit (which returns success).
func readsPersistentState(info *types.Info, fd *ast.FuncDecl, b *cfg.Block, cond ast.Expr) bool {
	roots := map[types.Object]bool{}
	if fd.Recv != nil {
		for _, f := range fd.Recv.List {
			for _, n := range f.Names {
				roots[info.Defs[n]] = true
			}
		}
	}
	for _, f := range fd.Type.Params.List {
		for _, n := range f.Names {
			roots[info.Defs[n]] = true
		}
	}
	reads := func(n ast.Node) bool {
		return nodeHas(n, func(x ast.Node) bool {
			switch e := x.(type) {
			case *ast.IndexExpr:
				t := info.TypeOf(e.X)
				if t == nil {
					return false
				}
				if _, ok := t.Underlying().(*types.Map); ok {
					return rootedIn(info, e.X, roots)
				}
			case *ast.CallExpr:
				// slices.Contains(state, x) / helper(state...)
				for _, a := range e.Args {
					t := info.TypeOf(a)
					if t == nil {
						continue
					}
					switch t.Underlying().(type) {
					case *types.Map, *types.Slice:
						if rootedIn(info, a, roots) {
							return true
						}
					}
				}
			}
			return false
		})
	}
	if reads(cond) {
		return true
	}
	// "if v, ok := m[k]; ok" : the init statement is the previous node of the block
	if len(b.Nodes) >= 2 {
		if as, ok := b.Nodes[len(b.Nodes)-2].(*ast.AssignStmt); ok && reads(as) {
			for _, l := range as.Lhs {
				if id, ok := l.(*ast.Ident); ok {
					if o := info.Defs[id]; o != nil && mentions(info, cond, o) {
						return true
					}
				}
			}
		}
	}
	// depth counter: cond compares an int parameter/field
	if x, _, _, ok := binCmp(cond); ok {
		if t := info.TypeOf(x); t != nil {
			if bt, ok := t.Underlying().(*types.Basic); ok && bt.Info()&types.IsInteger != 0 && rootedIn(info, x, roots) {
				return true
			}
		}
	}
	return false
}

func rootedIn(info *types.Info, e ast.Expr, roots map[types.Object]bool) bool {
	for {
		switch x := ast.Unparen(e).(type) {
		case *ast.SelectorExpr:
			e = x.X
		case *ast.StarExpr:
			e = x.X
		case *ast.IndexExpr:
			e = x.X
		case *ast.Ident:
			return roots[info.Uses[x]]
		default:
			return false
		}
	}
}

// ---------------------------------------------------------------------------
// R18.4: shipped data

func checkTargetData(c *Ctx, cfgT *types.Struct, raw *types.Named) {
	dir := filepath.Join(repoDir, "targets")
	files, _ := filepath.Glob(filepath.Join(dir, "*.json"))
	sort.Strings(files)
	// json tag -> field kind
	kinds := map[string]string{}
	tagSeen := map[string]string{}
	addStruct := func(st *types.Struct) {
		for i := 0; i < st.NumFields(); i++ {
			f := st.Field(i)
			if f.Embedded() {
				continue
			}
			tag := reflect.StructTag(st.Tag(i)).Get("json")
			name, _, _ := strings.Cut(tag, ",")
			if name == "-" {
				continue
			}
			if name == "" {
				name = f.Name()
			}
			if prev, dup := tagSeen[strings.ToLower(name)]; dup {
				c.Bad("R18.4", "json tag "+name, f.Pos(), "tag used by both "+prev+" and "+f.Name()+": one of them is never decoded")
			}
			tagSeen[strings.ToLower(name)] = f.Name()
			switch t := f.Type().Underlying().(type) {
			case *types.Basic:
				switch {
				case t.Info()&types.IsString != 0:
					kinds[name] = "string"
				case t.Info()&types.IsBoolean != 0:
					kinds[name] = "bool"
				case t.Info()&types.IsNumeric != 0:
					kinds[name] = "number"
				}
			case *types.Slice:
				kinds[name] = "[]string"
			}
		}
	}
	addStruct(cfgT)
	if rs := structOf(raw); rs != nil {
		addStruct(rs)
	}
	if kinds["inherits"] != "[]string" {
		c.Bad("R18.4", "RawConfig.inherits", 0, "inherits is not decoded as a string list")
	}
	type node struct {
		inherits []string
	}
	graph := map[string]*node{}
	for _, f := range files {
		name := strings.TrimSuffix(filepath.Base(f), ".json")
		b, err := os.ReadFile(f)
		if err != nil {
			c.Bad("R18.4", "targets/"+name+".json", 0, err.Error())
			continue
		}
		var m map[string]any
		if err := json.Unmarshal(b, &m); err != nil {
			c.Bad("R18.4", "targets/"+name+".json", 0, "not valid JSON: "+err.Error())
			continue
		}
		nd := &node{}
		graph[name] = nd
		var problems []string
		for k, v := range m {
			kind, known := kinds[k]
			if !known {
				// case-insensitive match as encoding/json does
				for kk, kv := range kinds {
					if strings.EqualFold(kk, k) {
						kind, known = kv, true
					}
				}
			}
			if !known {
				continue // unknown TinyGo keys are ignored by design
			}
			ok := false
			switch kind {
			case "string":
				_, ok = v.(string)
			case "bool":
				_, ok = v.(bool)
			case "number":
				_, ok = v.(float64)
			case "[]string":
				if arr, isArr := v.([]any); isArr {
					ok = true
					for _, e := range arr {
						if _, isS := e.(string); !isS {
							ok = false
						}
					}
					if k == "inherits" {
						for _, e := range arr {
							if s, isS := e.(string); isS {
								nd.inherits = append(nd.inherits, s)
							}
						}
					}
				}
			}
			if v == nil {
				ok = true
			}
			if !ok {
				problems = append(problems, fmt.Sprintf("key %q: value %v does not decode into %s", k, v, kind))
			}
		}
		sort.Strings(problems)
		if len(problems) > 0 {
			c.Bad("R18.4", "targets/"+name+".json", 0, strings.Join(problems, "; "))
		}
	}
	// parents exist + acyclic
	state := map[string]int{}
	var cyc []string
	var dfs func(n string, path []string)
	dfs = func(n string, path []string) {
		if state[n] == 2 {
			return
		}
		if state[n] == 1 {
			cyc = append(cyc, strings.Join(append(path, n), "->"))
			return
		}
		state[n] = 1
		if nd := graph[n]; nd != nil {
			for _, p := range nd.inherits {
				dfs(p, append(path, n))
			}
		}
		state[n] = 2
	}
	var names []string
	for n := range graph {
		names = append(names, n)
	}
	sort.Strings(names)
	for _, n := range names {
		missing := []string{}
		for _, p := range graph[n].inherits {
			if graph[p] == nil {
				missing = append(missing, p)
			}
		}
		cyc = nil
		dfs(n, nil)
		key := "targets/" + n + ".json"
		if _, already := c.seen["R18.4 "+key]; already {
			continue
		}
		switch {
		case len(missing) > 0:
			c.Bad("R18.4", key, 0, "inherits from missing description(s) "+strings.Join(missing, ","))
		case len(cyc) > 0:
			c.Bad("R18.4", key, 0, "inheritance cycle "+cyc[0])
		case len(graph[n].inherits) > 0:
			c.OK("R18.4", key, 0, "types conform; parents "+strings.Join(graph[n].inherits, ",")+" exist; acyclic")
		default:
			c.Exists("R18.4", key, 0, "types conform; no parents")
		}
	}
}

func init() {
	addMutant(Mutant{Prop: "C18", Name: "cycle-guard-removed", File: "internal/targets/loader.go",
		Old: "\tif l.resolving[raw.Name] {\n\t\treturn nil, fmt.Errorf(\"inheritance cycle detected at target config %s\", raw.Name)\n\t}\n", New: "", Expect: "R18.3 cycle"})
	addMutant(Mutant{Prop: "C18", Name: "cycle-mark-missing", File: "internal/targets/loader.go",
		Old: "\tl.resolving[raw.Name] = true\n", New: "", Expect: "R18.3 cycle"})
	addMutant(Mutant{Prop: "C18", Name: "cycle-mark-leaks", File: "internal/targets/loader.go",
		Old: "\tdefer delete(l.resolving, raw.Name)\n", New: "", Expect: "R18.3 cycle"})
	addMutant(Mutant{Prop: "C18", Name: "result-aliases-parent", File: "internal/targets/loader.go",
		Old: "\t\t// Merge parent into result\n\t\tl.mergeConfig(result, parent)\n", New: "\t\tif result.LLVMTarget == \"\" && len(result.CFlags) == 0 {\n\t\t\tbase := *parent\n\t\t\tbase.Name = raw.Name\n\t\t\tresult = &base\n\t\t\tcontinue\n\t\t}\n\t\tl.mergeConfig(result, parent)\n", Expect: "R18.6"})
	addMutant(Mutant{Prop: "C18", Name: "merge-drop-field", File: "internal/targets/loader.go",
		Old: "\tif src.CodeModel != \"\" {\n\t\tdst.CodeModel = src.CodeModel\n\t}\n", New: "", Expect: "R18.1 Config.CodeModel"})
	addMutant(Mutant{Prop: "C18", Name: "merge-cross-field", File: "internal/targets/loader.go",
		Old: "dst.OpenOCDTransport = src.OpenOCDTransport", New: "dst.OpenOCDTransport = src.OpenOCDTarget", Expect: "R18.1 Config.OpenOCDTransport"})
	addMutant(Mutant{Prop: "C18", Name: "list-src-first", File: "internal/targets/loader.go",
		Old: "dst.LDFlags = append(dst.LDFlags, src.LDFlags...)", New: "dst.LDFlags = append(src.LDFlags, dst.LDFlags...)", Expect: "R18.1 Config.LDFlags"})
	addMutant(Mutant{Prop: "C18", Name: "list-overwrite", File: "internal/targets/loader.go",
		Old: "dst.CFlags = append(dst.CFlags, src.CFlags...)", New: "dst.CFlags = src.CFlags", Expect: "R18.1 Config.CFlags"})
	addMutant(Mutant{Prop: "C18", Name: "own-before-parents", File: "internal/targets/loader.go",
		Old: "\t// Finally, apply current config on top\n\tl.mergeConfig(result, &raw.Config)\n", New: "", Expect: "R18.2 own description"})
	addMutant(Mutant{Prop: "C18", Name: "swallow-parent-error", File: "internal/targets/loader.go",
		Old: "\t\t\treturn nil, fmt.Errorf(\"failed to load parent config %s: %w\", parentName, err)\n", New: "\t\t\tcontinue\n", Expect: "R18.2 failed parent load"})
}
