package main

import (
	"fmt"
	"go/ast"
	"go/token"
	"regexp"
	"sort"
	"strconv"
	"strings"

	"golang.org/x/tools/go/packages"
)

var (
	reLenGt   = regexp.MustCompile(`len\(s\)>(\d+)`)
	reContChk = regexp.MustCompile(`locb<=s\[(\d+)\]&&s\[\d+\]<=hicb`)
	reSIdx    = regexp.MustCompile(`s\[(\d+)\]`)
)

// checkRuneCodec: structural consistency of the UTF-8 decoder and encoder.
//
//   - decoderune: every error return yields (runeError, k+1) with k the unmodified start position (Go resumes
//     ONE byte after an invalid sequence); in each width arm the length test, the continuation-byte tests, the
//     bytes combined and the position advance all describe the same width; the success return of a W-byte
//     arm is guarded by the minimum value of W-byte encodings (overlong forms), the surrogate gap (3 bytes)
//     and the maximum rune (4 bytes).
//   - encoderune: an arm bounded by runeNMax writes bytes 0..N-1 and returns N.
func checkRuneCodec(c *Ctx, rp *packages.Package) {
	c.Rule("R05.6", "UTF-8 codec arms are self-consistent: width tested = bytes checked = bytes combined = position advance; decoding errors resume one byte after the START of the sequence; overlong, surrogate and out-of-range values are rejected by the arm of their width; the encoder returns the number of bytes it wrote", 8)
	info := rp.TypesInfo
	fd := findFunc(rp, "decoderune")
	if fd == nil {
		c.Undecided("R05.6", "runtime.decoderune", 0, "function not found")
	} else {
		c.nfuncs++
		// start-position parameter
		kName := ""
		if ps := fd.Type.Params.List; len(ps) >= 1 {
			last := ps[len(ps)-1]
			kName = last.Names[len(last.Names)-1].Name
		}
		kAssigned := false
		ast.Inspect(fd.Body, func(n ast.Node) bool {
			switch s := n.(type) {
			case *ast.AssignStmt:
				for _, l := range s.Lhs {
					if id, ok := l.(*ast.Ident); ok && id.Name == kName {
						kAssigned = true
					}
				}
			case *ast.IncDecStmt:
				if id, ok := s.X.(*ast.Ident); ok && id.Name == kName {
					kAssigned = true
				}
			}
			return true
		})
		nerr := 0
		ast.Inspect(fd.Body, func(n ast.Node) bool {
			rs, ok := n.(*ast.ReturnStmt)
			if !ok || len(rs.Results) != 2 {
				return true
			}
			if o := usedObj(info, rs.Results[0]); o == nil || o.Name() != "runeError" {
				return true
			}
			nerr++
			got := strings.ReplaceAll(exprStr(rs.Results[1]), " ", "")
			c.Check(got == kName+"+1" && !kAssigned, "R05.6", fmt.Sprintf("runtime.decoderune error return #%d resumes at start+1", nerr), rs.Pos(), "(runeError, "+kName+"+1), "+kName+" never reassigned",
				fmt.Sprintf("an invalid sequence resumes at %s instead of one byte after its first byte: range and []rune(s) swallow the bytes that follow an overlong/surrogate/out-of-range form", got))
			return true
		})
		if nerr == 0 {
			c.Undecided("R05.6", "runtime.decoderune error returns", fd.Pos(), "no `return runeError, ...` found")
		}
		// width arms
		minName := map[int]string{2: "rune1Max", 3: "rune2Max", 4: "rune3Max"}
		arms := 0
		ast.Inspect(fd.Body, func(n ast.Node) bool {
			is, ok := n.(*ast.IfStmt)
			if !ok {
				return true
			}
			cond := strings.ReplaceAll(exprStr(is.Cond), " ", "")
			m := reLenGt.FindStringSubmatch(cond)
			if m == nil {
				return true
			}
			arms++
			nlen, _ := strconv.Atoi(m[1])
			w := nlen + 1
			key := fmt.Sprintf("runtime.decoderune %d-byte arm", w)
			var chk []int
			for _, mm := range reContChk.FindAllStringSubmatch(cond, -1) {
				i, _ := strconv.Atoi(mm[1])
				chk = append(chk, i)
			}
			sort.Ints(chk)
			wantChk := []int{}
			for i := 1; i < w; i++ {
				wantChk = append(wantChk, i)
			}
			// body: r = combine(s[0..w-1]); pos += w; if <range> { return }
			var used []int
			adv := -1
			var guard string
			for _, st := range is.Body.List {
				switch s := st.(type) {
				case *ast.AssignStmt:
					if len(s.Lhs) == 1 && exprStr(s.Lhs[0]) == "r" {
						seen := map[int]bool{}
						for _, mm := range reSIdx.FindAllStringSubmatch(strings.ReplaceAll(exprStr(s.Rhs[0]), " ", ""), -1) {
							i, _ := strconv.Atoi(mm[1])
							seen[i] = true
						}
						for i := range seen {
							used = append(used, i)
						}
						sort.Ints(used)
					}
					if len(s.Lhs) == 1 && exprStr(s.Lhs[0]) == "pos" && s.Tok == token.ADD_ASSIGN {
						if v, ok := constInt(info, s.Rhs[0]); ok {
							adv = int(v)
						}
					}
				case *ast.IfStmt:
					if len(s.Body.List) == 1 {
						if r, ok := s.Body.List[0].(*ast.ReturnStmt); ok && len(r.Results) == 0 {
							guard = strings.ReplaceAll(exprStr(s.Cond), " ", "")
						}
					}
				}
			}
			wantUsed := append([]int{0}, wantChk...)
			var bad []string
			if fmt.Sprint(chk) != fmt.Sprint(wantChk) {
				bad = append(bad, fmt.Sprintf("continuation bytes tested %v, want %v", chk, wantChk))
			}
			if fmt.Sprint(used) != fmt.Sprint(wantUsed) {
				bad = append(bad, fmt.Sprintf("bytes combined %v, want %v", used, wantUsed))
			}
			if adv != w {
				bad = append(bad, fmt.Sprintf("position advanced by %d, want %d", adv, w))
			}
			c.Check(len(bad) == 0, "R05.6", key+" width", is.Pos(), fmt.Sprintf("len(s) > %d, continuation bytes %v, combines %v, pos += %d", nlen, wantChk, wantUsed, w), strings.Join(bad, "; "))
			// range guard
			okGuard := guard != "" && strings.Contains(guard, minName[w]+"<r")
			why := "the success return is not guarded by " + minName[w] + " < r: overlong encodings decode to a value instead of U+FFFD"
			if okGuard && w == 3 && !strings.Contains(guard, "!(surrogateMin<=r&&r<=surrogateMax)") {
				okGuard, why = false, "surrogate code points (U+D800..U+DFFF) are accepted by the 3-byte arm"
			}
			if okGuard && w == 4 && !strings.Contains(guard, "r<=maxRune") {
				okGuard, why = false, "values above U+10FFFF are accepted by the 4-byte arm"
			}
			if okGuard && strings.Contains(guard, "||") {
				okGuard, why = false, "range conditions joined by ||"
			}
			c.Check(okGuard, "R05.6", key+" value range", is.Pos(), guard, why+" ("+guard+")")
			return true
		})
		if arms != 3 {
			c.Undecided("R05.6", "runtime.decoderune arms", fd.Pos(), fmt.Sprintf("%d width arms recognised, want 3", arms))
		}
	}
	// encoder
	ef := findFunc(rp, "encoderune")
	if ef == nil {
		c.Undecided("R05.6", "runtime.encoderune", 0, "function not found")
		return
	}
	c.nfuncs++
	maxW := map[string]int{"rune1Max": 1, "rune2Max": 2, "rune3Max": 3}
	arms := 0
	ast.Inspect(ef.Body, func(n ast.Node) bool {
		cc, ok := n.(*ast.CaseClause)
		if !ok {
			return true
		}
		w := 0
		if cc.List == nil {
			w = 4
		}
		for _, e := range cc.List {
			s := strings.ReplaceAll(exprStr(e), " ", "")
			for nm, ww := range maxW {
				if s == "i<="+nm {
					w = ww
				}
			}
		}
		if w == 0 {
			return true // the error arm falls through into the 3-byte arm
		}
		arms++
		written := map[int]bool{}
		ret := -1
		for _, st := range cc.Body {
			switch s := st.(type) {
			case *ast.AssignStmt:
				if len(s.Lhs) == 1 {
					if ix, ok := s.Lhs[0].(*ast.IndexExpr); ok && exprStr(ix.X) == "p" {
						if v, ok := constInt(info, ix.Index); ok {
							written[int(v)] = true
						}
					}
				}
			case *ast.ReturnStmt:
				if len(s.Results) == 1 {
					if v, ok := constInt(info, s.Results[0]); ok {
						ret = int(v)
					}
				}
			}
		}
		var ws []int
		for i := range written {
			ws = append(ws, i)
		}
		sort.Ints(ws)
		want := []int{}
		for i := 0; i < w; i++ {
			want = append(want, i)
		}
		c.Check(fmt.Sprint(ws) == fmt.Sprint(want) && ret == w, "R05.6", fmt.Sprintf("runtime.encoderune %d-byte arm", w), cc.Pos(), fmt.Sprintf("writes p%v, returns %d", want, w),
			fmt.Sprintf("writes p%v and returns %d for values of %d-byte width", ws, ret, w))
		return true
	})
	if arms != 4 {
		c.Undecided("R05.6", "runtime.encoderune arms", ef.Pos(), fmt.Sprintf("%d arms recognised, want 4", arms))
	}
}

func init() {
	addMutant(Mutant{Prop: "C05", Name: "decoderune-error-resumes-at-pos", File: "runtime/internal/runtime/utf8.go",
		Old: "\t}\n\n\treturn runeError, k + 1\n}", New: "\t}\n\n\treturn runeError, pos + 1\n}", Expect: "R05.6 runtime.decoderune error return"})
	addMutant(Mutant{Prop: "C05", Name: "decoderune-surrogates-accepted", File: "runtime/internal/runtime/utf8.go",
		Old: "if rune2Max < r && !(surrogateMin <= r && r <= surrogateMax) {", New: "if rune2Max < r {", Expect: "R05.6 runtime.decoderune 3-byte arm value range"})
	addMutant(Mutant{Prop: "C05", Name: "decoderune-4byte-advance-3", File: "runtime/internal/runtime/utf8.go",
		Old: "\t\t\tpos += 4", New: "\t\t\tpos += 3", Expect: "R05.6 runtime.decoderune 4-byte arm width"})
	addMutant(Mutant{Prop: "C05", Name: "encoderune-2byte-returns-1", File: "runtime/internal/runtime/utf8.go",
		Old: "\t\tp[1] = tx | byte(r)&maskx\n\t\treturn 2", New: "\t\tp[1] = tx | byte(r)&maskx\n\t\treturn 1", Expect: "R05.6 runtime.encoderune 2-byte arm"})
}

// checkStringEqualOrder (R05.7): two strings of different length are never equal; a pointer-identity shortcut
// may only be consulted after the lengths were compared (s[:2] and s[:5] share their data pointer).
func checkStringEqualOrder(c *Ctx, rp *packages.Package) {
	c.Rule("R05.7", "string equality compares lengths before any data-pointer identity shortcut", 1)
	fd := findFunc(rp, "StringEqual")
	if fd == nil {
		c.Undecided("R05.7", "runtime.StringEqual", 0, "function not found")
		return
	}
	c.nfuncs++
	g := buildCFG(rp, fd)
	mentionsBoth := func(n ast.Node, field string) bool {
		e, ok := n.(ast.Expr)
		if !ok {
			return false
		}
		x, y, _, isCmp := binCmp(e)
		if !isCmp {
			return false
		}
		return strings.HasSuffix(exprStr(x), "."+field) && strings.HasSuffix(exprStr(y), "."+field)
	}
	isLen := func(n ast.Node) bool { return nodeHas(n, func(x ast.Node) bool { return mentionsBoth(x, "len") }) }
	isData := func(n ast.Node) bool { return nodeHas(n, func(x ast.Node) bool { return mentionsBoth(x, "data") }) }
	hasLen, hasData := false, false
	ast.Inspect(fd.Body, func(n ast.Node) bool {
		if mentionsBoth(n, "len") {
			hasLen = true
		}
		if mentionsBoth(n, "data") {
			hasData = true
		}
		return true
	})
	if !hasLen {
		c.Bad("R05.7", "runtime.StringEqual compares lengths first", fd.Pos(), "no comparison of the two lengths")
		return
	}
	if !hasData {
		c.OK("R05.7", "runtime.StringEqual compares lengths first", fd.Pos(), "lengths compared; no identity shortcut")
		return
	}
	hit, reached := g.reach(g.entry(), isLen, isData, false, nil)
	c.Check(!reached, "R05.7", "runtime.StringEqual compares lengths first", fd.Pos(), "x.len != y.len is tested on every path to the data-pointer comparison",
		"the data pointers are compared ("+c.posStr(posOf(hit))+") on a path on which the lengths were not: s[:i] == s[:j] and s[len(s):] == s hold although the lengths differ")
}

func init() {
	addMutant(Mutant{Prop: "C05", Name: "stringequal-identity-before-length", File: "runtime/internal/runtime/z_string.go",
		Old: "\tif x.len != y.len {\n\t\treturn false\n\t}\n\tif x.data != y.data {", New: "\tif x.data == y.data {\n\t\treturn true\n\t}\n\tif x.len != y.len {\n\t\treturn false\n\t}\n\tif x.data != y.data {", Expect: "R05.7"})
}
