package main

import (
	"fmt"
	"go/ast"
	"go/constant"
	"go/token"
	"go/types"
	"sort"
	"strings"

	"golang.org/x/tools/go/packages"
)

// C17 - command lines, flags and directives are split and re-assembled without loss.
//
// The round-trip laws themselves quantify over all strings and are NOT decided.  What is decided are the
// clauses whose truth is in the shape of the code (each a necessary condition of the statement):
//   R17.1 malformed input is reported: the open-quote state of shellparse.Parse is known to be false at every
//         success return (boolean constant propagation over the CFG);
//   R17.2 nothing is dropped or invented by Parse: per arm of the scanner, one rune is written per rune consumed
//         (the escaped one when one is skipped), delimiter arms write nothing, an opening quote counts as content
//         (empty arguments survive), the flush arm appends/resets/clears together, the tail is flushed;
//   R17.3 every caller of shellparse.Parse turns its error into an error of its own;
//   R17.4 build tags are evaluated by go/build itself (Context.MatchFile on a copy of build.Default whose BuildTags
//         come from parseBuildTags), a tag is marked only under err == nil && match, and the two spellings of the
//         -tags flag are split with the same separator set;
//   R17.5 substitution is single pass: os.Expand (mapping os.Getenv) is applied to pieces of the directive only,
//         never to the output of a subcommand; {name} templates are expanded by one Replacer pass, never by a
//         chain of ReplaceAll calls in map order;
//   R17.6 the pkg-config splitter tests the same white-space set at every place, and its escape arm writes the
//         escaped byte and advances past both bytes.

func init() { register("C17", checkC17) }

func checkC17(c *Ctx) (string, error) {
	w, err := loadMain(defaultCfg, "internal/shellparse", "xtool/safesplit", "internal/buildtags", "xtool/env", "internal/env", "internal/build", "internal/flash", "internal/crosscompile", "internal/clang")
	if err != nil {
		return "", err
	}
	c.use(w)
	c.Rule("R17.1", "malformed input is reported: the open-quote state of shellparse.Parse is known false at every success return (boolean constant propagation over the CFG)", 1)
	c.Rule("R17.2", "shellparse.Parse neither drops nor invents characters: per scanner arm one rune is written per rune consumed (the escaped one when one is skipped), delimiter arms write nothing, an opening quote counts as content, the flush arm appends+resets+clears, the tail is flushed", 5)
	c.Rule("R17.3", "every caller of shellparse.Parse turns a parse error into an error of its own before using the result", 2)
	c.Rule("R17.4", "build tags are evaluated by go/build (Context.MatchFile on a copy of build.Default with BuildTags from parseBuildTags); a tag is marked only under err == nil && match; both spellings of -tags use one separator set", 5)
	c.Rule("R17.5", "substitution is single pass: os.Expand (mapping os.Getenv) sees pieces of the directive only, never subcommand output; {name} templates are expanded by one Replacer pass, never by chained ReplaceAll in map order", 5)
	c.Rule("R17.6", "the pkg-config flag splitter tests one white-space set everywhere; its escape arm writes the escaped byte and advances past both bytes", 3)

	if p := w.Main("internal/shellparse"); p != nil {
		checkParseStates(c, p)
	} else {
		c.Undecided("R17.1", "internal/shellparse", 0, "package not loaded")
	}
	checkParseCallers(c, w)
	if p := w.Main("internal/buildtags"); p != nil {
		checkBuildTags(c, p)
	} else {
		c.Undecided("R17.4", "internal/buildtags", 0, "package not loaded")
	}
	checkSinglePass(c, w)
	if p := w.Main("xtool/safesplit"); p != nil {
		checkSafeSplit(c, p)
	} else {
		c.Undecided("R17.6", "xtool/safesplit", 0, "package not loaded")
	}
	return "Decides structural clauses of C17 only: error on an unterminated quote on all paths, per-arm character accounting of the shell-style scanner, error propagation at its callers, delegation of build-tag evaluation to go/build, single-pass substitution of $NAME / $(cmd) / {name}, white-space set agreement of the pkg-config splitter. The round-trip equalities over all argument lists are value properties and are not decided.", nil
}

// ---------------------------------------------------------------------------
// R17.1: boolean constant propagation of one local over go/cfg

const (
	bvFalse = 0 // known false
	bvMaybe = 1 // may be true
)

// boolKnownFalse computes, for every live block, whether obj is known false on entry, and calls visit for each
// CFG node with the state before it.  giveUp is set when obj is assigned inside a function literal.
func boolKnownFalse(g *fnCFG, obj types.Object, visit func(n ast.Node, state int)) (giveUp bool) {
	info := g.Info
	isG := func(e ast.Expr) bool {
		id, ok := ast.Unparen(e).(*ast.Ident)
		return ok && info.Uses[id] == obj
	}
	ast.Inspect(g.Decl.Body, func(n ast.Node) bool {
		if lit, ok := n.(*ast.FuncLit); ok {
			ast.Inspect(lit.Body, func(m ast.Node) bool {
				if as, ok := m.(*ast.AssignStmt); ok {
					for _, l := range as.Lhs {
						if isG(l) {
							giveUp = true
						}
					}
				}
				return true
			})
		}
		return true
	})
	if giveUp {
		return
	}
	transfer := func(n ast.Node, st int) int {
		switch s := n.(type) {
		case *ast.AssignStmt:
			for i, l := range s.Lhs {
				id, ok := ast.Unparen(l).(*ast.Ident)
				if !ok || (info.Uses[id] != obj && info.Defs[id] != obj) {
					continue
				}
				st = bvMaybe
				if len(s.Lhs) == len(s.Rhs) && (s.Tok == token.ASSIGN || s.Tok == token.DEFINE) {
					if tv, ok := info.Types[s.Rhs[i]]; ok && tv.Value != nil && tv.Value.Kind() == constant.Bool && !constant.BoolVal(tv.Value) {
						st = bvFalse
					}
				}
			}
		case *ast.DeclStmt:
			if gd, ok := s.Decl.(*ast.GenDecl); ok {
				for _, sp := range gd.Specs {
					vs, ok := sp.(*ast.ValueSpec)
					if !ok {
						continue
					}
					for i, nm := range vs.Names {
						if info.Defs[nm] != obj {
							continue
						}
						st = bvFalse
						if i < len(vs.Values) {
							st = bvMaybe
							if tv, ok := info.Types[vs.Values[i]]; ok && tv.Value != nil && tv.Value.Kind() == constant.Bool && !constant.BoolVal(tv.Value) {
								st = bvFalse
							}
						}
					}
				}
			}
		case *ast.ValueSpec:
			for i, nm := range s.Names {
				if info.Defs[nm] != obj {
					continue
				}
				st = bvFalse
				if i < len(s.Values) {
					st = bvMaybe
				}
			}
		}
		return st
	}
	in := map[*cfgBlk]int{}
	seen := map[*cfgBlk]bool{}
	entry := g.G.Blocks[0]
	in[entry] = bvMaybe
	seen[entry] = true
	work := []*cfgBlk{entry}
	out := func(b *cfgBlk) int {
		st := in[b]
		for _, n := range b.Nodes {
			st = transfer(n, st)
		}
		return st
	}
	for len(work) > 0 {
		b := work[len(work)-1]
		work = work[:len(work)-1]
		st := out(b)
		ce := condOf(b)
		for k, s := range b.Succs {
			es := st
			if ce != nil {
				if gv, _, ok := condImplies(ce, k == 0, isG); ok {
					if gv {
						es = bvMaybe
					} else {
						es = bvFalse
					}
				}
			}
			if !seen[s] {
				seen[s] = true
				in[s] = es
				work = append(work, s)
			} else if es > in[s] {
				in[s] = es
				work = append(work, s)
			}
		}
	}
	for _, b := range g.G.Blocks {
		if !seen[b] {
			continue
		}
		st := in[b]
		for _, n := range b.Nodes {
			visit(n, st)
			st = transfer(n, st)
		}
	}
	return false
}

func localNamed(p *packages.Package, fd *ast.FuncDecl, name string) types.Object {
	var obj types.Object
	ast.Inspect(fd, func(n ast.Node) bool {
		if id, ok := n.(*ast.Ident); ok && id.Name == name && obj == nil {
			if o := p.TypesInfo.Defs[id]; o != nil {
				obj = o
			}
		}
		return true
	})
	return obj
}

func checkParseStates(c *Ctx, p *packages.Package) {
	info := p.TypesInfo
	fd := findFunc(p, "Parse")
	if fd == nil {
		c.Undecided("R17.1", "shellparse.Parse", 0, "function not found")
		return
	}
	c.nfuncs++
	inQ := localNamed(p, fd, "inQuotes")
	if inQ == nil {
		c.Undecided("R17.1", "shellparse.Parse open-quote state", fd.Pos(), "no local named inQuotes (the scanner's open-quote flag) found")
		return
	}
	g := buildCFG(p, fd)
	nSucc := 0
	var bad ast.Node
	giveUp := boolKnownFalse(g, inQ, func(n ast.Node, st int) {
		if r, ok := n.(*ast.ReturnStmt); ok && !returnsError(info, r) {
			nSucc++
			if st != bvFalse && bad == nil {
				bad = r
			}
		}
	})
	switch {
	case giveUp:
		c.Undecided("R17.1", "shellparse.Parse open-quote state", fd.Pos(), "inQuotes is assigned inside a function literal")
	case nSucc == 0:
		c.Undecided("R17.1", "shellparse.Parse open-quote state", fd.Pos(), "no success return found")
	case bad != nil:
		c.Bad("R17.1", "shellparse.Parse open-quote state is false at every success return", bad.Pos(), "a path reaches this success return while a quote may still be open: an unterminated quote is accepted and the argument silently altered")
	default:
		c.OK("R17.1", "shellparse.Parse open-quote state is false at every success return", fd.Pos(), fmt.Sprintf("%d success return(s), inQuotes known false at each", nSucc))
	}
	checkParseArms(c, p, fd, inQ)
}

// ---------------------------------------------------------------------------
// R17.2: per-arm accounting

type armPath struct {
	writes  []string // "cur", "next", "?<expr>"
	skips   int
	sets    map[string]string // local name -> constant assigned ("true"/"false"/"?")
	appends int               // append(args, current.String())
	resets  int
	conds   []pathCond // branch conditions taken on this path
	curIs   string     // what the current-rune variable holds after a reassignment ("" = the current rune)
}

type pathCond struct {
	e   ast.Expr
	val bool
}

func clonePath(a armPath) armPath {
	b := armPath{writes: append([]string(nil), a.writes...), skips: a.skips, sets: map[string]string{}, appends: a.appends, resets: a.resets, conds: append([]pathCond(nil), a.conds...), curIs: a.curIs}
	for k, v := range a.sets {
		b.sets[k] = v
	}
	return b
}

// enumPaths enumerates the paths through a statement list made of if/else, assignments, inc/dec and calls.
func enumPaths(info *types.Info, stmts []ast.Stmt, start []armPath, classify func(ast.Expr) string, idx types.Object, ok *bool) []armPath {
	paths := start
	for _, st := range stmts {
		switch s := st.(type) {
		case *ast.IfStmt:
			if s.Init != nil {
				paths = enumPaths(info, []ast.Stmt{s.Init}, paths, classify, idx, ok)
			}
			var thenStart, elseStart []armPath
			for _, p := range paths {
				tp, ep := clonePath(p), clonePath(p)
				tp.conds = append(tp.conds, pathCond{s.Cond, true})
				ep.conds = append(ep.conds, pathCond{s.Cond, false})
				thenStart = append(thenStart, tp)
				elseStart = append(elseStart, ep)
			}
			th := enumPaths(info, s.Body.List, thenStart, classify, idx, ok)
			var el []armPath
			switch e := s.Else.(type) {
			case nil:
				el = elseStart
			case *ast.BlockStmt:
				el = enumPaths(info, e.List, elseStart, classify, idx, ok)
			case *ast.IfStmt:
				el = enumPaths(info, []ast.Stmt{e}, elseStart, classify, idx, ok)
			}
			paths = append(th, el...)
		case *ast.BlockStmt:
			paths = enumPaths(info, s.List, paths, classify, idx, ok)
		case *ast.IncDecStmt:
			if id, isId := ast.Unparen(s.X).(*ast.Ident); isId && info.Uses[id] == idx && s.Tok == token.INC {
				for i := range paths {
					paths[i].skips++
				}
			} else {
				*ok = false
			}
		case *ast.ExprStmt:
			call, isCall := s.X.(*ast.CallExpr)
			if !isCall {
				*ok = false
				continue
			}
			f := calleeOf(info, call)
			switch {
			case f != nil && (qualName(f) == "strings.Builder.WriteRune" || qualName(f) == "strings.Builder.WriteByte" || qualName(f) == "strings.Builder.WriteString") && len(call.Args) == 1:
				for i := range paths {
					k := classify(call.Args[0])
					if k == "cur" && paths[i].curIs != "" {
						k = paths[i].curIs
					}
					paths[i].writes = append(paths[i].writes, k)
				}
			case f != nil && qualName(f) == "strings.Builder.Reset":
				for i := range paths {
					paths[i].resets++
				}
			default:
				*ok = false
			}
		case *ast.AssignStmt:
			for i, l := range s.Lhs {
				id, isId := ast.Unparen(l).(*ast.Ident)
				if !isId {
					*ok = false
					continue
				}
				if o := info.Uses[id]; o == idx && o != nil {
					*ok = false // index arithmetic other than i++
					continue
				}
				val := "?"
				if len(s.Rhs) == len(s.Lhs) && classify(l) == "cur" && s.Tok == token.ASSIGN {
					k := classify(s.Rhs[i])
					for j := range paths {
						paths[j].curIs = k
					}
					continue
				}
				if len(s.Rhs) == len(s.Lhs) {
					if tv, has := info.Types[s.Rhs[i]]; has && tv.Value != nil {
						val = tv.Value.ExactString()
					}
					if call, isCall := ast.Unparen(s.Rhs[i]).(*ast.CallExpr); isCall {
						if fid, isB := ast.Unparen(call.Fun).(*ast.Ident); isB && fid.Name == "append" && len(call.Args) == 2 && strings.HasSuffix(strings.ReplaceAll(exprStr(call.Args[1]), " ", ""), ".String()") {
							for j := range paths {
								paths[j].appends++
							}
							val = "append"
						}
					}
				}
				for j := range paths {
					paths[j].sets[id.Name] = val
				}
			}
		case *ast.EmptyStmt:
		default:
			*ok = false
		}
	}
	return paths
}

func checkParseArms(c *Ctx, p *packages.Package, fd *ast.FuncDecl, inQ types.Object) {
	info := p.TypesInfo
	var loop *ast.ForStmt
	var sw *ast.SwitchStmt
	ast.Inspect(fd.Body, func(n ast.Node) bool {
		if f, ok := n.(*ast.ForStmt); ok && loop == nil {
			for _, st := range f.Body.List {
				if s, ok := st.(*ast.SwitchStmt); ok && s.Tag == nil {
					loop, sw = f, s
				}
			}
		}
		return true
	})
	if loop == nil {
		c.Undecided("R17.2", "shellparse.Parse scanner loop", fd.Pos(), "no for loop with a tagless switch found")
		return
	}
	// index variable and current rune
	var idx, cur types.Object
	if as, ok := loop.Init.(*ast.AssignStmt); ok && len(as.Lhs) == 1 {
		if id, ok := as.Lhs[0].(*ast.Ident); ok {
			idx = info.Defs[id]
		}
	}
	nextObjs := map[types.Object]bool{}
	indexKind := func(e ast.Expr) string { // runes[i] -> "cur", runes[i+1] -> "next"
		ix, ok := ast.Unparen(e).(*ast.IndexExpr)
		if !ok {
			return ""
		}
		if id, ok := ast.Unparen(ix.Index).(*ast.Ident); ok && info.Uses[id] == idx {
			return "cur"
		}
		if be, ok := ast.Unparen(ix.Index).(*ast.BinaryExpr); ok && be.Op == token.ADD {
			if id, ok := ast.Unparen(be.X).(*ast.Ident); ok && info.Uses[id] == idx {
				if v, isC := constInt(info, be.Y); isC && v == 1 {
					return "next"
				}
			}
		}
		return ""
	}
	ast.Inspect(loop.Body, func(n ast.Node) bool {
		if as, ok := n.(*ast.AssignStmt); ok && as.Tok == token.DEFINE && len(as.Lhs) == 1 && len(as.Rhs) == 1 {
			if id, ok := as.Lhs[0].(*ast.Ident); ok {
				switch indexKind(as.Rhs[0]) {
				case "cur":
					if cur == nil {
						cur = info.Defs[id]
					}
				case "next":
					nextObjs[info.Defs[id]] = true
				}
			}
		}
		return true
	})
	if idx == nil || cur == nil {
		c.Undecided("R17.2", "shellparse.Parse scanner loop", loop.Pos(), "index variable / current rune not recognised (for i := ...; r := runes[i])")
		return
	}
	classify := func(e ast.Expr) string {
		if id, ok := ast.Unparen(e).(*ast.Ident); ok {
			if o := info.Uses[id]; o == cur {
				return "cur"
			} else if nextObjs[o] {
				return "next"
			}
		}
		if k := indexKind(e); k != "" {
			return k
		}
		return "?" + exprStr(e)
	}
	isInQ := func(e ast.Expr) bool {
		id, ok := ast.Unparen(e).(*ast.Ident)
		return ok && info.Uses[id] == inQ
	}
	hasContent := localNamed(p, fd, "hasContent")
	if hasContent == nil {
		c.Undecided("R17.2", "shellparse.Parse content flag", fd.Pos(), "no local named hasContent found")
		return
	}
	nArm := 0
	for _, cs := range sw.Body.List {
		cc := cs.(*ast.CaseClause)
		nArm++
		kind := "content"
		label := "default"
		if len(cc.List) == 1 {
			label = strings.ReplaceAll(exprStr(cc.List[0]), " ", "")
			cond := cc.List[0]
			quoteCmp, spaceTest := false, false
			ast.Inspect(cond, func(n ast.Node) bool {
				if x, y, op, ok := binCmpNode(n); ok && op == token.EQL {
					for _, pr := range [][2]ast.Expr{{x, y}, {y, x}} {
						if id, ok := ast.Unparen(pr[0]).(*ast.Ident); ok && info.Uses[id] == cur {
							if tv, has := info.Types[pr[1]]; has && tv.Value != nil {
								if v, isI := constant.Int64Val(tv.Value); isI && (v == '"' || v == '\'') {
									quoteCmp = true
								}
							} else if oid, ok := ast.Unparen(pr[1]).(*ast.Ident); ok && oid.Name == "quoteChar" {
								quoteCmp = true
							}
						}
					}
				}
				if call, ok := n.(*ast.CallExpr); ok && isCallTo(info, call, "unicode.IsSpace") {
					spaceTest = true
				}
				return true
			})
			inQv, _, inQok := condImplies(cond, true, isInQ)
			switch {
			case quoteCmp && inQok && !inQv:
				kind = "open"
			case quoteCmp && inQok && inQv:
				kind = "close"
			case spaceTest && inQok && !inQv:
				kind = "space"
			case quoteCmp || spaceTest:
				kind = "unknown"
			}
		} else if len(cc.List) > 1 {
			kind = "unknown"
		}
		key := fmt.Sprintf("shellparse.Parse arm %s (%s)", kind, label)
		okShape := true
		paths := enumPaths(info, cc.Body, []armPath{{sets: map[string]string{}}}, classify, idx, &okShape)
		if !okShape || kind == "unknown" {
			c.Undecided("R17.2", key, cc.Pos(), "arm contains a statement form the path enumeration does not model, or its role (open/close/space/content) is not recognised")
			continue
		}
		var why []string
		for _, pt := range paths {
			switch kind {
			case "open":
				if len(pt.writes) != 0 || pt.skips != 0 {
					why = append(why, "the opening quote arm writes or skips characters")
				}
				if pt.sets["inQuotes"] != "true" {
					why = append(why, "the opening quote arm does not set inQuotes")
				}
				if pt.sets["hasContent"] != "true" {
					why = append(why, "an opening quote does not count as content: an empty quoted argument (\"\") is dropped")
				}
			case "close":
				if len(pt.writes) != 0 || pt.skips != 0 {
					why = append(why, "the closing quote arm writes or skips characters")
				}
				if pt.sets["inQuotes"] != "false" {
					why = append(why, "the closing quote arm does not clear inQuotes")
				}
			case "space":
				if len(pt.writes) != 0 || pt.skips != 0 {
					why = append(why, "the separator arm writes or skips characters")
				}
				if pt.appends > 0 && (pt.resets != 1 || pt.sets["hasContent"] != "false" || pt.appends != 1) {
					why = append(why, "a flushed argument is not followed by Reset and hasContent = false (text or emptiness leaks into the next argument)")
				}
			case "content":
				switch {
				case len(pt.writes) != 1:
					why = append(why, fmt.Sprintf("a path writes %d characters for the character it consumes %v", len(pt.writes), pt.writes))
				case pt.skips == 0 && pt.writes[0] != "cur":
					why = append(why, "a path that consumes one character writes "+pt.writes[0]+" instead of it")
				case pt.skips == 1 && pt.writes[0] != "next":
					why = append(why, "a path that skips the following character writes "+pt.writes[0]+": the skipped character is dropped")
				case pt.skips > 1:
					why = append(why, "a path skips more than one character")
				}
				if pt.skips > 0 {
					// unescaping happens inside double quotes only: in single quotes a backslash is an ordinary character
					dq := false
					isDQ := func(e ast.Expr) bool {
						x, y, op, ok := binCmp(e)
						if !ok || op != token.EQL {
							return false
						}
						id, isId := ast.Unparen(x).(*ast.Ident)
						v, isC := constInt(info, y)
						return isId && id.Name == "quoteChar" && isC && v == '"'
					}
					all := append([]pathCond(nil), pt.conds...)
					for _, e := range cc.List {
						all = append(all, pathCond{e, true})
					}
					for _, pc := range all {
						if gv, _, ok := condImplies(pc.e, pc.val, isDQ); ok && gv {
							dq = true
						}
					}
					if !dq {
						why = append(why, "a path that unescapes (skips a character) is not limited to double quotes: inside single quotes a backslash must stay an ordinary character")
					}
				}
				inQv, _, inQok := false, ast.Expr(nil), false
				if len(cc.List) == 1 {
					inQv, _, inQok = condImplies(cc.List[0], true, isInQ)
				}
				if !(inQok && inQv) && pt.sets["hasContent"] != "true" {
					why = append(why, "a character written outside quotes does not set hasContent: the argument it belongs to may be dropped")
				}
			}
		}
		flushSeen := false
		if kind == "space" {
			for _, pt := range paths {
				if pt.appends == 1 {
					flushSeen = true
				}
			}
			if !flushSeen {
				why = append(why, "the separator arm never appends the finished argument")
			}
		}
		sort.Strings(why)
		why = dedupStrings(why)
		c.Check(len(why) == 0, "R17.2", key, cc.Pos(), fmt.Sprintf("%d path(s) accounted", len(paths)), strings.Join(why, "; "))
	}
	if nArm < 4 {
		c.Undecided("R17.2", "shellparse.Parse scanner arms", sw.Pos(), fmt.Sprintf("%d arms found", nArm))
	}
	// tail flush: after the loop, "if hasContent { args = append(args, current.String()) }" and the success return yields args
	tail := false
	after := false
	for _, st := range fd.Body.List {
		if st == ast.Stmt(loop) {
			after = true
			continue
		}
		if !after {
			continue
		}
		if is, ok := st.(*ast.IfStmt); ok {
			if id, ok := ast.Unparen(is.Cond).(*ast.Ident); ok && info.Uses[id] == hasContent {
				okShape := true
				ps := enumPaths(info, is.Body.List, []armPath{{sets: map[string]string{}}}, classify, idx, &okShape)
				if okShape && len(ps) == 1 && ps[0].appends == 1 {
					tail = true
				}
			}
		}
	}
	c.Check(tail, "R17.2", "shellparse.Parse flushes the last argument after the loop", fd.Pos(), "if hasContent { args = append(args, current.String()) }", "the argument in progress at the end of the input is not appended: the last argument is lost")
}

func binCmpNode(n ast.Node) (x, y ast.Expr, op token.Token, ok bool) {
	e, isE := n.(ast.Expr)
	if !isE {
		return nil, nil, 0, false
	}
	if _, isP := e.(*ast.ParenExpr); isP {
		return nil, nil, 0, false
	}
	return binCmp(e)
}

func dedupStrings(s []string) []string {
	var out []string
	for i, x := range s {
		if i == 0 || x != s[i-1] {
			out = append(out, x)
		}
	}
	return out
}

// ---------------------------------------------------------------------------
// R17.3: callers of shellparse.Parse

func checkParseCallers(c *Ctx, w *World) {
	n := 0
	var paths []string
	for path := range w.Pkgs {
		paths = append(paths, path)
	}
	sort.Strings(paths)
	for _, path := range paths {
		p := w.Pkgs[path]
		if !strings.HasPrefix(path, mainMod) || len(p.Syntax) == 0 {
			continue
		}
		info := p.TypesInfo
		for _, fd := range allFuncs(p) {
			if fd.Body == nil {
				continue
			}
			ast.Inspect(fd.Body, func(nd ast.Node) bool {
				blk, ok := nd.(*ast.BlockStmt)
				if !ok {
					return true
				}
				for i, st := range blk.List {
					var call *ast.CallExpr
					var lhs []ast.Expr
					switch s := st.(type) {
					case *ast.AssignStmt:
						if len(s.Rhs) == 1 {
							call, _ = ast.Unparen(s.Rhs[0]).(*ast.CallExpr)
							lhs = s.Lhs
						}
					case *ast.ExprStmt:
						call, _ = s.X.(*ast.CallExpr)
					}
					if call == nil || !isCallTo(info, call, "internal/shellparse.Parse") {
						continue
					}
					n++
					key := fmt.Sprintf("%s.%s -> shellparse.Parse", p.Types.Name(), declName(fd))
					if len(lhs) != 2 {
						c.Bad("R17.3", key, call.Pos(), "the error result of shellparse.Parse is not received")
						continue
					}
					eid, ok := lhs[1].(*ast.Ident)
					if !ok || eid.Name == "_" {
						c.Bad("R17.3", key, call.Pos(), "the error result of shellparse.Parse is discarded: malformed command lines are executed in whatever form the scanner left them")
						continue
					}
					eobj := info.Defs[eid]
					if eobj == nil {
						eobj = info.Uses[eid]
					}
					good := false
					if i+1 < len(blk.List) {
						if is, ok := blk.List[i+1].(*ast.IfStmt); ok && is.Init == nil {
							if x, y, op, ok := binCmp(is.Cond); ok && op == token.NEQ && isNilIdent(info, y) {
								if id, ok := ast.Unparen(x).(*ast.Ident); ok && info.Uses[id] == eobj {
									for _, bs := range is.Body.List {
										if r, ok := bs.(*ast.ReturnStmt); ok && returnsError(info, r) {
											good = true
										}
										if es, ok := bs.(*ast.ExprStmt); ok && isPanicCall(info, es.X) {
											good = true
										}
									}
								}
							}
						}
					}
					c.Check(good, "R17.3", key, call.Pos(), "if err != nil { return ... error } follows the call", "the statement after the call does not turn a parse error into an error return: malformed input is not reported")
				}
				return true
			})
		}
	}
	if n == 0 {
		c.Undecided("R17.3", "callers of shellparse.Parse", 0, "no call site found")
	}
}

// ---------------------------------------------------------------------------
// R17.4: build tags

func checkBuildTags(c *Ctx, p *packages.Package) {
	info := p.TypesInfo
	fd := findFunc(p, "CheckTags")
	pb := findFunc(p, "parseBuildTags")
	if fd == nil || pb == nil {
		c.Undecided("R17.4", "buildtags.CheckTags/parseBuildTags", 0, "function not found")
		return
	}
	c.nfuncs += 2
	// the context is a copy of build.Default
	var ctxObj types.Object
	fromDefault, tagsFromParser := false, false
	ast.Inspect(fd.Body, func(n ast.Node) bool {
		as, ok := n.(*ast.AssignStmt)
		if !ok || len(as.Lhs) != 1 || len(as.Rhs) != 1 {
			return true
		}
		if id, ok := as.Lhs[0].(*ast.Ident); ok && as.Tok == token.DEFINE {
			if sel, ok := ast.Unparen(as.Rhs[0]).(*ast.SelectorExpr); ok {
				if v, ok := info.Uses[sel.Sel].(*types.Var); ok && v.Pkg() != nil && v.Pkg().Path() == "go/build" && v.Name() == "Default" {
					ctxObj = info.Defs[id]
					fromDefault = true
				}
			}
		}
		if sel, ok := as.Lhs[0].(*ast.SelectorExpr); ok && sel.Sel.Name == "BuildTags" {
			if id, ok := ast.Unparen(sel.X).(*ast.Ident); ok && ctxObj != nil && info.Uses[id] == ctxObj {
				if call, ok := ast.Unparen(as.Rhs[0]).(*ast.CallExpr); ok && isCallTo(info, call, "internal/buildtags.parseBuildTags") {
					tagsFromParser = true
				}
			}
		}
		return true
	})
	c.Check(fromDefault, "R17.4", "buildtags.CheckTags evaluates in a copy of go/build.Default", fd.Pos(), "buildCtx := build.Default", "the build context is not derived from build.Default: GOOS/GOARCH/release tags differ from the go tool's")
	c.Check(tagsFromParser, "R17.4", "buildtags.CheckTags passes the -tags of the build flags to the context", fd.Pos(), "buildCtx.BuildTags = parseBuildTags(buildFlags)", "the context's BuildTags do not come from parseBuildTags(buildFlags): user tags are ignored")
	// marking: testTags[tag] = true only under err == nil && match, both from buildCtx.MatchFile
	marks := 0
	ast.Inspect(fd.Body, func(n ast.Node) bool {
		blk, ok := n.(*ast.BlockStmt)
		if !ok {
			return true
		}
		for i, st := range blk.List {
			is, ok := st.(*ast.IfStmt)
			if !ok {
				continue
			}
			assigns := false
			for _, bs := range is.Body.List {
				if as, ok := bs.(*ast.AssignStmt); ok && len(as.Lhs) == 1 {
					if ix, ok := as.Lhs[0].(*ast.IndexExpr); ok && exprStr(ix.X) == "testTags" {
						if tv, has := info.Types[as.Rhs[0]]; has && tv.Value != nil && tv.Value.ExactString() == "true" {
							assigns = true
						}
					}
				}
			}
			if !assigns {
				continue
			}
			marks++
			// find the MatchFile call defining the condition's variables: the statement before, or the if's init
			var def *ast.AssignStmt
			if is.Init != nil {
				def, _ = is.Init.(*ast.AssignStmt)
			} else if i > 0 {
				def, _ = blk.List[i-1].(*ast.AssignStmt)
			}
			good := false
			why := "the marking is not guarded by the results of Context.MatchFile"
			if def != nil && len(def.Lhs) == 2 && len(def.Rhs) == 1 {
				if call, ok := ast.Unparen(def.Rhs[0]).(*ast.CallExpr); ok {
					if f := calleeOf(info, call); f != nil && qualName(f) == "go/build.Context.MatchFile" {
						mid, _ := def.Lhs[0].(*ast.Ident)
						eid, _ := def.Lhs[1].(*ast.Ident)
						if mid != nil && eid != nil && mid.Name != "_" && eid.Name != "_" {
							mobj, eobj := info.Defs[mid], info.Defs[eid]
							isM := func(e ast.Expr) bool {
								id, ok := ast.Unparen(e).(*ast.Ident)
								return ok && info.Uses[id] == mobj
							}
							isE := func(e ast.Expr) bool {
								x, y, op, ok := binCmp(e)
								if !ok || op != token.EQL || !isNilIdent(info, y) {
									return false
								}
								id, ok := ast.Unparen(x).(*ast.Ident)
								return ok && info.Uses[id] == eobj
							}
							mv, _, mok := condImplies(is.Cond, true, isM)
							ev, _, eok := condImplies(is.Cond, true, isE)
							if mok && mv && eok && ev {
								good = true
							} else {
								why = "the condition " + exprStr(is.Cond) + " does not imply both err == nil and match"
							}
						}
					}
				}
			}
			c.Check(good, "R17.4", "buildtags.CheckTags marks a tag only under err == nil && match of Context.MatchFile", is.Pos(), exprStr(is.Cond), why)
		}
		return true
	})
	if marks == 0 {
		c.Undecided("R17.4", "buildtags.CheckTags marking", fd.Pos(), "no guarded testTags[tag] = true found")
	}
	// the probe file carries the tag in a constraint line
	probe := false
	ast.Inspect(fd.Body, func(n ast.Node) bool {
		if call, ok := n.(*ast.CallExpr); ok && isCallTo(info, call, "fmt.Sprintf") && len(call.Args) == 2 {
			if s, isC := constString(info, call.Args[0]); isC && (strings.HasPrefix(s, "// +build %s\n") || strings.HasPrefix(s, "//go:build %s\n")) && strings.Contains(s, "\n\npackage ") {
				probe = true
			}
		}
		return true
	})
	c.Check(probe, "R17.4", "buildtags.CheckTags probes each tag through a build-constraint line", fd.Pos(), "constraint line + blank line + package clause", "the virtual file does not start with a constraint line for the tag followed by a blank line and a package clause: go/build does not read it as a constraint")
	// separator sets of the FieldsFunc predicates
	var sets []string
	ast.Inspect(pb.Body, func(n ast.Node) bool {
		call, ok := n.(*ast.CallExpr)
		if !ok || !isCallTo(info, call, "strings.FieldsFunc") || len(call.Args) != 2 {
			return true
		}
		lit, ok := call.Args[1].(*ast.FuncLit)
		if !ok {
			sets = append(sets, "?")
			return true
		}
		var rs []string
		shape := len(lit.Body.List) == 1
		if shape {
			r, ok := lit.Body.List[0].(*ast.ReturnStmt)
			shape = ok && len(r.Results) == 1
			if shape {
				var walk func(e ast.Expr)
				walk = func(e ast.Expr) {
					e = ast.Unparen(e)
					if be, ok := e.(*ast.BinaryExpr); ok && be.Op == token.LOR {
						walk(be.X)
						walk(be.Y)
						return
					}
					if _, y, op, ok := binCmp(e); ok && op == token.EQL {
						if tv, has := info.Types[y]; has && tv.Value != nil {
							rs = append(rs, tv.Value.ExactString())
							return
						}
					}
					shape = false
				}
				walk(r.Results[0])
			}
		}
		if !shape {
			sets = append(sets, "?")
			return true
		}
		sort.Strings(rs)
		sets = append(sets, strings.Join(rs, ","))
		return true
	})
	want := "32,44" // ' ' and ','
	good := len(sets) >= 2
	for _, s := range sets {
		if s != want {
			good = false
		}
	}
	c.Check(good, "R17.4", "buildtags.parseBuildTags splits both spellings of -tags at comma and space", pb.Pos(), fmt.Sprintf("%d FieldsFunc predicates, each {' ', ','}", len(sets)), fmt.Sprintf("separator sets %v: \"-tags a,b\" and \"-tags=a,b\" (or the go tool's comma/space rule) are split differently", sets))
}

// ---------------------------------------------------------------------------
// R17.5: single-pass substitution

// templateExpanders are the functions that substitute {name} placeholders from a map.
var templateExpanders = []struct{ pkg, fn string }{
	{"internal/env", "ExpandEnvWithDefault"},
	{"internal/build", "runEmuCmd"},
}

func checkSinglePass(c *Ctx, w *World) {
	// (a) xtool/env: os.Expand
	if p := w.Main("xtool/env"); p != nil {
		info := p.TypesInfo
		fd := findFunc(p, "expandEnvWithCmd")
		if fd == nil {
			c.Undecided("R17.5", "xtool/env.expandEnvWithCmd", 0, "function not found")
		} else {
			c.nfuncs++
			var param types.Object
			if fd.Type.Params != nil && len(fd.Type.Params.List) > 0 && len(fd.Type.Params.List[0].Names) > 0 {
				param = info.Defs[fd.Type.Params.List[0].Names[0]]
			}
			n := 0
			for _, call := range callsIn(fd.Body) {
				if !isCallTo(info, call, "os.Expand") || len(call.Args) != 2 {
					continue
				}
				n++
				arg := ast.Unparen(call.Args[0])
				if se, ok := arg.(*ast.SliceExpr); ok {
					arg = ast.Unparen(se.X)
				}
				id, isId := arg.(*ast.Ident)
				fromInput := isId && param != nil && info.Uses[id] == param
				c.Check(fromInput, "R17.5", fmt.Sprintf("xtool/env.expandEnvWithCmd os.Expand #%d expands the directive text only", n), call.Pos(), "argument is (a slice of) the input string",
					"os.Expand is applied to "+exprStr(call.Args[0])+", which is not a piece of the input: text produced by a $(command) is scanned for $NAME again (a flag such as -Wl,-rpath,$ORIGIN printed by pkg-config loses its variable)")
				mf := false
				if sel, ok := ast.Unparen(call.Args[1]).(*ast.SelectorExpr); ok {
					if f, ok := info.Uses[sel.Sel].(*types.Func); ok && qualName(f) == "os.Getenv" {
						mf = true
					}
				}
				c.Check(mf, "R17.5", fmt.Sprintf("xtool/env.expandEnvWithCmd os.Expand #%d maps names with os.Getenv", n), call.Pos(), "os.Getenv", "the mapping function is "+exprStr(call.Args[1])+", not os.Getenv: $NAME is not replaced by the value of NAME")
			}
			if n == 0 {
				c.Undecided("R17.5", "xtool/env.expandEnvWithCmd os.Expand", fd.Pos(), "no os.Expand call found")
			}
			checkConfigFlag(c, p, fd)
			// subcommand output is taken only from a successful run
			okErr := false
			ast.Inspect(fd.Body, func(nd ast.Node) bool {
				is, ok := nd.(*ast.IfStmt)
				if !ok {
					return true
				}
				if x, y, op, ok := binCmp(is.Cond); ok && op == token.NEQ && isNilIdent(info, y) && exprStr(x) == "err" {
					for _, bs := range is.Body.List {
						if r, ok := bs.(*ast.ReturnStmt); ok && len(r.Results) == 1 {
							if s, isC := constString(info, r.Results[0]); isC && s == "" {
								okErr = true
							}
						}
					}
				}
				return true
			})
			c.Check(okErr, "R17.5", "xtool/env.expandEnvWithCmd uses the output of a subcommand only when it succeeded", fd.Pos(), "if err != nil { return \"\" }", "the output of a failed subcommand is substituted")
		}
	} else {
		c.Undecided("R17.5", "xtool/env", 0, "package not loaded")
	}
	// (b) named template expanders: one Replacer pass
	for _, te := range templateExpanders {
		p := w.Main(te.pkg)
		if p == nil {
			c.Undecided("R17.5", te.pkg+"."+te.fn, 0, "package not loaded")
			continue
		}
		fd := findFunc(p, te.fn)
		if fd == nil {
			c.Undecided("R17.5", te.pkg+"."+te.fn, 0, "function not found")
			continue
		}
		c.nfuncs++
		info := p.TypesInfo
		repl, chained := 0, 0
		var chainPos token.Pos
		for _, call := range callsIn(fd.Body) {
			if f := calleeOf(info, call); f != nil && qualName(f) == "strings.Replacer.Replace" {
				repl++
			}
			if isCallTo(info, call, "strings.ReplaceAll") || isCallTo(info, call, "strings.Replace") {
				chained++
				chainPos = call.Pos()
			}
		}
		key := te.pkg + "." + te.fn + " substitutes all placeholders in one pass"
		switch {
		case chained > 0:
			c.Bad("R17.5", key, chainPos, "placeholders are substituted by successive strings.ReplaceAll calls: a substituted value that itself contains {name} is expanded again or not depending on the (map) order")
		case repl == 1:
			c.OK("R17.5", key, fd.Pos(), "one strings.Replacer.Replace over the template")
		default:
			c.Undecided("R17.5", key, fd.Pos(), fmt.Sprintf("%d Replacer.Replace calls, no known single-pass form", repl))
		}
	}
	// (c) anywhere in the loaded packages: chained replacement inside a range over a map
	n := 0
	var paths []string
	for path := range w.Pkgs {
		paths = append(paths, path)
	}
	sort.Strings(paths)
	for _, path := range paths {
		p := w.Pkgs[path]
		if !strings.HasPrefix(path, mainMod) || len(p.Syntax) == 0 {
			continue
		}
		info := p.TypesInfo
		for _, fd := range allFuncs(p) {
			if fd.Body == nil {
				continue
			}
			ast.Inspect(fd.Body, func(nd ast.Node) bool {
				rs, ok := nd.(*ast.RangeStmt)
				if !ok {
					return true
				}
				if _, isMap := info.TypeOf(rs.X).Underlying().(*types.Map); !isMap {
					return true
				}
				n++
				ast.Inspect(rs.Body, func(m ast.Node) bool {
					as, ok := m.(*ast.AssignStmt)
					if !ok || len(as.Lhs) != 1 || len(as.Rhs) != 1 {
						return true
					}
					call, ok := ast.Unparen(as.Rhs[0]).(*ast.CallExpr)
					if !ok || !(isCallTo(info, call, "strings.ReplaceAll") || isCallTo(info, call, "strings.Replace")) || len(call.Args) < 3 {
						return true
					}
					if exprStr(as.Lhs[0]) == exprStr(call.Args[0]) && as.Tok == token.ASSIGN {
						c.Bad("R17.5", fmt.Sprintf("%s.%s chained replacement in map order", p.Types.Name(), declName(fd)), call.Pos(),
							exprStr(as.Lhs[0])+" is rewritten once per map entry: the result depends on the iteration order whenever a substituted value contains another placeholder")
					}
					return true
				})
				return true
			})
		}
	}
	c.Exists("R17.5", "map ranges scanned for chained replacement", 0, fmt.Sprintf("%d range-over-map loops in the loaded packages", n))
}

// checkConfigFlag: the flag that makes ExpandEnvToArgs split the result as pkg-config output must be set on every
// path of the subcommand closure that yields command output (any return of a non-constant string).
func checkConfigFlag(c *Ctx, p *packages.Package, fd *ast.FuncDecl) {
	info := p.TypesInfo
	var flag types.Object
	if fd.Type.Results != nil && len(fd.Type.Results.List) == 2 {
		// the second result is returned from a local: find "return ..., <ident>"
		ast.Inspect(fd.Body, func(n ast.Node) bool {
			if _, isLit := n.(*ast.FuncLit); isLit {
				return false
			}
			if r, ok := n.(*ast.ReturnStmt); ok && len(r.Results) == 2 {
				if id, ok := ast.Unparen(r.Results[1]).(*ast.Ident); ok {
					flag = info.Uses[id]
				}
			}
			return true
		})
	}
	if flag == nil {
		c.Undecided("R17.5", "xtool/env.expandEnvWithCmd split flag", fd.Pos(), "the boolean result is not returned from a local variable")
		return
	}
	n := 0
	ast.Inspect(fd.Body, func(nd ast.Node) bool {
		lit, ok := nd.(*ast.FuncLit)
		if !ok {
			return true
		}
		// only closures that run a command
		if !containsCallTo(info, lit.Body, "os/exec.Command") && !containsCallTo(info, lit.Body, "os/exec.Cmd.Output") {
			return true
		}
		g := buildLitCFG(p, lit)
		isSet := func(x ast.Node) bool {
			as, ok := x.(*ast.AssignStmt)
			if !ok || len(as.Lhs) != 1 || len(as.Rhs) != 1 {
				return false
			}
			id, ok := ast.Unparen(as.Lhs[0]).(*ast.Ident)
			if !ok || info.Uses[id] != flag {
				return false
			}
			tv, has := info.Types[as.Rhs[0]]
			return has && tv.Value != nil && tv.Value.ExactString() == "true"
		}
		ast.Inspect(lit.Body, func(m ast.Node) bool {
			if inner, ok := m.(*ast.FuncLit); ok && inner != lit {
				return false
			}
			r, ok := m.(*ast.ReturnStmt)
			if !ok || len(r.Results) != 1 {
				return true
			}
			if _, isC := constString(info, r.Results[0]); isC {
				return true // nothing substituted
			}
			n++
			dom, found := g.dominatedBy(r, isSet, nil)
			c.Check(found && dom, "R17.5", fmt.Sprintf("xtool/env.expandEnvWithCmd output return #%d sets the split flag", n), r.Pos(), "config = true on every path to the return",
				"a path returns command output without marking the result as pkg-config output: ExpandEnvToArgs hands the whole flag list on as ONE argument instead of splitting it")
			return true
		})
		return true
	})
	if n == 0 {
		c.Undecided("R17.5", "xtool/env.expandEnvWithCmd split flag", fd.Pos(), "no closure returning command output found")
	}
}

// ---------------------------------------------------------------------------
// R17.6: pkg-config splitter

func checkSafeSplit(c *Ctx, p *packages.Package) {
	info := p.TypesInfo
	fd := findFunc(p, "SplitPkgConfigFlags")
	if fd == nil {
		c.Undecided("R17.6", "safesplit.SplitPkgConfigFlags", 0, "function not found")
		return
	}
	c.nfuncs++
	// every maximal ||-group of byte comparisons that mentions ' ' must mention '\t' too (and vice versa)
	groups, badGroups := 0, 0
	var badPos token.Pos
	var visit func(e ast.Expr, top bool)
	collect := func(e ast.Expr) (vals []int64, pure bool) {
		pure = true
		var walk func(e ast.Expr)
		walk = func(e ast.Expr) {
			e = ast.Unparen(e)
			if be, ok := e.(*ast.BinaryExpr); ok && be.Op == token.LOR {
				walk(be.X)
				walk(be.Y)
				return
			}
			if _, y, op, ok := binCmp(e); ok && op == token.EQL {
				if v, isC := constInt(info, y); isC {
					vals = append(vals, v)
					return
				}
			}
			pure = false
		}
		walk(e)
		return
	}
	visit = func(e ast.Expr, top bool) {
		e = ast.Unparen(e)
		be, ok := e.(*ast.BinaryExpr)
		if !ok {
			return
		}
		if be.Op == token.LOR || (top && be.Op == token.EQL) {
			vals, pure := collect(e)
			hasSp, hasTab := false, false
			for _, v := range vals {
				if v == ' ' {
					hasSp = true
				}
				if v == '\t' {
					hasTab = true
				}
			}
			if pure && (hasSp || hasTab) {
				groups++
				if !(hasSp && hasTab) {
					badGroups++
					badPos = e.Pos()
				}
				return
			}
		}
		if be.Op == token.LAND || be.Op == token.LOR {
			visit(be.X, true)
			visit(be.Y, true)
		}
	}
	ast.Inspect(fd.Body, func(n ast.Node) bool {
		switch s := n.(type) {
		case *ast.IfStmt:
			visit(s.Cond, true)
		case *ast.ForStmt:
			if s.Cond != nil {
				visit(s.Cond, true)
			}
		}
		return true
	})
	if groups < 4 {
		c.Undecided("R17.6", "safesplit.SplitPkgConfigFlags white-space tests", fd.Pos(), fmt.Sprintf("%d white-space tests recognised", groups))
	} else {
		c.Check(badGroups == 0, "R17.6", "safesplit.SplitPkgConfigFlags tests space and tab together everywhere", badPos, fmt.Sprintf("%d white-space tests, each {' ', '\\t'}", groups),
			"one white-space test accepts only one of space and tab: a flag list separated (or escaped) with the other character is split differently from the rest of the scanner")
	}
	// escape arm: if s[i] == '\\' && ... { i++; WriteByte(s[i]); i++; continue }
	esc := 0
	ast.Inspect(fd.Body, func(n ast.Node) bool {
		is, ok := n.(*ast.IfStmt)
		if !ok {
			return true
		}
		isEsc := false
		ast.Inspect(is.Cond, func(m ast.Node) bool {
			if _, y, op, ok := binCmpNode(m); ok && op == token.EQL {
				if v, isC := constInt(info, y); isC && v == '\\' {
					isEsc = true
				}
			}
			return true
		})
		if !isEsc {
			return true
		}
		esc++
		var seq []string
		for _, st := range is.Body.List {
			switch s := st.(type) {
			case *ast.IncDecStmt:
				if s.Tok == token.INC {
					seq = append(seq, "inc")
				} else {
					seq = append(seq, "?")
				}
			case *ast.ExprStmt:
				if call, ok := s.X.(*ast.CallExpr); ok {
					if f := calleeOf(info, call); f != nil && qualName(f) == "strings.Builder.WriteByte" && len(call.Args) == 1 && strings.ReplaceAll(exprStr(call.Args[0]), " ", "") == "s[i]" {
						seq = append(seq, "write")
						continue
					}
				}
				seq = append(seq, "?")
			case *ast.BranchStmt:
				seq = append(seq, strings.ToLower(s.Tok.String()))
			default:
				seq = append(seq, "?")
			}
		}
		got := strings.Join(seq, " ")
		c.Check(got == "inc write inc continue", "R17.6", fmt.Sprintf("safesplit.SplitPkgConfigFlags escape arm #%d", esc), is.Pos(), got,
			"the escape arm is ["+got+"], not [skip the backslash, write the escaped byte, advance, continue]: an escaped space is dropped, kept with its backslash, or ends the argument")
		// the lookahead is bounded
		bounded := false
		ast.Inspect(is.Cond, func(m ast.Node) bool {
			if x, y, op, ok := binCmpNode(m); ok && op == token.LSS && strings.ReplaceAll(exprStr(x), " ", "") == "i+1" && strings.ReplaceAll(exprStr(y), " ", "") == "len(s)" {
				bounded = true
			}
			return true
		})
		c.Check(bounded, "R17.6", fmt.Sprintf("safesplit.SplitPkgConfigFlags escape arm #%d looks ahead within the string", esc), is.Pos(), "i+1 < len(s)", "the escape test reads s[i+1] without i+1 < len(s): a trailing backslash panics")
		return true
	})
	if esc == 0 {
		c.Undecided("R17.6", "safesplit.SplitPkgConfigFlags escape arm", fd.Pos(), "no test for a backslash found")
	}
}

func init() {
	addMutant(Mutant{Prop: "C17", Name: "parse-single-quote-unescapes", File: "internal/shellparse/shellparse.go",
		Old: "\t\t\tif quoteChar == '\"' {\n\t\t\t\tnext := runes[i+1]", New: "\t\t\tif quoteChar != 0 {\n\t\t\t\tnext := runes[i+1]", Expect: "R17.2 shellparse.Parse arm content"})
	addMutant(Mutant{Prop: "C17", Name: "expand-config-after-early-return", File: "xtool/env/env.go",
		Old: "\t\tconfig = true\n\n\t\tvar out []byte", New: "\t\tif v := os.Getenv(\"LLGO_CFG_\" + cmd); v != \"\" {\n\t\t\treturn v\n\t\t}\n\t\tconfig = true\n\n\t\tvar out []byte", Expect: "R17.5 xtool/env.expandEnvWithCmd output return"})
	addMutant(Mutant{Prop: "C17", Name: "parse-no-unterminated-error", File: "internal/shellparse/shellparse.go",
		Old: "\tif inQuotes {\n\t\treturn nil, fmt.Errorf(\"unterminated quote in command: %s\", cmd)\n\t}\n", New: "\t_ = fmt.Sprint\n", Expect: "R17.1"})
	addMutant(Mutant{Prop: "C17", Name: "parse-unterminated-after-flush", File: "internal/shellparse/shellparse.go",
		Old: "\tif inQuotes {\n\t\treturn nil, fmt.Errorf(", New: "\tif inQuotes && !hasContent {\n\t\treturn nil, fmt.Errorf(", Expect: "R17.1"})
	addMutant(Mutant{Prop: "C17", Name: "parse-escape-drops-backslash", File: "internal/shellparse/shellparse.go",
		Old: "\t\t\t\t} else {\n\t\t\t\t\tcurrent.WriteRune(r)\n\t\t\t\t}\n", New: "\t\t\t\t}\n", Expect: "R17.2 shellparse.Parse arm content"})
	addMutant(Mutant{Prop: "C17", Name: "parse-escape-no-skip", File: "internal/shellparse/shellparse.go",
		Old: "\t\t\t\t\tcurrent.WriteRune(next)\n\t\t\t\t\ti++ // Skip the next rune\n", New: "\t\t\t\t\tcurrent.WriteRune(next)\n", Expect: "R17.2 shellparse.Parse arm content"})
	addMutant(Mutant{Prop: "C17", Name: "parse-empty-quotes-dropped", File: "internal/shellparse/shellparse.go",
		Old: "\t\t\tquoteChar = r\n\t\t\thasContent = true // Empty quotes still count as content\n", New: "\t\t\tquoteChar = r\n", Expect: "R17.2 shellparse.Parse arm open"})
	addMutant(Mutant{Prop: "C17", Name: "parse-flush-no-reset", File: "internal/shellparse/shellparse.go",
		Old: "\t\t\t\targs = append(args, current.String())\n\t\t\t\tcurrent.Reset()\n", New: "\t\t\t\targs = append(args, current.String())\n", Expect: "R17.2 shellparse.Parse arm space"})
	addMutant(Mutant{Prop: "C17", Name: "parse-no-tail-flush", File: "internal/shellparse/shellparse.go",
		Old: "\tif hasContent {\n\t\targs = append(args, current.String())\n\t}\n\n\treturn args, nil", New: "\tif hasContent && current.Len() > 0 {\n\t\targs = append(args, current.String())\n\t}\n\n\treturn args, nil", Expect: "R17.2 shellparse.Parse flushes"})
	addMutant(Mutant{Prop: "C17", Name: "flash-parse-error-dropped", File: "internal/flash/flash.go",
		Old: "\tparts, err := shellparse.Parse(expandedCommand)\n\tif err != nil {\n\t\treturn fmt.Errorf(\"failed to parse flash command: %w\", err)\n\t}", New: "\tparts, _ := shellparse.Parse(expandedCommand)", Expect: "R17.3"})
	addMutant(Mutant{Prop: "C17", Name: "tags-match-without-err", File: "internal/buildtags/buildtags.go",
		Old: "if err == nil && match {", New: "if err != nil || match {", Expect: "R17.4 buildtags.CheckTags marks"})
	addMutant(Mutant{Prop: "C17", Name: "tags-eq-form-comma-only", File: "internal/buildtags/buildtags.go",
		Old: "\t\t\ttags := strings.FieldsFunc(value, func(r rune) bool {\n\t\t\t\treturn r == ',' || r == ' '", New: "\t\t\ttags := strings.FieldsFunc(value, func(r rune) bool {\n\t\t\t\treturn r == ','", Expect: "R17.4 buildtags.parseBuildTags"})
	addMutant(Mutant{Prop: "C17", Name: "expand-after-subcmd", File: "xtool/env/env.go",
		Old: "\texpanded.WriteString(os.Expand(s[last:], os.Getenv))\n\treturn strings.TrimSpace(expanded.String()), config", New: "\texpanded.WriteString(s[last:])\n\tres := expanded.String()\n\treturn strings.TrimSpace(os.Expand(res, os.Getenv)), config", Expect: "R17.5 xtool/env.expandEnvWithCmd os.Expand"})
	addMutant(Mutant{Prop: "C17", Name: "template-chained-replace", File: "internal/env/utils.go",
		Old: "\treturn strings.NewReplacer(pairs...).Replace(template)", New: "\tresult := template\n\tfor key, value := range envs {\n\t\tresult = strings.ReplaceAll(result, \"{\"+key+\"}\", value)\n\t}\n\t_ = pairs\n\treturn result", Expect: "R17.5"})
	addMutant(Mutant{Prop: "C17", Name: "safesplit-escape-tab-forgotten", File: "xtool/safesplit/safesplit.go",
		Old: "if s[i] == '\\\\' && i+1 < len(s) && (s[i+1] == ' ' || s[i+1] == '\\t') {", New: "if s[i] == '\\\\' && i+1 < len(s) && s[i+1] == ' ' {", Expect: "R17.6 safesplit.SplitPkgConfigFlags tests space and tab"})
	addMutant(Mutant{Prop: "C17", Name: "safesplit-escape-keeps-backslash", File: "xtool/safesplit/safesplit.go",
		Old: "\t\t\t\t// Skip backslash and write the escaped space\n\t\t\t\ti++\n\t\t\t\tcurrent.WriteByte(s[i])", New: "\t\t\t\tcurrent.WriteByte(s[i])\n\t\t\t\ti++", Expect: "R17.6 safesplit.SplitPkgConfigFlags escape arm"})
}
