package main

import (
	"bufio"
	"encoding/json"
	"fmt"
	"go/token"
	"os"
	"path/filepath"
	"runtime"
	"sort"
	"strings"
	"time"
)

// Verdicts of an obligation.
const (
	Discharged = "discharged"
	Violated   = "violated"
	Undecided  = "undecided"
)

// Obligation is one instance of a rule on one construct of /repo.
// Key (rule+construct) is stable under line moves; Pos is only for diagnosis.
type Obligation struct {
	Rule       string `json:"rule"`
	Construct  string `json:"construct"`
	Pos        string `json:"pos,omitempty"`
	Verdict    string `json:"verdict"`
	Witness    string `json:"witness,omitempty"`
	Config     string `json:"config,omitempty"`
	Nontrivial bool   `json:"nontrivial"`
	Known      bool   `json:"known_finding,omitempty"`
}

func (o Obligation) Key() string { return o.Rule + " " + o.Construct }

type ruleInfo struct {
	ID   string `json:"id"`
	Desc string `json:"desc"`
	Min  int    `json:"min_instances"`
	N    int    `json:"instances"`
}

// Ctx collects the obligations of one property check.
type Ctx struct {
	Prop    string
	Tier    string
	Config  string // current configuration label
	obls    []Obligation
	seen    map[string]int // key -> index (dedupe across configurations)
	rules   map[string]*ruleInfo
	order   []string
	pkgs    map[string]bool
	nfuncs  int
	configs []string
	notes   []string
	assume  []string
	fset    *token.FileSet
	evals   int // abstract evaluations performed by E6 (orderings x scalings), added to coverage.evaluations
}

func newCtx(prop, tier string) *Ctx {
	return &Ctx{Prop: prop, Tier: tier, seen: map[string]int{}, rules: map[string]*ruleInfo{}, pkgs: map[string]bool{}}
}

// Rule declares a rule and the number of instances confirmed by hand on the reference tree.
func (c *Ctx) Rule(id, desc string, min int) {
	if _, ok := c.rules[id]; ok {
		return
	}
	c.rules[id] = &ruleInfo{ID: id, Desc: desc, Min: min}
	c.order = append(c.order, id)
}

func (c *Ctx) posStr(p token.Pos) string {
	if c.fset == nil || !p.IsValid() {
		return ""
	}
	pp := c.fset.Position(p)
	f := pp.Filename
	if r, err := filepath.Rel("/repo", f); err == nil && !strings.HasPrefix(r, "..") {
		f = r
	}
	return fmt.Sprintf("%s:%d", f, pp.Line)
}

func (c *Ctx) add(rule, construct string, pos token.Pos, verdict, witness string, nontrivial bool) {
	if _, ok := c.rules[rule]; !ok {
		panic("undeclared rule " + rule)
	}
	o := Obligation{Rule: rule, Construct: construct, Pos: c.posStr(pos), Verdict: verdict, Witness: witness, Config: c.Config, Nontrivial: nontrivial}
	if i, ok := c.seen[o.Key()]; ok {
		// same obligation seen under another configuration: keep the worst verdict
		old := c.obls[i]
		if rank(verdict) > rank(old.Verdict) {
			c.obls[i] = o
		}
		return
	}
	c.seen[o.Key()] = len(c.obls)
	c.obls = append(c.obls, o)
}

func rank(v string) int {
	switch v {
	case Violated:
		return 2
	case Undecided:
		return 1
	}
	return 0
}

// OK records a discharged obligation whose decision needed a path/table/flow argument.
func (c *Ctx) OK(rule, construct string, pos token.Pos, witness string) {
	c.add(rule, construct, pos, Discharged, witness, true)
}

// Exists records a discharged obligation that is mere existence/resolution (trivial).
func (c *Ctx) Exists(rule, construct string, pos token.Pos, witness string) {
	c.add(rule, construct, pos, Discharged, witness, false)
}

func (c *Ctx) Bad(rule, construct string, pos token.Pos, witness string) {
	c.add(rule, construct, pos, Violated, witness, true)
}

func (c *Ctx) Undecided(rule, construct string, pos token.Pos, witness string) {
	c.add(rule, construct, pos, Undecided, witness, true)
}

// Check is OK or Bad depending on cond.
func (c *Ctx) Check(cond bool, rule, construct string, pos token.Pos, okw, badw string) {
	if cond {
		c.OK(rule, construct, pos, okw)
	} else {
		c.Bad(rule, construct, pos, badw)
	}
}

func (c *Ctx) Note(format string, a ...any)   { c.notes = append(c.notes, fmt.Sprintf(format, a...)) }
func (c *Ctx) Assume(format string, a ...any) { c.assume = append(c.assume, fmt.Sprintf(format, a...)) }

// ---------------------------------------------------------------------------
// known findings

type knownFinding struct {
	Prop, Rule, Construct, Text string
}

func verifDir() string {
	if d := os.Getenv("LLGOVERIF_DIR"); d != "" {
		return d
	}
	exe, err := os.Executable()
	if err == nil {
		d := filepath.Dir(filepath.Dir(exe))
		if _, err := os.Stat(filepath.Join(d, "properties.jsonl")); err == nil {
			return d
		}
	}
	return "/verif"
}

func loadKnown() []knownFinding {
	f, err := os.Open(filepath.Join(verifDir(), "known_findings.txt"))
	if err != nil {
		return nil
	}
	defer f.Close()
	var out []knownFinding
	sc := bufio.NewScanner(f)
	sc.Buffer(make([]byte, 1<<20), 1<<20)
	for sc.Scan() {
		line := strings.TrimSpace(sc.Text())
		if !strings.HasPrefix(line, "finding:") {
			continue // "fixed:" lines and comments suppress nothing
		}
		rest := strings.TrimSpace(strings.TrimPrefix(line, "finding:"))
		head, text, _ := strings.Cut(rest, " — ")
		var k knownFinding
		k.Text = text
		// property=<id> rule=<rule> construct=<key...>
		if i := strings.Index(head, "construct="); i >= 0 {
			k.Construct = strings.TrimSpace(head[i+len("construct="):])
			head = head[:i]
		}
		for _, f := range strings.Fields(head) {
			if v, ok := strings.CutPrefix(f, "property="); ok {
				k.Prop = v
			}
			if v, ok := strings.CutPrefix(f, "rule="); ok {
				k.Rule = v
			}
		}
		out = append(out, k)
	}
	return out
}

// ---------------------------------------------------------------------------
// finishing a check: evidence, verdict lines, exit code

type evidence struct {
	PropertyID  string         `json:"property_id"`
	Tier        string         `json:"tier"`
	Seed        int            `json:"seed"`
	Level       string         `json:"level"`
	Coverage    map[string]any `json:"coverage"`
	Assumptions []string       `json:"assumptions"`
	WallS       float64        `json:"wall_s"`
	Violations  int            `json:"violations"`
}

func (c *Ctx) finish(start time.Time, explanation string) int {
	known := loadKnown()
	isKnown := func(o Obligation) *knownFinding {
		for i := range known {
			k := &known[i]
			if k.Prop == c.Prop && k.Rule == o.Rule && k.Construct == o.Construct {
				return k
			}
		}
		return nil
	}
	// rule instance counts
	for _, o := range c.obls {
		c.rules[o.Rule].N++
	}
	for _, id := range c.order {
		r := c.rules[id]
		if r.N < r.Min {
			c.obls = append(c.obls, Obligation{Rule: id, Construct: "min_instances", Verdict: Undecided, Nontrivial: true,
				Witness: fmt.Sprintf("rule matched %d instances, expected >= %d (anchors moved or idiom no longer recognised)", r.N, r.Min)})
		}
	}
	sort.SliceStable(c.obls, func(i, j int) bool { return c.obls[i].Key() < c.obls[j].Key() })

	evdir := filepath.Join(verifDir(), "evidence")
	os.MkdirAll(filepath.Join(evdir, "replay"), 0o755)
	// remove stale replay files of this property
	if old, _ := filepath.Glob(filepath.Join(evdir, "replay", c.Prop+"-*.json")); len(old) > 0 {
		for _, f := range old {
			os.Remove(f)
		}
	}

	var nDis, nViol, nUnd, nKnown, nNontriv int
	distinct := map[string]bool{}
	var lines []string
	var knownLines []string
	nrep := 0
	for i := range c.obls {
		o := &c.obls[i]
		switch o.Verdict {
		case Discharged:
			nDis++
		case Violated, Undecided:
			if k := isKnown(*o); k != nil && o.Verdict == Violated {
				o.Known = true
				nKnown++
				knownLines = append(knownLines, fmt.Sprintf("KNOWN-FINDING: property=%s %s [%s] %s", c.Prop, o.Key(), o.Pos, k.Text))
				break
			}
			if o.Verdict == Violated {
				nViol++
			} else {
				nUnd++
			}
			nrep++
			rp := filepath.Join(evdir, "replay", fmt.Sprintf("%s-%d.json", c.Prop, nrep))
			b, _ := json.MarshalIndent(map[string]any{"property": c.Prop, "obligation": o, "how": "llgoverif replay " + rp}, "", " ")
			os.WriteFile(rp, b, 0o644)
			lines = append(lines, fmt.Sprintf("  %s %s: %s [%s] %s", strings.ToUpper(o.Verdict), o.Rule, o.Construct, o.Pos, o.Witness))
			lines = append(lines, fmt.Sprintf("VIOLATION property=%s replay=%s", c.Prop, rp))
		}
		if o.Nontrivial && !distinct[o.Key()] {
			distinct[o.Key()] = true
			nNontriv++
		}
	}

	// samples: every non-discharged obligation + a spread of discharged ones per rule
	var samples []Obligation
	perRule := map[string]int{}
	for _, o := range c.obls {
		if o.Verdict != Discharged {
			samples = append(samples, o)
			continue
		}
		if perRule[o.Rule] < 4 {
			perRule[o.Rule]++
			samples = append(samples, o)
		}
	}
	var rules []ruleInfo
	for _, id := range c.order {
		rules = append(rules, *c.rules[id])
	}
	var pk []string
	for p := range c.pkgs {
		pk = append(pk, p)
	}
	sort.Strings(pk)
	kf := []string{}
	for _, l := range knownLines {
		kf = append(kf, l)
	}
	ev := evidence{
		PropertyID: c.Prop, Tier: c.Tier, Seed: 0, Level: "other",
		Coverage: map[string]any{
			"explanation":         explanation,
			"rule":                "obligation = (rule, construct) enumerated from /repo's type-checked source on this run; non-trivial = decided by a path, table, flow or cross-module argument rather than mere existence; distinct by rule+construct key",
			"obligations":         len(c.obls),
			"discharged":          nDis,
			"evaluations":         len(c.obls) + c.evals,
			"abstract_evaluations": c.evals,
			"distinct_nontrivial": nNontriv,
			"violated":            nViol,
			"undecided":           nUnd,
			"known_findings":      kf,
			"exhaustive":          true,
			"samples":             samples,
			"rules":               rules,
			"packages":            pk,
			"functions_analysed":  c.nfuncs,
			"configs":             c.configs,
			"notes":               c.notes,
			"checker_cmd":         "bin/llgoverif check " + c.Prop + " --tier " + c.Tier,
			"trusted_base":        []string{"go/types, go/packages, go/cfg, go/ssa (x/tools v0.50.0)", "oracle tables frozen in /verif/checker (cited in DESIGN.md)", "go " + runtime.Version()},
		},
		Assumptions: append([]string{"structural necessary conditions only: the listed rules are decided for all paths/rows/fields/sites of the analysed source; the behaviour of emitted code is not established"}, c.assume...),
		WallS:       time.Since(start).Seconds(),
		Violations:  nViol + nUnd,
	}
	b, _ := json.MarshalIndent(ev, "", " ")
	if err := os.WriteFile(filepath.Join(evdir, c.Prop+".json"), b, 0o644); err != nil {
		fmt.Println("cannot write evidence:", err)
		return 2
	}
	fmt.Printf("%s tier=%s: %d obligations, %d discharged, %d violated, %d undecided, %d known findings; %d packages, %d functions, configs=%v, %.1fs\n",
		c.Prop, c.Tier, len(c.obls), nDis, nViol, nUnd, nKnown, len(pk), c.nfuncs, c.configs, ev.WallS)
	for _, id := range c.order {
		r := c.rules[id]
		fmt.Printf("  rule %-7s instances=%-4d (min %d) %s\n", r.ID, r.N, r.Min, r.Desc)
	}
	for _, l := range knownLines {
		fmt.Println(l)
	}
	for _, l := range lines {
		fmt.Println(l)
	}
	if nViol+nUnd > 0 {
		return 1
	}
	return 0
}

// problems returns the keys of all non-discharged obligations (used by selftest).
func (c *Ctx) problems() map[string]Obligation {
	m := map[string]Obligation{}
	for _, o := range c.obls {
		if o.Verdict != Discharged {
			m[o.Key()] = o
		}
	}
	return m
}
