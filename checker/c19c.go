package main

import (
	"fmt"
	"go/ast"
	"go/token"
	"go/types"
	"regexp"
	"strings"

	"golang.org/x/tools/go/packages"
)

// nulTerminatedCtor matches the CPython value constructors that read their argument up to the first NUL byte.
var nulTerminatedCtor = regexp.MustCompile(`^Py(Unicode|Bytes|ByteArray)_FromString$`)
var sizedCtor = regexp.MustCompile(`^Py(Unicode|Bytes|ByteArray)_FromStringAndSize$`)

// evalNulPred evaluates a condition built from strings.IndexByte/IndexRune/Index/Contains/ContainsRune/
// ContainsAny(<v>, NUL) compared with integer constants, !, && and ||, under the hypothesis that v's first NUL
// byte is at index idx (idx < 0: v holds no NUL byte).
func evalNulPred(info *types.Info, e ast.Expr, v string, idx int64) (bool, bool) {
	e = ast.Unparen(e)
	nulCall := func(x ast.Expr) (name string, ok bool) {
		call, isCall := ast.Unparen(x).(*ast.CallExpr)
		if !isCall || len(call.Args) != 2 {
			return "", false
		}
		f := calleeOf(info, call)
		if f == nil || f.Pkg() == nil || (f.Pkg().Path() != "strings" && f.Pkg().Path() != "bytes") {
			return "", false
		}
		if id, isID := ast.Unparen(call.Args[0]).(*ast.Ident); !isID || id.Name != v {
			return "", false
		}
		if n, isInt := constInt(info, call.Args[1]); isInt {
			if n != 0 {
				return "", false
			}
		} else if s, isStr := constString(info, call.Args[1]); !isStr || s != "\x00" {
			return "", false
		}
		return f.Name(), true
	}
	switch x := e.(type) {
	case *ast.UnaryExpr:
		if x.Op == token.NOT {
			r, ok := evalNulPred(info, x.X, v, idx)
			return !r, ok
		}
	case *ast.CallExpr:
		if name, ok := nulCall(x); ok {
			switch name {
			case "Contains", "ContainsRune", "ContainsAny":
				return idx >= 0, true
			}
		}
	case *ast.BinaryExpr:
		switch x.Op {
		case token.LAND, token.LOR:
			a, ok1 := evalNulPred(info, x.X, v, idx)
			b, ok2 := evalNulPred(info, x.Y, v, idx)
			if !ok1 || !ok2 {
				return false, false
			}
			if x.Op == token.LAND {
				return a && b, true
			}
			return a || b, true
		}
		l, r, op := x.X, x.Y, x.Op
		if _, isC := constInt(info, l); isC {
			l, r = r, l
			switch op {
			case token.LSS:
				op = token.GTR
			case token.GTR:
				op = token.LSS
			case token.LEQ:
				op = token.GEQ
			case token.GEQ:
				op = token.LEQ
			}
		}
		name, ok := nulCall(l)
		k, isC := constInt(info, r)
		if !ok || !isC {
			return false, false
		}
		switch name {
		case "IndexByte", "IndexRune", "Index", "IndexAny":
		default:
			return false, false
		}
		got := idx
		if idx < 0 {
			got = -1
		}
		switch op {
		case token.EQL:
			return got == k, true
		case token.NEQ:
			return got != k, true
		case token.LSS:
			return got < k, true
		case token.LEQ:
			return got <= k, true
		case token.GTR:
			return got > k, true
		case token.GEQ:
			return got >= k, true
		}
	}
	return false, false
}

// checkPyNulTerminatedCtors (R19.9): a Go string may hold NUL bytes; a Python value built from it through a
// constructor that stops at the first NUL (PyUnicode_FromString, ...) is cut short.  Every call of such a
// constructor on CStr(<string parameter>) must be unreachable for a value that holds a NUL byte, and the path
// taken instead must reach a constructor that is given the length.
func checkPyNulTerminatedCtors(c *Ctx, sp *packages.Package) {
	c.Rule("R19.9", "a Go string value is handed to a NUL-terminated CPython value constructor only on paths where it holds no NUL byte; otherwise a constructor that receives the length is used", 1)
	info := sp.TypesInfo
	n := 0
	for _, fd := range allFuncs(sp) {
		if fd.Body == nil {
			continue
		}
		// variables bound to pyFunc("<NUL-terminated constructor>", ...)
		ctorVars := map[types.Object]string{}
		ast.Inspect(fd.Body, func(x ast.Node) bool {
			as, ok := x.(*ast.AssignStmt)
			if !ok || len(as.Lhs) != 1 || len(as.Rhs) != 1 {
				return true
			}
			call, ok := ast.Unparen(as.Rhs[0]).(*ast.CallExpr)
			if !ok || len(call.Args) == 0 {
				return true
			}
			if f := calleeOf(info, call); f == nil || f.Name() != "pyFunc" {
				return true
			}
			if s, ok := constString(info, call.Args[0]); ok && nulTerminatedCtor.MatchString(s) {
				if id, ok := as.Lhs[0].(*ast.Ident); ok {
					if o := info.ObjectOf(id); o != nil {
						ctorVars[o] = s
					}
				}
			}
			return true
		})
		// constructors that receive the length carry any Go string whole
		for _, call := range callsIn(fd.Body) {
			if f := calleeOf(info, call); f != nil && f.Name() == "pyFunc" && len(call.Args) > 0 {
				if s, ok := constString(info, call.Args[0]); ok && sizedCtor.MatchString(s) {
					n++
					c.Check(true, "R19.9", fmt.Sprintf("ssa.%s: %s receives the length", declName(fd), s), call.Pos(), "sized constructor", "")
				}
			}
		}
		if len(ctorVars) == 0 {
			continue
		}
		c.nfuncs++
		for _, call := range callsIn(fd.Body) {
			if len(call.Args) < 2 {
				continue
			}
			id, ok := ast.Unparen(call.Args[0]).(*ast.Ident)
			if !ok {
				continue
			}
			ctor, ok := ctorVars[info.ObjectOf(id)]
			if !ok {
				continue
			}
			for _, a := range call.Args[1:] {
				inner, ok := ast.Unparen(a).(*ast.CallExpr)
				if !ok || len(inner.Args) != 1 {
					n++
					c.Undecided("R19.9", fmt.Sprintf("ssa.%s: argument of %s", declName(fd), ctor), call.Pos(), "argument is not CStr(<string>): "+exprStr(a))
					continue
				}
				if f := calleeOf(info, inner); f == nil || f.Name() != "CStr" {
					n++
					c.Undecided("R19.9", fmt.Sprintf("ssa.%s: argument of %s", declName(fd), ctor), call.Pos(), "argument is not CStr(<string>): "+exprStr(a))
					continue
				}
				if lit, isConst := constString(info, inner.Args[0]); isConst {
					n++
					c.Check(!strings.Contains(lit, "\x00"), "R19.9", fmt.Sprintf("ssa.%s: %s on a constant without NUL", declName(fd), ctor), call.Pos(), "constant holds no NUL byte", "constant holds a NUL byte")
					continue
				}
				vid, ok := ast.Unparen(inner.Args[0]).(*ast.Ident)
				if !ok {
					n++
					c.Undecided("R19.9", fmt.Sprintf("ssa.%s: argument of %s", declName(fd), ctor), call.Pos(), "CStr argument is not a variable: "+exprStr(inner.Args[0]))
					continue
				}
				n++
				conds := pathConds(fd.Body, call)
				reach := func(idx int64) bool {
					for _, cp := range conds {
						if r, ok := evalNulPred(info, cp.cond, vid.Name, idx); ok && r != cp.pol {
							return false
						}
					}
					return true
				}
				excluded := !reach(0) && !reach(1) && !reach(7)
				c.Check(excluded && reach(-1), "R19.9", fmt.Sprintf("ssa.%s: %s(CStr(%s)) only for values without NUL", declName(fd), ctor, vid.Name), call.Pos(),
					"path conditions exclude a value holding a NUL byte",
					fmt.Sprintf("%s reads up to the first NUL: a Go string holding a NUL byte arrives in Python cut short (py.Str(\"a\\x00b\") is \"a\")", ctor))
				// the path taken by a value with a NUL must pass its length
				sized := false
				for _, other := range callsIn(fd.Body) {
					if other == call {
						continue
					}
					oc := pathConds(fd.Body, other)
					okPath := true
					for _, cp := range oc {
						if r, ok := evalNulPred(info, cp.cond, vid.Name, 1); ok && r != cp.pol {
							okPath = false
						}
					}
					if !okPath {
						continue
					}
					if f := calleeOf(info, other); f != nil && f.Pkg() == sp.Types {
						if hd := findFunc(sp, declNameOfFunc(f)); hd != nil && hd != fd {
							for _, hc := range callsIn(hd.Body) {
								if hf := calleeOf(info, hc); hf != nil && hf.Name() == "pyFunc" && len(hc.Args) > 0 {
									if s, ok := constString(info, hc.Args[0]); ok && sizedCtor.MatchString(s) {
										sized = true
									}
								}
							}
						}
						if f.Name() == "pyFunc" && len(other.Args) > 0 {
							if s, ok := constString(info, other.Args[0]); ok && sizedCtor.MatchString(s) {
								sized = true
							}
						}
					}
				}
				c.Check(sized, "R19.9", fmt.Sprintf("ssa.%s: a value holding NUL reaches a sized constructor", declName(fd)), fd.Pos(),
					"the NUL path calls a *_FromStringAndSize constructor", "no constructor that receives the length is reachable for a value holding a NUL byte")
			}
		}
	}
	if n == 0 {
		c.Undecided("R19.9", "ssa: NUL-terminated value constructors", 0, "no pyFunc(\"Py*_FromString\") call on CStr(<string>) found (constructor renamed?)")
	}
}

func init() {
	addMutant(Mutant{Prop: "C19", Name: "pystr-always-nul-terminated", File: "ssa/python.go",
		Old: "\tif strings.IndexByte(v, 0) >= 0 {\n", New: "\tif false && strings.IndexByte(v, 0) >= 0 {\n", Expect: "R19.9"})
	addMutant(Mutant{Prop: "C19", Name: "pystr-nul-test-misses-index-zero", File: "ssa/python.go",
		Old: "\tif strings.IndexByte(v, 0) >= 0 {\n", New: "\tif strings.IndexByte(v, 0) > 0 {\n", Expect: "R19.9"})
	addMutant(Mutant{Prop: "C19", Name: "pystr-nul-path-truncates", File: "ssa/python.go",
		Old: "\t\treturn b.PyStrExpr(b.Str(v))\n", New: "\t\tv = v[:strings.IndexByte(v, 0)]\n", Expect: "R19.9"})
}

// declNameOfFunc gives the name under which findFunc knows f ("Recv.Name" for methods).
func declNameOfFunc(f *types.Func) string {
	if sig, ok := f.Type().(*types.Signature); ok && sig.Recv() != nil {
		t := sig.Recv().Type()
		if a, ok := t.(*types.Alias); ok { // written as in the declaration: func (b Builder) ...
			return a.Obj().Name() + "." + f.Name()
		}
		if p, ok := t.(*types.Pointer); ok {
			t = p.Elem()
		}
		if a, ok := t.(*types.Alias); ok {
			return a.Obj().Name() + "." + f.Name()
		}
		if n, ok := t.(*types.Named); ok {
			return n.Obj().Name() + "." + f.Name()
		}
	}
	return f.Name()
}
