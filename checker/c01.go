package main

import (
	"fmt"
	"go/ast"
	"go/token"
	"go/types"
	"sort"
	"strings"

	"golang.org/x/tools/go/packages"
)

func init() { register("C01", checkC01) }

func checkC01(c *Ctx) (string, error) {
	w, err := loadMain(defaultCfg, "cl", "ssa", "ssa/abi", "internal/build", "internal/optlevel")
	if err != nil {
		return "", err
	}
	c.use(w)
	cp, sp, ap, bp, op := w.Main("cl"), w.Main("ssa"), w.Main("ssa/abi"), w.Main("internal/build"), w.Main("internal/optlevel")

	c.Rule("R01.1", "every go/ssa instruction and value type has a lowering arm (type-parameter-only forms are excluded by instantiating generics)", 30)
	c.Rule("R01.2", "generics are instantiated before lowering and generic templates are skipped", 2)
	c.Rule("R01.3", "every operator admitted by go/types has a lowering: arithmetic x {signed,unsigned,float}, bitwise, comparisons per comparable kind, unary operators", 30)
	c.Rule("R01.4", "every builtin go/ssa can hand to the emitter has a case", 20)
	c.Rule("R01.5", "function values have one representation: the two-field closure struct written by the type converter is the one every predicate tests for", 3)
	c.Rule("R01.6", "every optimisation level has a name and a flag, and the pass pipeline is built from the effective level", 8)
	c.Rule("R01.7", "operand-order fix-ups: a load is sunk below the LAST call that can modify its variable (last-match scans do not stop at the first match)", 1)

	checkInstrCoverage(c, cp)
	checkGenericsMode(c, bp, cp)
	checkOperatorCoverage(c, sp)
	checkBuiltinCoverage(c, sp, cp)
	checkClosureRepr(c, sp, ap)
	checkOptLevels(c, op, bp)
	checkLastMatchScans(c, bp)
	checkLoadForwarding(c, cp)
	checkStraightLineEmitters(c, sp)
	return "C01 (coverage only): exhaustiveness of the lowering over go/ssa's instruction and value types (enumerated from the go/ssa version in go.mod), over the operator x operand-kind domain go/types admits, over go/ssa's builtin set, and over the optimisation levels; generics instantiated before lowering; one closure representation shared by writer and predicates; last-match discipline in the operand-order fix-up pass. The behavioural statement - output equality with the Go toolchain for all programs - is NOT decided by any of this: that an arm exists says nothing about whether it emits correct IR, places phis correctly or orders side effects correctly.", nil
}

func checkInstrCoverage(c *Ctx, cp *packages.Package) {
	ssaPkg := cp.Imports["golang.org/x/tools/go/ssa"]
	if ssaPkg == nil || ssaPkg.Types == nil {
		c.Undecided("R01.1", "go/ssa package", 0, "golang.org/x/tools/go/ssa not among cl's imports")
		return
	}
	scope := ssaPkg.Types.Scope()
	instrI, _ := scope.Lookup("Instruction").Type().Underlying().(*types.Interface)
	valueI, _ := scope.Lookup("Value").Type().Underlying().(*types.Interface)
	if instrI == nil || valueI == nil {
		c.Undecided("R01.1", "go/ssa interfaces", 0, "Instruction/Value not found")
		return
	}
	covered := map[string]bool{}
	for _, fn := range []string{"context.compileInstrOrValue", "context.compileInstr", "context.compileValue"} {
		fd := findFunc(cp, fn)
		if fd == nil {
			c.Bad("R01.1", "cl."+fn, 0, "function not found")
			continue
		}
		c.nfuncs++
		ast.Inspect(fd.Body, func(n ast.Node) bool {
			if cc, ok := n.(*ast.CaseClause); ok {
				for _, e := range cc.List {
					s := exprStr(e)
					if strings.HasPrefix(s, "*ssa.") {
						covered[strings.TrimPrefix(s, "*ssa.")] = true
					}
				}
			}
			return true
		})
	}
	// dedicated lowering functions taking the instruction as a parameter (compilePhi(b, *ssa.Phi), ...)
	for _, fd := range allFuncs(cp) {
		for _, f := range fd.Type.Params.List {
			if t := exprStr(f.Type); strings.HasPrefix(t, "*ssa.") && strings.HasPrefix(fd.Name.Name, "compile") {
				covered[strings.TrimPrefix(t, "*ssa.")] = true
			}
		}
	}
	excluded := map[string]string{
		"MultiConvert": "only produced for conversions involving type parameters; unreachable while generics are instantiated (R01.2)",
		"Function":     "a value, handled by compileValue's function path / callers", "Global": "handled as a value by name", "Const": "handled as a value", "Builtin": "handled at call sites",
		"Parameter": "bound when the function body is entered", "FreeVar": "bound through the closure context", "NamedConst": "not an instruction", "Type": "not an instruction",
		"BasicBlock": "not an instruction", "Package": "not an instruction", "Program": "not an instruction", "DebugRef": "handled when debug info is on",
	}
	var names []string
	for _, n := range scope.Names() {
		names = append(names, n)
	}
	sort.Strings(names)
	for _, n := range names {
		tn, ok := scope.Lookup(n).(*types.TypeName)
		if !ok || !tn.Exported() {
			continue
		}
		if _, isStruct := tn.Type().Underlying().(*types.Struct); !isStruct {
			continue
		}
		pt := types.NewPointer(tn.Type())
		isInstr := types.Implements(pt, instrI)
		isVal := types.Implements(pt, valueI)
		if !isInstr && !isVal {
			continue
		}
		key := "go/ssa." + n
		switch {
		case covered[n]:
			c.OK("R01.1", key, 0, "has a lowering arm")
		case excluded[n] != "":
			c.Exists("R01.1", key, 0, "no arm: "+excluded[n])
		default:
			c.Bad("R01.1", key, 0, "go/ssa can produce this instruction/value but no arm of compileInstrOrValue/compileInstr/compileValue lowers it (the default arm panics at compile time or the value is silently missing)")
		}
	}
}

func checkGenericsMode(c *Ctx, bp, cp *packages.Package) {
	ok := false
	for _, f := range bp.Syntax {
		ast.Inspect(f, func(n ast.Node) bool {
			if vs, isVS := n.(*ast.ValueSpec); isVS {
				for i, nm := range vs.Names {
					if nm.Name == "ssaBuildMode" && i < len(vs.Values) {
						if strings.Contains(exprStr(vs.Values[i]), "ssa.InstantiateGenerics") {
							ok = true
						}
					}
				}
			}
			return true
		})
	}
	c.Check(ok, "R01.2", "build.ssaBuildMode includes InstantiateGenerics", 0, "generic functions are monomorphised by go/ssa", "generics are not instantiated: type-parameter operands and MultiConvert reach an emitter that has no arm for them")
	// processPkg skips generic templates
	okSkip := false
	if fd := findFunc(cp, "processPkg"); fd != nil {
		ast.Inspect(fd.Body, func(n ast.Node) bool {
			if is, isIf := n.(*ast.IfStmt); isIf && strings.Contains(exprStr(is.Cond), "TypeParams()") {
				okSkip = true
			}
			return true
		})
	}
	c.Check(okSkip, "R01.2", "cl.processPkg skips uninstantiated generic templates", 0, "members with type parameters are not compiled as such", "generic templates are compiled with their type parameters")
}

func checkOperatorCoverage(c *Ctx, sp *packages.Package) {
	info := sp.TypesInfo
	// math/logic tables are complete for their domains (values checked by C02)
	for _, t := range []struct {
		name string
		n    int
	}{{"mathOpToLLVM", 15}, {"logicOpToLLVM", 5}, {"intPredOpToLLVM", 6}, {"uintPredOpToLLVM", 6}, {"floatPredOpToLLVM", 6}, {"boolPredOpToLLVM", 2}} {
		rows, cl, why := tableRows(sp, t.name)
		if why != "" {
			c.Undecided("R01.3", "ssa."+t.name, 0, why)
			continue
		}
		c.Check(len(rows) == t.n, "R01.3", "ssa."+t.name+" complete", cl.Pos(), fmt.Sprintf("%d rows", len(rows)), fmt.Sprintf("%d rows, the operator domain has %d", len(rows), t.n))
	}
	fd := findFunc(sp, "Builder.BinOp")
	if fd == nil {
		c.Bad("R01.3", "ssa.Builder.BinOp", 0, "function not found")
		return
	}
	c.nfuncs++
	// comparison arms per comparable kind
	kinds := map[string]bool{}
	ast.Inspect(fd.Body, func(n ast.Node) bool {
		if cc, ok := n.(*ast.CaseClause); ok {
			for _, e := range cc.List {
				if k := objName(usedObj(info, e)); strings.HasPrefix(k, "ssa.vk") {
					kinds[strings.TrimPrefix(k, "ssa.")] = true
				}
			}
		}
		return true
	})
	for _, k := range []string{"vkSigned", "vkUnsigned", "vkFloat", "vkBool", "vkComplex", "vkString", "vkPtr", "vkFuncPtr", "vkFuncDecl", "vkClosure", "vkChan", "vkMap", "vkArray", "vkStruct", "vkIface", "vkEface", "vkSlice"} {
		c.Check(kinds[k], "R01.3", "ssa.BinOp compares operands of kind "+k, fd.Pos(), "has an arm", "== / != (or ordering) on operands of kind "+k+" has no lowering: the expression compiles to a panic(\"todo\")")
	}
	// AND_NOT handled; string concatenation; complex arithmetic
	src := strings.ReplaceAll(nodeSrcCalls(fd.Body), " ", "")
	c.Check(strings.Contains(src, `rtFunc("StringCat")`), "R01.3", "ssa.BinOp string +", fd.Pos(), "StringCat", "string concatenation has no lowering")
	c.Check(strings.Contains(src, `rtFunc("Complex128Div")`), "R01.3", "ssa.BinOp complex /", fd.Pos(), "Complex128Div", "complex division has no lowering")
	andNot := false
	ast.Inspect(fd.Body, func(n ast.Node) bool {
		if cc, ok := n.(*ast.CaseClause); ok {
			for _, e := range cc.List {
				if objName(usedObj(info, e)) == "go/token.AND_NOT" {
					andNot = true
				}
			}
		}
		return true
	})
	c.Check(andNot, "R01.3", "ssa.BinOp &^", fd.Pos(), "and(x, not y)", "&^ has no lowering (it has no row in the logic table)")
	// unary
	if un := findFunc(sp, "Builder.UnOp"); un != nil {
		have := map[string]bool{}
		ast.Inspect(un.Body, func(n ast.Node) bool {
			if cc, ok := n.(*ast.CaseClause); ok {
				for _, e := range cc.List {
					have[strings.TrimPrefix(objName(usedObj(info, e)), "go/token.")] = true
				}
			}
			return true
		})
		for _, t := range []string{"MUL", "SUB", "NOT", "XOR", "ARROW"} {
			c.Check(have[t], "R01.3", "ssa.UnOp "+t, un.Pos(), "has an arm", "unary operator "+t+" has no lowering")
		}
	}
}

func checkBuiltinCoverage(c *Ctx, sp, cp *packages.Package) {
	fd := findFunc(sp, "Builder.BuiltinCall")
	if fd == nil {
		c.Bad("R01.4", "ssa.Builder.BuiltinCall", 0, "function not found")
		return
	}
	c.nfuncs++
	have := map[string]bool{}
	ast.Inspect(fd.Body, func(n ast.Node) bool {
		if sw, ok := n.(*ast.SwitchStmt); ok && sw.Tag != nil && exprStr(sw.Tag) == "fn" {
			for _, cs := range sw.Body.List {
				for _, e := range cs.(*ast.CaseClause).List {
					if s, isS := constString(sp.TypesInfo, e); isS {
						have[s] = true
					}
				}
			}
		}
		return true
	})
	// builtins go/ssa passes as *ssa.Builtin: universe functions except new/make (lowered by go/ssa itself), plus unsafe's
	var want []string
	for _, n := range types.Universe.Names() {
		if _, ok := types.Universe.Lookup(n).(*types.Builtin); ok && n != "new" && n != "make" {
			want = append(want, n)
		}
	}
	for _, n := range types.Unsafe.Scope().Names() {
		if _, ok := types.Unsafe.Scope().Lookup(n).(*types.Builtin); ok {
			want = append(want, n)
		}
	}
	sort.Strings(want)
	// some are folded to constants by go/types/go/ssa before they can reach the emitter
	folded := map[string]string{}
	// intercepted in cl
	intercepted := map[string]bool{}
	for _, f := range allFuncs(cp) {
		ast.Inspect(f.Body, func(n ast.Node) bool {
			if cc, ok := n.(*ast.CaseClause); ok {
				for _, e := range cc.List {
					if s, isS := constString(cp.TypesInfo, e); isS {
						intercepted[s] = true
					}
				}
			}
			if be, ok := n.(*ast.BinaryExpr); ok && be.Op == token.EQL {
				if s, isS := constString(cp.TypesInfo, be.Y); isS {
					intercepted[s] = true
				}
			}
			return true
		})
	}
	for _, n := range want {
		key := "builtin " + n
		switch {
		case have[n]:
			c.OK("R01.4", key, fd.Pos(), "case in BuiltinCall")
		case intercepted[n]:
			c.OK("R01.4", key, fd.Pos(), "intercepted in cl before BuiltinCall")
		case folded[n] != "":
			c.Exists("R01.4", key, fd.Pos(), folded[n])
		default:
			c.Bad("R01.4", key, fd.Pos(), "go/ssa emits calls to builtin "+n+" but neither ssa.BuiltinCall nor cl handles it (compile-time panic)")
		}
	}
	for _, n := range []string{"ssa:wrapnilchk", "ssa:deferstack"} {
		c.Check(have[n] || intercepted[n], "R01.4", "builtin "+n, fd.Pos(), "handled", "go/ssa's synthetic builtin "+n+" is not handled")
	}
}

func checkClosureRepr(c *Ctx, sp, ap *packages.Package) {
	fd := findFunc(sp, "goTypes.cvtClosure")
	if fd == nil {
		c.Bad("R01.5", "ssa.cvtClosure", 0, "function not found")
		return
	}
	var fields []string
	ast.Inspect(fd.Body, func(n ast.Node) bool {
		if call, ok := n.(*ast.CallExpr); ok {
			if f := calleeOf(sp.TypesInfo, call); f != nil && qualName(f) == "go/types.NewField" && len(call.Args) == 5 {
				s, _ := constString(sp.TypesInfo, call.Args[2])
				fields = append(fields, s+":"+exprStr(call.Args[3]))
			}
		}
		return true
	})
	c.Check(len(fields) == 2 && strings.HasPrefix(fields[0], "$f:") && fields[1] == "$data:types.Typ[types.UnsafePointer]", "R01.5", "closure struct written as {$f, $data unsafe.Pointer}", fd.Pos(), strings.Join(fields, ", "), "closure struct fields are "+strings.Join(fields, ", "))
	for _, fn := range []string{"IsClosure", "IsClosureFields"} {
		pd := findFunc(ap, fn)
		if pd == nil {
			c.Bad("R01.5", "abi."+fn, 0, "function not found")
			continue
		}
		s := strings.ReplaceAll(nodeSrc(pd.Body), " ", "")
		r := ""
		ast.Inspect(pd.Body, func(n ast.Node) bool {
			if rs, ok := n.(*ast.ReturnStmt); ok {
				r += strings.ReplaceAll(exprStr(rs.Results[0]), " ", "") + ";"
			}
			return true
		})
		ok := strings.Contains(s, `f1.Name()=="$f"`) && strings.Contains(r, `f2.Name()=="$data"`) && strings.Contains(r, "types.Typ[types.UnsafePointer]") && (strings.Contains(s, "n==2") || strings.Contains(s, "len(fields)==2"))
		c.Check(ok, "R01.5", "abi."+fn+" tests the same two fields", pd.Pos(), "2 fields, $f func, $data unsafe.Pointer", "the closure predicate does not test for exactly the struct cvtClosure writes: function values are sized, hashed or boxed as ordinary structs")
	}
}

func checkOptLevels(c *Ctx, op, bp *packages.Package) {
	var levels []string
	for _, n := range op.Types.Scope().Names() {
		if k, ok := op.Types.Scope().Lookup(n).(*types.Const); ok && strings.HasSuffix(k.Type().String(), "optlevel.Level") && n != "Unset" {
			levels = append(levels, n)
		}
	}
	sort.Strings(levels)
	for _, fn := range []string{"Level.Name", "Level.Flag"} {
		fd := findFunc(op, fn)
		if fd == nil {
			c.Bad("R01.6", "optlevel."+fn, 0, "function not found")
			continue
		}
		have := map[string]bool{}
		ast.Inspect(fd.Body, func(n ast.Node) bool {
			if cc, ok := n.(*ast.CaseClause); ok {
				for _, e := range cc.List {
					have[exprStr(e)] = true
				}
			}
			return true
		})
		delegates := false
		for _, call := range callsIn(fd.Body) {
			if f := calleeOf(op.TypesInfo, call); f != nil && f.Name() == "Name" {
				delegates = true
			}
		}
		for _, l := range levels {
			c.Check(have[l] || delegates, "R01.6", "optlevel."+fn+" covers "+l, fd.Pos(), "has an arm", "level "+l+" has no "+strings.TrimPrefix(fn, "Level.")+": it maps to an empty or default pipeline/flag")
		}
	}
	// pipeline from the effective level
	ok := false
	for _, fd := range allFuncs(bp) {
		for _, call := range callsIn(fd.Body) {
			if f := calleeOf(bp.TypesInfo, call); f != nil && f.Name() == "llvmPassPipeline" && len(call.Args) == 1 {
				ok = strings.HasSuffix(strings.ReplaceAll(exprStr(call.Args[0]), " ", ""), "buildConf.OptLevel")
			}
		}
	}
	okEff := false
	for _, fd := range allFuncs(bp) {
		ast.Inspect(fd.Body, func(n ast.Node) bool {
			if as, isAs := n.(*ast.AssignStmt); isAs && strings.ReplaceAll(exprStr(as.Lhs[0]), " ", "") == "conf.OptLevel" && strings.Contains(exprStr(as.Rhs[0]), "effectiveOptLevel(") {
				okEff = true
			}
			return true
		})
	}
	c.Check(ok && okEff, "R01.6", "pass pipeline built from the effective level", 0, "conf.OptLevel = effectiveOptLevel(conf); llvmPassPipeline(buildConf.OptLevel)", "the LLVM pass pipeline is not derived from the effective optimisation level")
}

// checkLastMatchScans: R01.7
func checkLastMatchScans(c *Ctx, bp *packages.Package) {
	n := 0
	for _, fd := range allFuncs(bp) {
		if fileOf(bp.Fset, fd.Pos()) != "ssa_order_fix.go" {
			continue
		}
		ast.Inspect(fd.Body, func(x ast.Node) bool {
			fs, ok := x.(*ast.ForStmt)
			if !ok || fs.Post == nil {
				return true
			}
			inc, ok := fs.Post.(*ast.IncDecStmt)
			if !ok || inc.Tok != token.INC {
				return true
			}
			idx := exprStr(inc.X)
			ast.Inspect(fs.Body, func(y ast.Node) bool {
				as, ok := y.(*ast.AssignStmt)
				if !ok || len(as.Lhs) != 1 || exprStr(as.Rhs[0]) != idx {
					return true
				}
				name := exprStr(as.Lhs[0])
				if !strings.HasPrefix(strings.ToLower(name), "last") {
					return true
				}
				n++
				// the assigning statement list must not break out of the scan
				breaks := false
				for _, e := range enclosingStmts(fs.Body, as) {
					if blk, isBlk := e.(*ast.BlockStmt); isBlk {
						for _, st := range blk.List {
							if br, isBr := st.(*ast.BranchStmt); isBr && br.Tok == token.BREAK && st.Pos() > as.Pos() {
								breaks = true
							}
						}
					}
				}
				c.Check(!breaks, "R01.7", fmt.Sprintf("build.%s %s scan keeps the last match", declName(fd), name), as.Pos(), "ascending scan without early exit", "the scan for '"+name+"' leaves the loop at the first match: with two calls that can modify the variable, the load is sunk only below the first and misses the second call's effect")
				return true
			})
			return true
		})
	}
	if n == 0 {
		c.Undecided("R01.7", "last-match scans in ssa_order_fix.go", 0, "no 'last*' = index assignment found in an ascending loop")
	}
}

func init() {
	addMutant(Mutant{Prop: "C01", Name: "instr-arm-dropped", File: "cl/compile.go", Old: "\tcase *ssa.BinOp:\n\t\tx := p.compileValue(b, v.X)\n\t\ty := p.compileValue(b, v.Y)\n\t\tret = b.BinOp(v.Op, x, y)\n", New: "", Expect: "R01.1 go/ssa.BinOp"})
	addMutant(Mutant{Prop: "C01", Name: "generics-not-instantiated", File: "internal/build/build.go", Old: "ssaBuildMode = ssa.SanityCheckFunctions | ssa.InstantiateGenerics", New: "ssaBuildMode = ssa.SanityCheckFunctions", Expect: "R01.2 build.ssaBuildMode"})
	addMutant(Mutant{Prop: "C01", Name: "math-row-dropped", File: "ssa/expr.go", Old: "\tint(token.REM-mathOpBase)<<2 | vkFloat:    llvm.FRem,\n", New: "", Expect: "R01.3 ssa.mathOpToLLVM complete"})
	addMutant(Mutant{Prop: "C01", Name: "builtin-min-dropped", File: "ssa/expr.go", Old: "\tcase \"min\":", New: "\tcase \"min_\":", Expect: "R01.4 builtin min"})
	addMutant(Mutant{Prop: "C01", Name: "closure-field-renamed", File: "ssa/type_cvt.go", Old: "types.NewField(token.NoPos, nil, \"$data\", types.Typ[types.UnsafePointer], false),", New: "types.NewField(token.NoPos, nil, \"$ctx\", types.Typ[types.UnsafePointer], false),", Expect: "R01.5 closure struct written"})
	addMutant(Mutant{Prop: "C01", Name: "last-call-scan-breaks", File: "internal/build/ssa_order_fix.go", Old: "\t\t\tif callUsesValue(ci, alloc) {\n\t\t\t\tlastCallIdx = i\n\t\t\t}", New: "\t\t\tif callUsesValue(ci, alloc) {\n\t\t\t\tlastCallIdx = i\n\t\t\t\tbreak\n\t\t\t}", Expect: "R01.7"})
}
