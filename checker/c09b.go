package main

import (
	"encoding/json"
	"fmt"
	"go/ast"
	"go/token"
	"go/types"
	"os"
	"path/filepath"
	"sort"
	"strings"

	"golang.org/x/tools/go/packages"
)

// slotCount is the number of LLVM-level parameter slots an arm produces or consumes; many = "one per
// struct element" (a loop or an ellipsis).
type slotCount struct {
	n    int
	many bool
}

func (s slotCount) String() string {
	if s.many {
		return "one per element"
	}
	return fmt.Sprint(s.n)
}

// armEffect summarises one arm of a `switch ti.Kind` inside the per-parameter loop of a cabi rewriter.
type armEffect struct {
	clause   *ast.CaseClause // nil: no arm and no default (falls through to the trailing statements)
	index    slotCount       // index++ executed (wrapper parameters consumed)
	appended map[string]slotCount
	replaces int // ReplaceAllUsesWith calls
	cont     bool
}

// cabiLoop locates `switch <ident>.Kind` on a *TypeInfo inside a loop of fd and returns the switch, and the
// statements that follow it in the loop body.
func cabiLoop(p *packages.Package, fd *ast.FuncDecl) (sw *ast.SwitchStmt, trailing []ast.Stmt) {
	info := p.TypesInfo
	var loops []*ast.BlockStmt
	ast.Inspect(fd.Body, func(n ast.Node) bool {
		switch x := n.(type) {
		case *ast.RangeStmt:
			loops = append(loops, x.Body)
		case *ast.ForStmt:
			loops = append(loops, x.Body)
		}
		return true
	})
	for _, body := range loops {
		for i, st := range body.List {
			s, ok := st.(*ast.SwitchStmt)
			if !ok || s.Tag == nil {
				continue
			}
			sel, ok := ast.Unparen(s.Tag).(*ast.SelectorExpr)
			if !ok || sel.Sel.Name != "Kind" {
				continue
			}
			if _, isId := ast.Unparen(sel.X).(*ast.Ident); !isId {
				continue
			}
			t := info.TypeOf(sel.X)
			if t == nil || !strings.HasSuffix(types.TypeString(t, nil), "cabi.TypeInfo") {
				continue
			}
			return s, body.List[i+1:]
		}
	}
	return nil, nil
}

func countEffects(info *types.Info, stmts []ast.Stmt, eff *armEffect) {
	var walk func(n ast.Node, inLoop bool)
	add := func(c slotCount, k int, inLoop bool) slotCount {
		if inLoop || c.many {
			return slotCount{many: true}
		}
		c.n += k
		return c
	}
	walk = func(n ast.Node, inLoop bool) {
		ast.Inspect(n, func(x ast.Node) bool {
			switch s := x.(type) {
			case *ast.FuncLit:
				return false
			case *ast.ForStmt:
				if s != n {
					walk(s.Body, true)
					return false
				}
			case *ast.RangeStmt:
				if s != n {
					walk(s.Body, true)
					return false
				}
			case *ast.IncDecStmt:
				if id, ok := s.X.(*ast.Ident); ok && id.Name == "index" && s.Tok == token.INC {
					eff.index = add(eff.index, 1, inLoop)
				}
			case *ast.AssignStmt:
				if len(s.Lhs) == 1 && len(s.Rhs) == 1 {
					if call, ok := s.Rhs[0].(*ast.CallExpr); ok {
						if id, ok := call.Fun.(*ast.Ident); ok && id.Name == "append" && len(call.Args) >= 2 {
							if dst, ok := s.Lhs[0].(*ast.Ident); ok && exprStr(call.Args[0]) == dst.Name {
								c := eff.appended[dst.Name]
								if call.Ellipsis.IsValid() {
									c = slotCount{many: true}
								} else {
									c = add(c, len(call.Args)-1, inLoop)
								}
								eff.appended[dst.Name] = c
							}
						}
					}
				}
			case *ast.CallExpr:
				if se, ok := s.Fun.(*ast.SelectorExpr); ok && se.Sel.Name == "ReplaceAllUsesWith" {
					eff.replaces++
				}
			}
			return true
		})
	}
	walk(&ast.BlockStmt{List: stmts}, false)
}

func armFor(sw *ast.SwitchStmt, info *types.Info, kind *types.Const) *ast.CaseClause {
	var def *ast.CaseClause
	for _, st := range sw.Body.List {
		cc := st.(*ast.CaseClause)
		if cc.List == nil {
			def = cc
			continue
		}
		for _, e := range cc.List {
			if usedObj(info, e) == kind {
				return cc
			}
		}
	}
	return def
}

func kindEffects(p *packages.Package, fd *ast.FuncDecl, kinds []*types.Const) (map[string]*armEffect, *ast.SwitchStmt) {
	sw, trailing := cabiLoop(p, fd)
	if sw == nil {
		return nil, nil
	}
	out := map[string]*armEffect{}
	for _, k := range kinds {
		eff := &armEffect{appended: map[string]slotCount{}}
		eff.clause = armFor(sw, p.TypesInfo, k)
		if eff.clause != nil {
			countEffects(p.TypesInfo, eff.clause.Body, eff)
			if n := len(eff.clause.Body); n > 0 {
				if br, ok := eff.clause.Body[n-1].(*ast.BranchStmt); ok && br.Tok == token.CONTINUE {
					eff.cont = true
				}
			}
		}
		if !eff.cont {
			countEffects(p.TypesInfo, trailing, eff)
		}
		out[k.Name()] = eff
	}
	return out, sw
}

// pathConds returns the conditions of the if statements enclosing target, with the polarity under which
// target is reached.
type condPol struct {
	cond ast.Expr
	pol  bool
}

func pathConds(root ast.Node, target ast.Node) []condPol {
	var out []condPol
	chain := enclosingStmts(root, target)
	// code after `if c { ...; return }` (no else) in the same statement list runs only when c is false
	endsFlow := func(b *ast.BlockStmt) bool {
		if len(b.List) == 0 {
			return false
		}
		switch st := b.List[len(b.List)-1].(type) {
		case *ast.ReturnStmt:
			return true
		case *ast.BranchStmt:
			return st.Tok == token.CONTINUE || st.Tok == token.BREAK || st.Tok == token.GOTO
		case *ast.ExprStmt:
			if call, ok := st.X.(*ast.CallExpr); ok {
				if id, ok := call.Fun.(*ast.Ident); ok && id.Name == "panic" {
					return true
				}
			}
		}
		return false
	}
	for i, n := range chain {
		var list []ast.Stmt
		switch b := n.(type) {
		case *ast.BlockStmt:
			list = b.List
		case *ast.CaseClause:
			list = b.Body
		}
		if list == nil || i+1 >= len(chain) {
			continue
		}
		for _, st := range list {
			if ast.Node(st) == chain[i+1] {
				break
			}
			if is, ok := st.(*ast.IfStmt); ok && is.Else == nil && is.Init == nil && endsFlow(is.Body) {
				cond, flip := is.Cond, false
				for {
					u, isNot := ast.Unparen(cond).(*ast.UnaryExpr)
					if !isNot || u.Op != token.NOT {
						break
					}
					cond, flip = ast.Unparen(u.X), !flip
				}
				out = append(out, condPol{cond, flip})
			}
		}
	}
	for i, n := range chain {
		is, ok := n.(*ast.IfStmt)
		if !ok || i+1 >= len(chain) {
			continue
		}
		next := chain[i+1]
		cond, flip := is.Cond, false
		for {
			u, isNot := ast.Unparen(cond).(*ast.UnaryExpr)
			if !isNot || u.Op != token.NOT {
				break
			}
			cond, flip = ast.Unparen(u.X), !flip
		}
		switch {
		case next == ast.Node(is.Body):
			out = append(out, condPol{cond, !flip})
		case is.Else != nil && next == ast.Node(is.Else):
			out = append(out, condPol{cond, flip})
		}
	}
	return out
}

// pathHolds evaluates the enclosing conditions under env: false as soon as one evaluable condition has the
// wrong polarity; conditions that cannot be evaluated (calls on LLVM types) are taken as satisfiable.
func pathHolds(info *types.Info, conds []condPol, env map[string]int64) (holds bool, evaluated int) {
	holds = true
	for _, cp := range conds {
		v, ok := evalBool(info, cp.cond, env)
		if !ok {
			continue
		}
		evaluated++
		if v != cp.pol {
			holds = false
		}
	}
	return
}

type memThreshold struct {
	fn    string
	bret  int // 1: return position, 0: parameter position, -1: any
	limit int64
	why   string
}

var cabiMemThresholds = []memThreshold{
	{"TypeInfoAmd64.GetTypeInfo", -1, 16, "System V x86-64: aggregates larger than two eightbytes have class MEMORY"},
	{"TypeInfoArm64.GetTypeInfo", -1, 16, "AAPCS64: a non-HFA composite larger than 16 bytes is passed by reference / returned through x8"},
	{"TypeInfoRiscv64.GetTypeInfo", -1, 16, "RISC-V LP64: aggregates larger than 2*XLEN bits are passed by reference"},
	{"TypeInfoRiscv32.GetTypeInfo", -1, 8, "RISC-V ILP32: aggregates larger than 2*XLEN bits are passed by reference"},
	{"TypeInfoArm.GetTypeInfo", 1, 4, "AAPCS32: a composite larger than 4 bytes is returned in memory"},
}

// archNoClassifierReason lists architecture names for which the absence of a classifier is not decided.
var archNoClassifierReason = map[string]string{
	"avr": "no classifier exists; clang's AVR lowering expands aggregates field by field like LLVM's default lowering for the shapes examined, so whether values cross intact is not decided here",
}

func checkC09b(c *Ctx, ab, sp *packages.Package) {
	info := ab.TypesInfo
	c.Rule("R09.4", "parameter-slot contract of the C-ABI rewriter: for every classification kind, the rewritten signature, the function-body prologue, the call-site rewriter and the callback wrapper produce/consume the same number of LLVM parameters, forward exactly one value per original parameter, reserve slot 0 exactly for an sret result, and handle every result kind", 40)
	c.Rule("R09.5", "every architecture name a build can select (GOARCH values of Target.Spec, llvm-target prefixes of targets/*.json) has an ABI classifier in NewTransformer", 8)
	c.Rule("R09.6", "aggregates are passed or returned in memory exactly above the register-size limit of each ABI", 5)

	// ---- kinds
	var kinds []*types.Const
	kt := lookupNamed(ab.Types, "AttrKind")
	if kt == nil {
		c.Undecided("R09.4", "cabi.AttrKind", 0, "type not found")
		return
	}
	sc := ab.Types.Scope()
	for _, n := range sc.Names() {
		if k, ok := sc.Lookup(n).(*types.Const); ok && types.Identical(k.Type(), kt.Obj().Type()) {
			kinds = append(kinds, k)
		}
	}
	sort.Slice(kinds, func(i, j int) bool { a, _ := constValInt(kinds[i]); b, _ := constValInt(kinds[j]); return a < b })
	kc := func(name string) *types.Const {
		for _, k := range kinds {
			if k.Name() == name {
				return k
			}
		}
		return nil
	}

	// ---- R09.4 slot contract
	type site struct {
		fn      string
		measure func(*armEffect) slotCount
		what    string
	}
	producer := site{"Transformer.transformFuncType", func(e *armEffect) slotCount { return e.appended["paramTypes"] }, "parameter types appended to the rewritten signature"}
	consumers := []site{
		{"Transformer.transformFuncBody", func(e *armEffect) slotCount { return e.index }, "wrapper parameters consumed by the body prologue"},
		{"Transformer.transformCallInstr", func(e *armEffect) slotCount { return e.appended["nparams"] }, "arguments passed by the rewritten call"},
		{"Transformer.transformCallbackFunc", func(e *armEffect) slotCount { return e.index }, "wrapper parameters consumed by the callback wrapper"},
	}
	pfd := findFunc(ab, producer.fn)
	var prod map[string]*armEffect
	if pfd != nil {
		c.nfuncs++
		prod, _ = kindEffects(ab, pfd, kinds)
	}
	if prod == nil {
		c.Undecided("R09.4", "cabi."+producer.fn+" parameter switch", 0, "per-parameter `switch ti.Kind` not found")
	} else {
		for _, cs := range consumers {
			fd := findFunc(ab, cs.fn)
			var eff map[string]*armEffect
			var sw *ast.SwitchStmt
			if fd != nil {
				c.nfuncs++
				eff, sw = kindEffects(ab, fd, kinds)
			}
			if eff == nil {
				c.Undecided("R09.4", "cabi."+cs.fn+" parameter switch", 0, "per-parameter `switch ti.Kind` not found")
				continue
			}
			for _, k := range kinds {
				want, got := producer.measure(prod[k.Name()]), cs.measure(eff[k.Name()])
				key := fmt.Sprintf("cabi.%s %s slots", cs.fn, k.Name())
				pos := sw.Pos()
				if cl := eff[k.Name()].clause; cl != nil {
					pos = cl.Pos()
				}
				c.Check(want == got, "R09.4", key, pos, fmt.Sprintf("%s = %s = signature", cs.what, got),
					fmt.Sprintf("%s: %s, but the rewritten signature has %s parameter(s) for a %s value: every later parameter is read from / passed in the wrong slot", cs.what, got, want, k.Name()))
			}
			if cs.fn == "Transformer.transformCallbackFunc" {
				for _, k := range kinds {
					got := eff[k.Name()].appended["nparams"]
					pos := sw.Pos()
					if cl := eff[k.Name()].clause; cl != nil {
						pos = cl.Pos()
					}
					c.Check(got == slotCount{n: 1}, "R09.4", fmt.Sprintf("cabi.%s %s forwards one argument", cs.fn, k.Name()), pos, "exactly one value appended to the Go function's argument list",
						fmt.Sprintf("the wrapper forwards %s value(s) to the Go function for a %s parameter; the Go function takes exactly one argument per parameter, so the call has the wrong arguments", got, k.Name()))
				}
			}
			if cs.fn == "Transformer.transformFuncBody" {
				for _, k := range kinds {
					e := eff[k.Name()]
					pos := sw.Pos()
					if e.clause != nil {
						pos = e.clause.Pos()
					}
					c.Check(e.replaces >= 1, "R09.4", fmt.Sprintf("cabi.%s %s rebinds the parameter", cs.fn, k.Name()), pos, "uses of the old parameter are replaced", "the old parameter's uses are not replaced on this arm: the body reads a value that no longer exists")
				}
			}
		}
	}
	// sret slot
	kp := kc("AttrPointer")
	if kp != nil {
		kpv, _ := constValInt(kp)
		for _, fn := range []string{"Transformer.transformFuncBody", "Transformer.transformCallbackFunc"} {
			fd := findFunc(ab, fn)
			if fd == nil {
				c.Undecided("R09.4", "cabi."+fn+" reserves slot 0 for sret", 0, "function not found")
				continue
			}
			ok := false
			var pos token.Pos = fd.Pos()
			for _, st := range fd.Body.List {
				is, isIf := st.(*ast.IfStmt)
				if !isIf {
					continue
				}
				tv, ok1 := evalBool(info, is.Cond, map[string]int64{"info.Return.Kind": kpv})
				all := ok1 && tv
				for _, k := range kinds {
					if k == kp {
						continue
					}
					v, _ := constValInt(k)
					fv, ok2 := evalBool(info, is.Cond, map[string]int64{"info.Return.Kind": v})
					if !ok2 || fv {
						all = false
					}
				}
				if !all {
					continue
				}
				eff := &armEffect{appended: map[string]slotCount{}}
				countEffects(info, is.Body.List, eff)
				if eff.index == (slotCount{n: 1}) {
					ok, pos = true, is.Pos()
				}
			}
			c.Check(ok, "R09.4", "cabi."+fn+" reserves slot 0 for sret", pos, "index++ exactly when Return.Kind == AttrPointer", "the parameter index is not advanced past the sret pointer exactly when the result is returned through memory: every parameter is read from the neighbouring slot")
		}
	}
	// result switches: every kind a classifier can assign to a result is handled explicitly
	retKinds := []string{"AttrPointer", "AttrWidthType", "AttrWidthType2"}
	for _, fn := range []string{"Transformer.transformFuncType", "Transformer.transformFuncBody", "Transformer.transformCallInstr", "Transformer.transformCallbackFunc"} {
		fd := findFunc(ab, fn)
		if fd == nil {
			c.Undecided("R09.4", "cabi."+fn+" result switch", 0, "function not found")
			continue
		}
		var rsw *ast.SwitchStmt
		ast.Inspect(fd.Body, func(n ast.Node) bool {
			if s, ok := n.(*ast.SwitchStmt); ok && s.Tag != nil && strings.ReplaceAll(exprStr(s.Tag), " ", "") == "info.Return.Kind" {
				rsw = s
			}
			return true
		})
		if rsw == nil {
			c.Undecided("R09.4", "cabi."+fn+" result switch", fd.Pos(), "`switch info.Return.Kind` not found")
			continue
		}
		for _, kn := range retKinds {
			k := kc(kn)
			found := false
			for _, st := range rsw.Body.List {
				for _, e := range st.(*ast.CaseClause).List {
					if k != nil && usedObj(info, e) == k {
						found = true
					}
				}
			}
			c.Check(found, "R09.4", fmt.Sprintf("cabi.%s result kind %s handled", fn, kn), rsw.Pos(), "explicit arm", "a result classified "+kn+" falls into the default arm, which returns/uses the unconverted value")
		}
		if fn == "Transformer.transformFuncType" || fn == "Transformer.transformCallInstr" {
			// the AttrPointer arm prepends the sret slot
			var arm *ast.CaseClause
			for _, st := range rsw.Body.List {
				for _, e := range st.(*ast.CaseClause).List {
					if usedObj(info, e) == kp {
						arm = st.(*ast.CaseClause)
					}
				}
			}
			ok := false
			if arm != nil {
				if fn == "Transformer.transformFuncType" {
					eff := &armEffect{appended: map[string]slotCount{}}
					countEffects(info, arm.Body, eff)
					sret := false
					for _, call := range callsInStmts(arm.Body) {
						if f := calleeOf(info, call); f != nil && f.Name() == "sretAttribute" {
							sret = true
						}
					}
					ok = eff.appended["paramTypes"] == (slotCount{n: 1}) && sret
				} else {
					ast.Inspect(arm, func(n ast.Node) bool {
						if call, isCall := n.(*ast.CallExpr); isCall {
							if id, isId := call.Fun.(*ast.Ident); isId && id.Name == "append" && len(call.Args) == 2 && call.Ellipsis.IsValid() {
								if _, isLit := call.Args[0].(*ast.CompositeLit); isLit && exprStr(call.Args[1]) == "nparams" {
									ok = true
								}
							}
						}
						return true
					})
				}
			}
			c.Check(ok, "R09.4", "cabi."+fn+" sret result occupies slot 0", rsw.Pos(), "result pointer first, then the parameters", "an in-memory result is not passed as the first parameter (with the sret attribute)")
		}
	}

	// every rewritten call carries the parameter attributes (byval/sret) of the rewritten signature
	if fd := findFunc(ab, "Transformer.transformCallInstr"); fd != nil {
		var rsw *ast.SwitchStmt
		ast.Inspect(fd.Body, func(n ast.Node) bool {
			if s, ok := n.(*ast.SwitchStmt); ok && s.Tag != nil && strings.ReplaceAll(exprStr(s.Tag), " ", "") == "info.Return.Kind" {
				rsw = s
			}
			return true
		})
		if rsw != nil {
			for _, st := range rsw.Body.List {
				cc := st.(*ast.CaseClause)
				var names []string
				for _, e := range cc.List {
					names = append(names, exprStr(e))
				}
				if cc.List == nil {
					names = []string{"default"}
				}
				// calls created in this arm and the variables they are bound to
				created := map[string]bool{}
				attributed := map[string]bool{}
				for _, s2 := range cc.Body {
					ast.Inspect(s2, func(n ast.Node) bool {
						switch x := n.(type) {
						case *ast.AssignStmt:
							if len(x.Lhs) == 1 && len(x.Rhs) == 1 {
								if call, ok := x.Rhs[0].(*ast.CallExpr); ok {
									if f := calleeOf(info, call); f != nil && f.Name() == "CreateCall" {
										created[exprStr(x.Lhs[0])] = true
									}
								}
							}
						case *ast.CallExpr:
							if id, ok := x.Fun.(*ast.Ident); ok && id.Name == "updateCallAttr" && len(x.Args) == 1 {
								attributed[exprStr(x.Args[0])] = true
							}
						}
						return true
					})
				}
				okAll := len(created) > 0
				for v := range created {
					if !attributed[v] {
						okAll = false
					}
				}
				c.Check(okAll, "R09.4", "cabi.Transformer.transformCallInstr "+strings.Join(names, ",")+" call carries the signature attributes", cc.Pos(), "updateCallAttr on the created call",
					"the rewritten call of this arm is not given the byval/sret attributes of the rewritten signature: on an indirect call LLVM lowers the arguments from the call-site attributes only, so a by-value struct argument is passed as a plain pointer")
			}
		}
	}

	// ---- R09.5 architecture coverage
	nt := findFunc(ab, "NewTransformer")
	if nt == nil {
		c.Undecided("R09.5", "cabi.NewTransformer", 0, "function not found")
	} else {
		c.nfuncs++
		have := map[string]bool{}
		ast.Inspect(nt.Body, func(n ast.Node) bool {
			if s, ok := n.(*ast.SwitchStmt); ok && s.Tag != nil && exprStr(s.Tag) == "arch" {
				for _, st := range s.Body.List {
					cc := st.(*ast.CaseClause)
					assigns := false
					for _, b := range cc.Body {
						if as, ok := b.(*ast.AssignStmt); ok && len(as.Lhs) == 1 && strings.HasSuffix(exprStr(as.Lhs[0]), ".sys") {
							assigns = true
						}
					}
					for _, e := range cc.List {
						if v, ok := constString(info, e); ok && assigns {
							have[v] = true
						}
					}
				}
			}
			return true
		})
		domain := map[string]string{}
		// GOARCH values of Target.Spec
		if sf := findFunc(sp, "Target.Spec"); sf != nil {
			ast.Inspect(sf.Body, func(n ast.Node) bool {
				if s, ok := n.(*ast.SwitchStmt); ok && s.Tag != nil && exprStr(s.Tag) == "goarch" {
					for _, st := range s.Body.List {
						for _, e := range st.(*ast.CaseClause).List {
							if v, ok := constString(sp.TypesInfo, e); ok {
								if _, dup := domain[v]; !dup {
									domain[v] = "GOARCH handled by ssa.Target.Spec"
								}
							}
						}
					}
				}
				return true
			})
		} else {
			c.Undecided("R09.5", "ssa.Target.Spec", 0, "function not found")
		}
		files, _ := filepath.Glob(filepath.Join(repoDir, "targets", "*.json"))
		sort.Strings(files)
		for _, f := range files {
			data, err := os.ReadFile(f)
			if err != nil {
				continue
			}
			var m map[string]any
			if json.Unmarshal(data, &m) != nil {
				continue
			}
			if t, ok := m["llvm-target"].(string); ok && t != "" {
				arch := t
				if i := strings.Index(t, "-"); i >= 0 {
					arch = t[:i]
				}
				if _, dup := domain[arch]; !dup {
					domain[arch] = "llvm-target of targets/" + filepath.Base(f)
				}
			}
		}
		var names []string
		for n := range domain {
			names = append(names, n)
		}
		sort.Strings(names)
		for _, n := range names {
			key := fmt.Sprintf("cabi.NewTransformer arch %q", n)
			if why, ex := archNoClassifierReason[n]; ex && !have[n] {
				c.Assume("R09.5 %s (%s): %s", key, domain[n], why)
				continue
			}
			c.Check(have[n], "R09.5", key, nt.Pos(), "classifier selected ("+domain[n]+")",
				fmt.Sprintf("architecture name %q (%s) selects no classifier: Transformer.sys stays nil, IsWrapType answers false for every type, and aggregates cross the C boundary in LLVM's default lowering instead of the platform C ABI", n, domain[n]))
		}
	}

	// ---- R09.6 memory thresholds
	kpv := int64(-1)
	if kp != nil {
		kpv, _ = constValInt(kp)
	}
	for _, mt := range cabiMemThresholds {
		fd := findFunc(ab, mt.fn)
		key := fmt.Sprintf("cabi.%s memory class above %d bytes", mt.fn, mt.limit)
		if mt.bret == 1 {
			key += " (results)"
		}
		if fd == nil {
			c.Undecided("R09.6", key, 0, "function not found")
			continue
		}
		c.nfuncs++
		var sites []*ast.AssignStmt
		ast.Inspect(fd.Body, func(n ast.Node) bool {
			if as, ok := n.(*ast.AssignStmt); ok && len(as.Lhs) == 1 && len(as.Rhs) == 1 && exprStr(as.Lhs[0]) == "info.Kind" && usedObj(info, as.Rhs[0]) == kp {
				sites = append(sites, as)
			}
			return true
		})
		_ = kpv
		matched := 0
		var bad []string
		for _, as := range sites {
			conds := pathConds(fd.Body, as)
			env := func(size int64) map[string]int64 {
				e := map[string]int64{"info.Size": size, "n": 3}
				if mt.bret >= 0 {
					e["bret"] = int64(mt.bret)
				}
				return e
			}
			if mt.bret >= 0 {
				// skip the site belonging to the other position
				if h, _ := pathHolds(info, conds, map[string]int64{"bret": int64(mt.bret)}); !h {
					continue
				}
			}
			matched++
			above, ev := pathHolds(info, conds, env(mt.limit+1))
			at, _ := pathHolds(info, conds, env(mt.limit))
			if ev == 0 {
				bad = append(bad, c.posStr(as.Pos())+": no size condition guards the in-memory classification")
			} else if !above {
				bad = append(bad, fmt.Sprintf("%s: an aggregate of %d bytes is not classified in-memory", c.posStr(as.Pos()), mt.limit+1))
			} else if at {
				bad = append(bad, fmt.Sprintf("%s: an aggregate of exactly %d bytes is classified in-memory, but it still fits the registers", c.posStr(as.Pos()), mt.limit))
			}
		}
		if matched == 0 {
			c.Undecided("R09.6", key, fd.Pos(), "no `info.Kind = AttrPointer` site found for this position")
			continue
		}
		c.Check(len(bad) == 0, "R09.6", key, fd.Pos(), fmt.Sprintf("%d site(s): in memory iff size > %d (%s)", matched, mt.limit, mt.why), strings.Join(bad, "; ")+" - "+mt.why)
	}
}

func callsInStmts(stmts []ast.Stmt) []*ast.CallExpr {
	var out []*ast.CallExpr
	for _, s := range stmts {
		out = append(out, callsIn(s)...)
	}
	return out
}

func init() {
	addMutant(Mutant{Prop: "C09", Name: "callback-default-arm-empty", File: "internal/cabi/cabi.go",
		Old: "\t\tdefault:\n\t\t\tnparams = append(nparams, params[index])\n\t\tcase AttrVoid:", New: "\t\tdefault:\n\t\tcase AttrVoid:",
		Expect: "R09.4 cabi.Transformer.transformCallbackFunc AttrNone forwards one argument"})
	addMutant(Mutant{Prop: "C09", Name: "callback-width2-single-slot", File: "internal/cabi/cabi.go",
		Old: "\t\t\tb.CreateStore(params[index], b.CreateStructGEP(typ, iptr, 0, \"\"))\n\t\t\tindex++\n\t\t\tb.CreateStore(params[index], b.CreateStructGEP(typ, iptr, 1, \"\"))\n\t\t\tptr := b.CreateBitCast(iptr, llvm.PointerType(ti.Type, 0), \"\")\n\t\t\tnparams = append(nparams, b.CreateLoad(ti.Type, ptr, \"\"))",
		New: "\t\t\tb.CreateStore(params[index], b.CreateStructGEP(typ, iptr, 0, \"\"))\n\t\t\tb.CreateStore(params[index+1], b.CreateStructGEP(typ, iptr, 1, \"\"))\n\t\t\tptr := b.CreateBitCast(iptr, llvm.PointerType(ti.Type, 0), \"\")\n\t\t\tnparams = append(nparams, b.CreateLoad(ti.Type, ptr, \"\"))",
		Expect: "R09.4 cabi.Transformer.transformCallbackFunc AttrWidthType2 slots"})
	addMutant(Mutant{Prop: "C09", Name: "body-sret-slot-dropped", File: "internal/cabi/cabi.go",
		Old: "\tparams := nfn.Params()\n\tindex := 0\n\tif info.Return.Kind == AttrPointer {\n\t\tindex++\n\t}",
		New: "\tparams := nfn.Params()\n\tindex := 0\n\tif info.Return.Kind > AttrPointer {\n\t\tindex++\n\t}",
		Expect: "R09.4 cabi.Transformer.transformFuncBody reserves slot 0"})
	addMutant(Mutant{Prop: "C09", Name: "call-extract-passes-whole", File: "internal/cabi/cabi.go",
		Old: "\t\t\tfor i := 0; i < nsubs; i++ {\n\t\t\t\tnparams = append(nparams, b.CreateExtractValue(param, i, \"\"))\n\t\t\t}",
		New: "\t\t\t_ = nsubs\n\t\t\tnparams = append(nparams, param)",
		Expect: "R09.4 cabi.Transformer.transformCallInstr AttrExtract slots"})
	addMutant(Mutant{Prop: "C09", Name: "riscv32-threshold-16", File: "internal/cabi/arch.go",
		Old: "\t\tif info.Size > 8 {\n\t\t\tinfo.Kind = AttrPointer", New: "\t\tif info.Size > 16 {\n\t\t\tinfo.Kind = AttrPointer",
		Expect: "R09.6 cabi.TypeInfoRiscv32.GetTypeInfo"})
	addMutant(Mutant{Prop: "C09", Name: "arm64-threshold-geq", File: "internal/cabi/arch.go",
		Old: "\t\tif info.Size > 16 {\n\t\t\tinfo.Kind = AttrPointer\n\t\t\tinfo.Type1 = llvm.PointerType(typ, 0)\n\t\t} else if info.Size <= 8 {\n\t\t\tinfo.Kind = AttrWidthType\n\t\t\tif bret {",
		New: "\t\tif info.Size >= 16 {\n\t\t\tinfo.Kind = AttrPointer\n\t\t\tinfo.Type1 = llvm.PointerType(typ, 0)\n\t\t} else if info.Size <= 8 {\n\t\t\tinfo.Kind = AttrWidthType\n\t\t\tif bret {",
		Expect: "R09.6 cabi.TypeInfoArm64.GetTypeInfo"})
	addMutant(Mutant{Prop: "C09", Name: "arch-case-renamed", File: "internal/cabi/cabi.go",
		Old: "\tcase \"riscv64\":\n\t\ttr.sys = &TypeInfoRiscv64{tr, targetAbi}", New: "\tcase \"riscv\":\n\t\ttr.sys = &TypeInfoRiscv64{tr, targetAbi}",
		Expect: "R09.5 cabi.NewTransformer arch \"riscv64\""})
}

// checkCToGoCopies (R09.7): a Go string made from C memory must own its bytes (C may rewrite or free the buffer).
func checkCToGoCopies(c *Ctx, rp *packages.Package) {
	c.Rule("R09.7", "Go strings created from C memory copy the bytes: the result is produced by a copying conversion or allocation, never by a view (unsafe.String / header over the C pointer)", 1)
	info := rp.TypesInfo
	for _, name := range []string{"GoStringN", "StringFromCStr"} {
		fd := findFunc(rp, name)
		if fd == nil {
			continue
		}
		c.nfuncs++
		var rets []*ast.ReturnStmt
		ast.Inspect(fd.Body, func(n ast.Node) bool {
			if r, ok := n.(*ast.ReturnStmt); ok {
				rets = append(rets, r)
			}
			return true
		})
		bad := ""
		copies := 0
		for _, r := range rets {
			if len(r.Results) != 1 {
				continue
			}
			e := ast.Unparen(r.Results[0])
			if v, isC := constString(info, e); isC && v == "" {
				continue
			}
			call, isCall := e.(*ast.CallExpr)
			if !isCall {
				bad = "returns " + exprStr(e)
				continue
			}
			// conversion string([]byte) copies; StringFrom allocates and copies
			if tv, ok := info.Types[call.Fun]; ok && tv.IsType() {
				if b, ok := tv.Type.Underlying().(*types.Basic); ok && b.Kind() == types.String && len(call.Args) == 1 {
					if _, isSlice := info.TypeOf(call.Args[0]).Underlying().(*types.Slice); isSlice {
						copies++
						continue
					}
				}
			}
			if f := calleeOf(info, call); f != nil && (f.Name() == "StringFrom" || f.Name() == "GoStringN") {
				copies++
				continue
			}
			bad = "returns " + exprStr(e)
		}
		c.Check(bad == "" && copies > 0, "R09.7", "runtime."+name+" copies the C bytes", fd.Pos(), "string([]byte) conversion or StringFrom", "the result aliases C memory ("+bad+"): after C rewrites, reuses or frees the buffer the Go string changes or dangles")
	}
}

func init() {
	addMutant(Mutant{Prop: "C09", Name: "gostringn-aliases-c-memory", File: "runtime/internal/runtime/z_cgo.go",
		Old: "\treturn string((*[1 << 30]byte)(unsafe.Pointer(p))[:n:n])", New: "\treturn unsafe.String((*byte)(unsafe.Pointer(p)), n)", Expect: "R09.7 runtime.GoStringN"})
	addMutant(Mutant{Prop: "C09", Name: "callsite-attrs-dropped-for-small-results", File: "internal/cabi/cabi.go",
		Old: "\t\tret := llvm.CreateCall(b, nft, nfn, nparams)\n\t\tupdateCallAttr(ret)\n\t\tptr := createAlloca(nft.ReturnType())", New: "\t\tret := llvm.CreateCall(b, nft, nfn, nparams)\n\t\tptr := createAlloca(nft.ReturnType())", Expect: "R09.4 cabi.Transformer.transformCallInstr AttrWidthType,AttrWidthType2 call carries"})
}
