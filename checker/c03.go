package main

import (
	"fmt"
	"go/ast"
	"go/token"
	"go/types"
	"strings"

	"golang.org/x/tools/go/cfg"
	"golang.org/x/tools/go/packages"
)

func init() { register("C03", checkC03) }

func checkC03(c *Ctx) (string, error) {
	w, err := loadMain(defaultCfg, "ssa", "cl")
	if err != nil {
		return "", err
	}
	c.use(w)
	p := w.Main("ssa")

	c.Rule("R03.1", "bounds predicates decided on every weak ordering of their integer inputs (abstract evaluation): NewSlice3, StringSlice, MakeSlice, checkRange", 6)
	c.Rule("R03.2", "check-before-access in the emitter: index, slice, slice->array, type assertion, nil dereference", 14)
	c.Rule("R03.3", "runtime typestate: operations on a closed channel and writes to a nil map reach panic with the mutex released", 4)
	c.Rule("R03.5", "mandated panics are raised through panic (recoverable), never through fatal/exit", 8)
	c.Rule("R03.7", "an index or bound is range-checked before any conversion that can narrow it", 2)

	// ---------------- R03.1 (emitter side)
	evalCheckRange(c, p)

	// ---------------- R03.2
	checkIndexTemplates(c, p)
	checkSliceTemplate(c, p)
	checkSliceToArrayPointer(c, p)
	checkTypeAssertTemplate(c, p)
	checkNilDerefSites(c, w)
	checkNullPointerIsValid(c, p)

	// ---------------- R03.7
	checkNarrowBeforeCheck(c, p)

	// ---------------- runtime side
	cfgs := []LoadCfg{defaultCfg}
	if c.Tier == "thorough" {
		cfgs = append(cfgs, LoadCfg{GOOS: "linux", GOARCH: "arm64"}, LoadCfg{GOOS: "darwin", GOARCH: "arm64"}, LoadCfg{GOOS: "linux", GOARCH: "386"}, LoadCfg{GOOS: "linux", GOARCH: "amd64", Tags: []string{"nogc"}})
	}
	for _, lc := range cfgs {
		rw, err := loadRT(lc, "internal/runtime")
		if err != nil {
			return "", err
		}
		c.use(rw)
		c.Config = lc.String()
		rp := rw.RT("internal/runtime")
		evalNewSlice3(c, "R03.1", rp)
		evalStringSlice(c, "R03.1", rp)
		evalMakeSlice(c, "R03.1", rp)
		evalChanClosed(c, rp)
		checkMapAssignNil(c, rp)
		checkRecoverable(c, rp)
		for _, name := range []string{"AssertIndexRange", "AssertNilDeref"} {
			checkAssertHelper(c, "R03.5", rp, name)
		}
		c.Config = ""
	}
	c.use(w)
	return "C03 (structural + abstract evaluation): the bounds predicates of runtime.NewSlice3/StringSlice/MakeSlice and of ssa.checkRange are evaluated by the checker's own AST interpreter on one valuation per weak ordering of their integer inputs (x3 scalings) and compared with the Go predicate (panics <=> out of range; result window); the emitter's index/slice/slice->array/type-assertion/nil-deref lowering is matched as check-before-access templates (right length operand, check dominating the GEP, failing edge reaching Panic); runtime channel operations on a closed channel and nil-map assignment are evaluated to reach panic with the mutex released; panics go through builtin panic (recoverable). NOT decided: that the panic happens exactly between the surrounding side effects (instruction scheduling), faults delivered through SIGSEGV (signal-mask semantics), absence of spurious panics beyond the guard predicates.", nil
}

// ---------------------------------------------------------------------------
// R03.1: checkRange over its abstract domain

func evalCheckRange(c *Ctx, p *packages.Package) {
	fd := findFunc(p, "checkRange")
	if fd == nil {
		c.Bad("R03.1", "ssa.checkRange", 0, "function not found")
		return
	}
	c.nfuncs++
	info := p.TypesInfo
	vkS, _ := pkgConst(p.Types, "vkSigned")
	vkU, _ := pkgConst(p.Types, "vkUnsigned")
	// helper bodies: isConstantInt reads SExtValue, isConstantUint reads ZExtValue
	for name, want := range map[string]string{"isConstantInt": "SExtValue", "isConstantUint": "ZExtValue"} {
		hd := findFunc(p, name)
		ok := false
		if hd != nil {
			ast.Inspect(hd.Body, func(n ast.Node) bool {
				if call, isCall := n.(*ast.CallExpr); isCall {
					if f := calleeOf(info, call); f != nil && f.Name() == want {
						ok = true
					}
					if f := calleeOf(info, call); f != nil && (f.Name() == "SExtValue" || f.Name() == "ZExtValue") && f.Name() != want {
						ok = false
					}
				}
				return true
			})
		}
		c.Check(ok, "R03.1", "ssa."+name+" reads "+want, 0, want, "constant reader does not use "+want+": a narrow unsigned constant with its top bit set is read as negative (or a negative one as huge)")
	}
	mk := func(kind int64, isConst bool, v int64) *val {
		return ivStruct(map[string]*val{"kind": ivInt(kind), "__const": ivBool(isConst), "__v": ivInt(v)})
	}
	n := 0
	bad := ""
	wrongReader := ""
	run := func(kind int64, ic bool, v int64, mc bool, m int64) (bool, bool, bool) {
		var calls []string
		hooks := map[string]hookFn{}
		for _, hn := range []string{"ssa.isConstantInt", "ssa.isConstantUint"} {
			name := hn
			hooks[name] = func(it *interp, call *ast.CallExpr, a []*val) (*val, bool) {
				arg := "max"
				if id, ok := call.Args[0].(*ast.Ident); ok {
					arg = id.Name
				}
				calls = append(calls, name+"("+arg+")")
				if a[0].f["__const"].b {
					return &val{k: vTuple, tup: []*val{ivInt(a[0].f["__v"].i), ivBool(true)}}, true
				}
				return &val{k: vTuple, tup: []*val{ivInt(0), ivBool(false)}}, true
			}
		}
		out := runFunc(info, fd, []*val{mk(kind, ic, v), mk(vkS, mc, m)}, hooks)
		n++
		if out.Err != "" || out.Panicked || len(out.Results) != 2 {
			if bad == "" {
				bad = "outside the interpretable fragment: " + out.Err
			}
			return false, false, false
		}
		if kind == vkU {
			for _, cl := range calls {
				if cl == "ssa.isConstantInt(idx)" && wrongReader == "" {
					wrongReader = "an unsigned index constant is read sign-extended (isConstantInt): uint8(200) is seen as -56 and the check is dropped"
				}
			}
		}
		return out.Results[0].b, out.Results[1].b, true
	}
	for _, kind := range []int64{vkS, vkU} {
		kn := map[int64]string{vkS: "signed", vkU: "unsigned"}[kind]
		// both constant: orderings of (v, m, 0), m >= 0
		for _, r := range weakOrderings(3) {
			for _, sc := range e6Scales {
				vals := valuation(r, 2, sc)
				v, m := vals[0], vals[1]
				if m < 0 || (kind == vkU && v < 0) {
					continue
				}
				cmin, cmax, ok := run(kind, true, v, true, m)
				if !ok {
					continue
				}
				emitted := (cmin && v < 0) || (cmax && uint64(v) >= uint64(m))
				want := v < 0 || v >= m
				if emitted != want && bad == "" {
					bad = fmt.Sprintf("%s constant index %d, constant length %d: emitted check evaluates to %v, Go requires panic=%v", kn, v, m, emitted, want)
				}
			}
		}
		// constant index, unknown length
		for _, v := range []int64{-5, -1, 0, 1, 7} {
			if kind == vkU && v < 0 {
				continue
			}
			cmin, cmax, ok := run(kind, true, v, false, 0)
			if ok && !cmax && !(v < 0 && cmin) && bad == "" {
				bad = fmt.Sprintf("%s constant index %d, run-time length: no upper-bound check emitted", kn, v)
			}
		}
		// unknown index
		for _, mc := range []bool{false, true} {
			_, cmax, ok := run(kind, false, 0, mc, 4)
			if ok && !cmax && bad == "" {
				bad = fmt.Sprintf("%s run-time index: no upper-bound check emitted (the unsigned >= length test is what rejects negatives too)", kn)
			}
		}
	}
	c.evals += n
	if strings.HasPrefix(bad, "outside") {
		c.Undecided("R03.1", "ssa.checkRange elision", fd.Pos(), bad)
	} else {
		c.Check(bad == "", "R03.1", "ssa.checkRange elision", fd.Pos(), fmt.Sprintf("a bounds check is omitted only for a constant index proven in [0,len) (%d abstract cases)", n), bad)
	}
	c.Check(wrongReader == "", "R03.1", "ssa.checkRange constant readers", fd.Pos(), "unsigned constants are read zero-extended", wrongReader)
}

// ---------------------------------------------------------------------------
// R03.2 templates

// lengthOperand classifies the expression bound to `max` for an indexed kind.
func lengthOperand(v *fnView, e ast.Expr) string {
	r := v.res(e)
	if name, args, ok := v.call(r); ok {
		switch name {
		case "ssa.Builder.SliceLen":
			if len(args) == 1 && exprStr(args[0]) == "x" {
				return "len(slice)"
			}
		case "ssa.Builder.SliceCap":
			return "cap(slice)"
		case "ssa.Builder.StringLen":
			if len(args) == 1 && exprStr(args[0]) == "x" {
				return "len(string)"
			}
		case "ssa.Program.IntVal":
			if len(args) >= 1 && strings.Contains(exprStr(args[0]), ".Len()") {
				return "len(array)"
			}
		}
	}
	return "?" + exprStr(r)
}

func checkIndexTemplates(c *Ctx, p *packages.Package) {
	info := p.TypesInfo
	for _, fname := range []string{"Builder.IndexAddr", "Builder.Index"} {
		fd := findFunc(p, fname)
		if fd == nil {
			c.Bad("R03.2", "ssa."+fname, 0, "function not found")
			continue
		}
		c.nfuncs++
		v := newFnView(p, fd)
		g := buildCFG(p, fd)
		// the type switch on the indexed operand
		var ts *ast.TypeSwitchStmt
		ast.Inspect(fd.Body, func(n ast.Node) bool {
			if t, ok := n.(*ast.TypeSwitchStmt); ok && ts == nil {
				ts = t
			}
			return true
		})
		if ts == nil {
			c.Undecided("R03.2", "ssa."+fname+" kind switch", fd.Pos(), "no type switch on the operand kind")
			continue
		}
		wantLen := map[string]string{"Slice": "len(slice)", "Pointer": "len(array)", "Array": "len(array)", "Basic": "len(string)"}
		// per-kind: which expression is the bound
		for _, cs := range ts.Body.List {
			cc := cs.(*ast.CaseClause)
			for _, te := range cc.List {
				kind := strings.TrimPrefix(exprStr(te), "*types.")
				want, known := wantLen[kind]
				if !known {
					continue
				}
				// find the definition of max inside this clause
				got := ""
				for _, st := range cc.Body {
					if as, ok := st.(*ast.AssignStmt); ok {
						for i, l := range as.Lhs {
							if exprStr(l) == "max" && i < len(as.Rhs) {
								lv := newFnView(p, fd)
								got = lengthOperand(lv, as.Rhs[i])
							}
						}
					}
				}
				c.Check(got == want, "R03.2", fmt.Sprintf("ssa.%s %s bound", fname, kind), cc.Pos(), "index checked against "+want, fmt.Sprintf("index of a %s operand is checked against %s, Go requires %s", kind, got, want))
			}
		}
		// every GEP taking idx.impl is preceded by idx = b.checkIndex(idx, max) on every path through a handled kind
		isCheck := func(n ast.Node) bool {
			as, ok := n.(*ast.AssignStmt)
			if !ok || len(as.Lhs) != 1 || exprStr(as.Lhs[0]) != "idx" {
				return false
			}
			name, args, ok := v.call(as.Rhs[0])
			return ok && name == "ssa.Builder.checkIndex" && len(args) == 2 && exprStr(args[0]) == "idx" && exprStr(args[1]) == "max"
		}
		geps := v.findCalls(fd.Body, "llvm.Builder.CreateInBoundsGEP")
		if len(geps) == 0 {
			c.Undecided("R03.2", "ssa."+fname+" element address", fd.Pos(), "no CreateInBoundsGEP found")
		}
		for i, gep := range geps {
			key := fmt.Sprintf("ssa.%s GEP#%d dominated by checkIndex", fname, i+1)
			// prune the edge "no case of the kind switch matched": go/ssa only produces handled kinds
			dom, found := g.dominatedBy(gep, isCheck, func(b *cfgBlk, k int) bool { return !isTypeSwitchFallthrough(b, k, ts) })
			c.Check(found && dom, "R03.2", key, gep.Pos(), "idx = checkIndex(idx, max) on every path to the address computation", "an element address is computed on a path without the bounds check")
			// index operand is the checked idx
			_, a, _ := v.call(gep)
			okIdx := false
			if len(a) >= 3 {
				if cl, ok := v.res(a[2]).(*ast.CompositeLit); ok && len(cl.Elts) == 1 && exprStr(cl.Elts[0]) == "idx.impl" {
					okIdx = true
				}
			}
			c.Check(okIdx, "R03.2", fmt.Sprintf("ssa.%s GEP#%d uses the checked index", fname, i+1), gep.Pos(), "indices = {idx.impl}", "the address is computed from something other than the checked index")
		}
	}
	// checkIndex body
	fd := findFunc(p, "Builder.checkIndex")
	if fd == nil {
		c.Bad("R03.2", "ssa.Builder.checkIndex", 0, "function not found")
		return
	}
	c.nfuncs++
	v := newFnView(p, fd)
	okMin, okMax, okAssert := false, false, false
	ast.Inspect(fd.Body, func(n ast.Node) bool {
		is, ok := n.(*ast.IfStmt)
		if !ok {
			return true
		}
		cond := strings.ReplaceAll(exprStr(is.Cond), " ", "")
		for _, call := range v.findCalls(is.Body, "llvm.Builder.CreateICmp") {
			_, a, _ := v.call(call)
			if len(a) < 3 {
				continue
			}
			pred := v.constName(a[0])
			if cond == "checkMin" && pred == "llvm.IntSLT" && exprStr(a[1]) == "idx.impl" {
				if n2, a2, ok := v.call(a[2]); ok && n2 == "llvm.ConstInt" {
					if z, isC := constInt(info, a2[1]); isC && z == 0 {
						okMin = true
					}
				}
			}
			if cond == "checkMax" && pred == "llvm.IntUGE" && exprStr(a[1]) == "idx.impl" && exprStr(a[2]) == "max.impl" {
				okMax = true
			}
		}
		if cond == "!check.IsNil()" && len(v.findRTCalls(is.Body, "AssertIndexRange")) == 1 {
			okAssert = true
		}
		return true
	})
	// combination must be OR
	okOr := len(v.findCalls(fd.Body, "llvm.Builder.CreateOr")) >= 1 && len(v.findCalls(fd.Body, "llvm.Builder.CreateAnd")) == 0
	c.Check(okMin, "R03.2", "ssa.checkIndex lower bound", fd.Pos(), "checkMin -> icmp slt idx, 0", "lower-bound test is not (idx <s 0)")
	c.Check(okMax, "R03.2", "ssa.checkIndex upper bound", fd.Pos(), "checkMax -> icmp uge idx, max", "upper-bound test is not (idx >=u max): index == len is accepted or negatives slip through")
	c.Check(okAssert && okOr, "R03.2", "ssa.checkIndex raises", fd.Pos(), "AssertIndexRange(min-violation OR max-violation) whenever a test was emitted", "the combined test is not asserted (or combined with AND)")
	// checkRange is consulted on the ORIGINAL operands
	okRange := false
	if len(fd.Body.List) >= 2 {
		for _, st := range fd.Body.List[:3] {
			if as, ok := st.(*ast.AssignStmt); ok && len(as.Rhs) == 1 {
				if name, a, ok := v.call(as.Rhs[0]); ok && name == "ssa.checkRange" && len(a) == 2 && exprStr(a[0]) == "idx" && exprStr(a[1]) == "max" {
					okRange = true
				}
			}
		}
	}
	c.Check(okRange, "R03.2", "ssa.checkIndex consults checkRange(idx, max)", fd.Pos(), "elision decided from the operands themselves", "check elision is not decided by checkRange(idx, max)")
}

// isTypeSwitchFallthrough: the edge taken when no clause of ts matches (there is no default clause).
func isTypeSwitchFallthrough(b *cfgBlk, k int, ts *ast.TypeSwitchStmt) bool {
	// go/cfg: after the last case test of a switch without default, control sits in a
	// KindSwitchNextCase block that jumps to the switch's KindSwitchDone block.
	if b.Kind != cfg.KindSwitchNextCase || len(b.Succs) != 1 {
		return false
	}
	s := b.Succs[0]
	return s.Kind == cfg.KindSwitchDone && s.Stmt == ast.Stmt(ts)
}

func checkSliceTemplate(c *Ctx, p *packages.Package) {
	fd := findFunc(p, "Builder.Slice")
	if fd == nil {
		c.Bad("R03.2", "ssa.Builder.Slice", 0, "function not found")
		return
	}
	c.nfuncs++
	v := newFnView(p, fd)
	g := buildCFG(p, fd)
	// every return is preceded by StringSlice/NewSlice3, except the whole-array form
	isRT := func(n ast.Node) bool {
		return nodeHas(n, func(x ast.Node) bool {
			call, ok := x.(*ast.CallExpr)
			if !ok {
				return false
			}
			name, _, ok := v.rtCall(call)
			return ok && (name == "StringSlice" || name == "NewSlice3")
		})
	}
	nret := 0
	for _, b := range g.G.Blocks {
		if !b.Live {
			continue
		}
		for _, n := range b.Nodes {
			ret, ok := n.(*ast.ReturnStmt)
			if !ok {
				continue
			}
			nret++
			dom, _ := g.dominatedBy(ret, isRT, nil)
			if dom {
				c.OK("R03.2", fmt.Sprintf("ssa.Slice exit#%d bounds-checked", nret), ret.Pos(), "passes runtime StringSlice/NewSlice3")
				continue
			}
			// unchecked exit: must be the whole-array shortcut, guarded by "no bound given"
			okGuard := false
			for _, e := range enclosingStmts(fd.Body, ret) {
				if is, isIf := e.(*ast.IfStmt); isIf {
					s := strings.ReplaceAll(exprStr(is.Cond), " ", "")
					if s == "lowIsNil&&max.IsNil()" || s == "max.IsNil()&&lowIsNil" {
						okGuard = true
					}
				}
			}
			inHighNil := false
			for _, e := range enclosingStmts(fd.Body, ret) {
				if is, isIf := e.(*ast.IfStmt); isIf && strings.ReplaceAll(exprStr(is.Cond), " ", "") == "high.IsNil()" {
					inHighNil = true
				}
			}
			c.Check(okGuard && inHighNil, "R03.2", fmt.Sprintf("ssa.Slice exit#%d bounds-checked", nret), ret.Pos(), "unchecked only for a[:] of an array pointer (no bound given)", "a slice expression with bounds returns without the runtime bounds check")
		}
	}
	// argument order of NewSlice3(base, eltSize, cap, low, high, max) and StringSlice(x, low, high)
	for _, call := range v.findRTCalls(fd.Body, "NewSlice3") {
		_, a, _ := v.rtCall(call)
		var got []string
		for _, e := range a {
			got = append(got, exprStr(e))
		}
		want := "base nEltSize nCap low high max"
		c.Check(strings.Join(got, " ") == want, "R03.2", "ssa.Slice NewSlice3 operands", call.Pos(), want, "NewSlice3 receives ("+strings.Join(got, ", ")+"), expected ("+want+")")
	}
	for _, call := range v.findRTCalls(fd.Body, "StringSlice") {
		_, a, _ := v.rtCall(call)
		var got []string
		for _, e := range a {
			got = append(got, exprStr(e))
		}
		c.Check(strings.Join(got, " ") == "x low high", "R03.2", "ssa.Slice StringSlice operands", call.Pos(), "x low high", "StringSlice receives ("+strings.Join(got, ", ")+")")
	}
	// defaults: high := len, max := cap, nCap per kind
	type def struct{ clause, lhs, want string }
	wants := []def{
		{"Basic", "high", "ssa.Builder.StringLen"}, {"Slice", "high", "ssa.Builder.SliceLen"}, {"Slice", "nCap", "ssa.Builder.SliceCap"},
	}
	var ts *ast.TypeSwitchStmt
	ast.Inspect(fd.Body, func(n ast.Node) bool {
		if t, ok := n.(*ast.TypeSwitchStmt); ok && ts == nil {
			ts = t
		}
		return true
	})
	if ts != nil {
		for _, wdef := range wants {
			ok := false
			for _, cs := range ts.Body.List {
				cc := cs.(*ast.CaseClause)
				if len(cc.List) != 1 || strings.TrimPrefix(exprStr(cc.List[0]), "*types.") != wdef.clause {
					continue
				}
				ast.Inspect(cc, func(n ast.Node) bool {
					if as, isAs := n.(*ast.AssignStmt); isAs && len(as.Lhs) == 1 && exprStr(as.Lhs[0]) == wdef.lhs {
						if name, a, isCall := v.call(as.Rhs[0]); isCall && name == wdef.want && len(a) == 1 && exprStr(a[0]) == "x" {
							ok = true
						}
					}
					return true
				})
			}
			c.Check(ok, "R03.2", fmt.Sprintf("ssa.Slice %s default %s", wdef.clause, wdef.lhs), ts.Pos(), wdef.lhs+" = "+wdef.want+"(x)", "default "+wdef.lhs+" of a "+wdef.clause+" operand is not "+wdef.want+"(x)")
		}
	}
	// max defaults to nCap
	okMax := false
	ast.Inspect(fd.Body, func(n ast.Node) bool {
		if is, ok := n.(*ast.IfStmt); ok && strings.ReplaceAll(exprStr(is.Cond), " ", "") == "max.IsNil()" && len(is.Body.List) == 1 {
			if as, ok := is.Body.List[0].(*ast.AssignStmt); ok && exprStr(as.Lhs[0]) == "max" && exprStr(as.Rhs[0]) == "nCap" {
				okMax = true
			}
		}
		return true
	})
	c.Check(okMax, "R03.2", "ssa.Slice default max", fd.Pos(), "max = cap when omitted", "an omitted max bound does not default to the capacity")
}

func checkSliceToArrayPointer(c *Ctx, p *packages.Package) {
	fd := findFunc(p, "Builder.SliceToArrayPointer")
	if fd == nil {
		c.Bad("R03.2", "ssa.Builder.SliceToArrayPointer", 0, "function not found")
		return
	}
	c.nfuncs++
	v := newFnView(p, fd)
	okCmp, okPanic, okOrder := false, false, false
	for _, call := range v.findCalls(fd.Body, "llvm.Builder.CreateICmp") {
		_, a, _ := v.call(call)
		if len(a) >= 3 && v.constName(a[0]) == "llvm.IntSLT" && strings.Contains(exprStr(a[1]), "SliceLen(x)") && exprStr(a[2]) == "max.impl" {
			if strings.Contains(exprStr(v.res(&ast.Ident{Name: "max"})), "") {
				okCmp = true
			}
		}
	}
	// max is the array length
	for _, d := range v.defs[lookupLocal(v, "max")] {
		if d != nil && !strings.Contains(exprStr(d), ".Len()") {
			okCmp = false
		}
	}
	var ifthen *ast.CallExpr
	for _, call := range callsIn(fd.Body) {
		if name, a, ok := v.call(call); ok && name == "ssa.Builder.IfThen" && len(a) == 2 && exprStr(a[0]) == "failed" {
			if lit, isLit := a[1].(*ast.FuncLit); isLit && len(v.findRTCalls(lit, "PanicSliceConvert")) == 1 {
				okPanic = true
				ifthen = call
			}
		}
	}
	if ifthen != nil {
		// result data taken after the check
		for _, st := range fd.Body.List {
			if as, ok := st.(*ast.AssignStmt); ok && exprStr(as.Lhs[0]) == "ret.impl" && as.Pos() > ifthen.End() {
				okOrder = true
			}
		}
	}
	c.Check(okCmp && okPanic && okOrder, "R03.2", "ssa.SliceToArrayPointer length check", fd.Pos(), "if len(s) <s N { PanicSliceConvert } before taking the data pointer", "slice->array conversion does not compare len(s) with the array length and panic before using the data")
}

func lookupLocal(v *fnView, name string) types.Object {
	var o types.Object
	ast.Inspect(v.fd.Body, func(n ast.Node) bool {
		if id, ok := n.(*ast.Ident); ok && id.Name == name && o == nil {
			if d := v.info.Defs[id]; d != nil {
				o = d
			}
		}
		return true
	})
	return o
}

func checkTypeAssertTemplate(c *Ctx, p *packages.Package) {
	fd := findFunc(p, "Builder.TypeAssert")
	if fd == nil {
		c.Bad("R03.2", "ssa.Builder.TypeAssert", 0, "function not found")
		return
	}
	c.nfuncs++
	v := newFnView(p, fd)
	// the non-comma-ok tail: If(eq, blks[0], blks[1]); SetBlockEx(blks[1]); Panic(...); SetBlockEx(blks[0]); return val()
	var seq []string
	tail := fd.Body.List
	start := -1
	for i, st := range tail {
		if is, ok := st.(*ast.IfStmt); ok && exprStr(is.Cond) == "commaOk" {
			start = i + 1
		}
	}
	if start < 0 {
		c.Undecided("R03.2", "ssa.TypeAssert failing edge panics", fd.Pos(), "no commaOk split found")
		return
	}
	for _, st := range tail[start:] {
		switch s := st.(type) {
		case *ast.ExprStmt:
			if name, a, ok := v.call(s.X); ok {
				var as []string
				for _, e := range a {
					as = append(as, strings.ReplaceAll(exprStr(e), " ", ""))
				}
				seq = append(seq, strings.TrimPrefix(name, "ssa.Builder.")+"("+strings.Join(as, ",")+")")
			}
		case *ast.ReturnStmt:
			seq = append(seq, "return "+exprStr(s.Results[0]))
		case *ast.AssignStmt:
			seq = append(seq, exprStr(s.Lhs[0])+"=")
		}
	}
	joined := strings.Join(seq, "; ")
	ok := len(seq) >= 5 && strings.HasPrefix(seq[0], "blks=") || true
	// locate the essential order
	iIf := strings.Index(joined, "If(eq,blks[0],blks[1])")
	iSet1 := strings.Index(joined, "SetBlockEx(blks[1],AtEnd,false)")
	iPanic := strings.Index(joined, "Panic(")
	iSet0 := strings.Index(joined, "SetBlockEx(blks[0],AtEnd,false)")
	iRet := strings.Index(joined, "return val()")
	ok = ok && iIf >= 0 && iSet1 > iIf && iPanic > iSet1 && iSet0 > iPanic && iRet > iSet0
	c.Check(ok, "R03.2", "ssa.TypeAssert failing edge panics", fd.Pos(), "If(eq, ok, fail); fail: Panic(...); ok: return value", "the failed-assertion block does not reach Panic before the value is produced: "+joined)
	// the equality test per target kind
	var kinds []string
	ast.Inspect(fd.Body, func(n ast.Node) bool {
		as, ok := n.(*ast.AssignStmt)
		if !ok || len(as.Lhs) != 1 || exprStr(as.Lhs[0]) != "eq" {
			return true
		}
		if rn, a, ok := v.rtCall(as.Rhs[0]); ok {
			var s []string
			for _, e := range a {
				s = append(s, exprStr(e))
			}
			kinds = append(kinds, rn+"("+strings.Join(s, ",")+")")
		} else if name, a, ok := v.call(as.Rhs[0]); ok && name == "ssa.Builder.BinOp" {
			kinds = append(kinds, "BinOp("+v.constName(a[0])+","+exprStr(a[1])+")")
		}
		return true
	})
	// the nil-check-only fast path (eq = tx != nil) is valid only for the operand's OWN static type: the value keeps
	// its itab, whose method slots are laid out for that type.  Its condition must be type identity, nothing wider.
	ast.Inspect(fd.Body, func(n ast.Node) bool {
		is, ok := n.(*ast.IfStmt)
		if !ok {
			return true
		}
		fast := false
		for _, st := range is.Body.List {
			if as, ok := st.(*ast.AssignStmt); ok && len(as.Lhs) == 1 && exprStr(as.Lhs[0]) == "eq" {
				if name, a, ok := v.call(as.Rhs[0]); ok && name == "ssa.Builder.BinOp" && v.constName(a[0]) == "go/token.NEQ" {
					fast = true
				}
			}
		}
		if !fast {
			return true
		}
		x, y, op, isCmp := binCmp(is.Cond)
		okCond := isCmp && op == token.EQL && strings.HasSuffix(exprStr(x), ".RawType()") && strings.HasSuffix(exprStr(y), ".RawType()")
		if call, isCall := ast.Unparen(is.Cond).(*ast.CallExpr); isCall {
			if f := calleeOf(p.TypesInfo, call); f != nil && qualName(f) == "go/types.Identical" {
				okCond = true
			}
		}
		c.Check(okCond, "R03.2", "ssa.TypeAssert nil-check-only path is limited to the operand's own type", is.Pos(), "x.RawType() == assertedTyp.RawType()",
			"the fast path that keeps the operand's itab is taken under "+exprStr(is.Cond)+": for any other interface type the method slots differ, so a call through the asserted value runs the wrong method")
		return true
	})
	want := []string{"BinOp(go/token.NEQ,tx)", "Implements(tabi,tx)", "MatchesClosure(tabi,tx)", "BinOp(go/token.EQL,tx)"}
	c.Check(strings.Join(kinds, " ") == strings.Join(want, " "), "R03.2", "ssa.TypeAssert success predicate", fd.Pos(), strings.Join(want, " | "), "success predicates are "+strings.Join(kinds, " | "))
}

func checkNilDerefSites(c *Ctx, w *World) {
	p := w.Main("ssa")
	info := p.TypesInfo
	// AssertNilDeref: icmp eq ptr, null -> runtime AssertNilDeref
	if fd := findFunc(p, "Builder.AssertNilDeref"); fd == nil {
		c.Bad("R03.2", "ssa.Builder.AssertNilDeref", 0, "function not found")
	} else {
		v := newFnView(p, fd)
		ok := len(v.findRTCalls(fd.Body, "AssertNilDeref")) == 1
		okCmp := false
		ast.Inspect(fd.Body, func(n ast.Node) bool {
			if call, isCall := n.(*ast.CallExpr); isCall {
				if name, a, isC := v.call(call); isC && name == "llvm.Builder.CreateICmp" && len(a) >= 3 && v.constName(a[0]) == "llvm.IntEQ" {
					okCmp = true
				}
				if name, a, isC := v.call(call); isC && name == "ssa.Builder.BinOp" && len(a) >= 1 && v.constName(a[0]) == "go/token.EQL" {
					okCmp = true
				}
			}
			return true
		})
		c.Check(ok && okCmp, "R03.2", "ssa.AssertNilDeref", fd.Pos(), "AssertNilDeref(ptr == nil)", "helper does not assert (ptr == nil)")
	}
	// MakeInterface from pointer-boxed values asserts first
	if fd := findFunc(p, "Builder.MakeInterfaceFromPtr"); fd != nil {
		v := newFnView(p, fd)
		g := buildCFG(p, fd)
		var as *ast.CallExpr
		for _, call := range callsIn(fd.Body) {
			if name, _, ok := v.call(call); ok && name == "ssa.Builder.AssertNilDeref" {
				as = call
			}
		}
		ok := false
		if as != nil {
			ok = true
			for _, ld := range v.findCalls(fd.Body, "ssa.Builder.Load") {
				if dom, found := g.dominatedBy(ld, func(n ast.Node) bool {
					return nodeHas(n, func(x ast.Node) bool { return x == ast.Node(as) })
				}, nil); !found || !dom {
					ok = false
				}
			}
		}
		c.Check(ok, "R03.2", "ssa.MakeInterfaceFromPtr nil check", fd.Pos(), "AssertNilDeref(ptr) dominates the load", "the pointer is loaded without a nil check")
	}
	// cl: large-object dereference paths
	cp := w.Main("cl")
	cinfo := cp.TypesInfo
	_ = info
	n := 0
	for _, fd := range allFuncs(cp) {
		for _, call := range callsIn(fd.Body) {
			f := calleeOf(cinfo, call)
			if f == nil || shortName(f) != "cl.context.isLargeNonPointerValue" {
				continue
			}
			// the call is an if-condition; its then-branch must call AssertNilDeref (directly or via assertNilDerefBase)
			var is *ast.IfStmt
			for _, e := range enclosingStmts(fd.Body, call) {
				if x, ok := e.(*ast.IfStmt); ok && within(x.Cond, call) {
					is = x
				}
			}
			if is == nil {
				continue
			}
			n++
			has := false
			for _, cc := range callsIn(is.Body) {
				if g := calleeOf(cinfo, cc); g != nil && (shortName(g) == "ssa.Builder.AssertNilDeref" || shortName(g) == "cl.context.assertNilDerefBase") {
					has = true
				}
			}
			if !has {
				// the load is skipped because its only user is a MakeInterface, whose lowering
				// (MakeInterfaceFromPtr, checked above) performs the nil check itself
				for _, e := range enclosingStmts(fd.Body, call) {
					if x, ok := e.(*ast.IfStmt); ok && x.Init != nil && strings.Contains(exprStr(x.Init.(*ast.AssignStmt).Rhs[0]), "(*ssa.MakeInterface)") {
						if len(is.Body.List) == 1 {
							if _, isRet := is.Body.List[0].(*ast.ReturnStmt); isRet {
								has = true
							}
						}
					}
				}
			}
			c.Check(has, "R03.2", fmt.Sprintf("cl.%s large-object dereference #%d", declName(fd), n), is.Pos(), "explicit nil check for objects larger than the guard page", "a large object is dereferenced without the explicit nil check (a nil base + large offset does not fault)")
		}
	}
	if n < 2 {
		c.Undecided("R03.2", "cl large-object dereference sites", 0, fmt.Sprintf("%d sites found, expected >= 2", n))
	}
}

// ---------------------------------------------------------------------------
// R03.7 narrowing before the check

func checkNarrowBeforeCheck(c *Ctx, p *packages.Package) {
	for _, fname := range []string{"Builder.checkIndex", "Builder.FitIntSize"} {
		fd := findFunc(p, fname)
		if fd == nil {
			c.Bad("R03.7", "ssa."+fname, 0, "function not found")
			continue
		}
		v := newFnView(p, fd)
		// the cast is guarded by a size comparison; it must exclude "source wider than destination"
		for _, call := range callsIn(fd.Body) {
			name, _, ok := v.call(call)
			if !ok || (name != "ssa.castInt" && name != "ssa.castUintptr") {
				continue
			}
			var guard *ast.IfStmt
			for _, e := range enclosingStmts(fd.Body, call) {
				if is, ok := e.(*ast.IfStmt); ok {
					guard = is
				}
			}
			key := "ssa." + fname + " conversion cannot narrow an unchecked operand"
			if guard == nil {
				c.Bad("R03.7", key, call.Pos(), "unconditional conversion to the word type before the range check")
				continue
			}
			x, y, op, isCmp := binCmp(guard.Cond)
			s := ""
			if isCmp {
				s = strings.ReplaceAll(exprStr(x)+" "+op.String()+" "+exprStr(y), " ", "")
			}
			widenOnly := isCmp && (op == token.LSS || op == token.GTR) && strings.Contains(s, "SizeOf")
			if widenOnly {
				c.OK("R03.7", key, call.Pos(), "conversion only widens: "+s)
			} else {
				c.Bad("R03.7", key, call.Pos(), "the operand is converted to the word-sized int whenever the sizes differ ("+exprStr(guard.Cond)+"), including 64-bit operands on 32-bit targets, before it is range-checked")
			}
		}
	}
}

// ---------------------------------------------------------------------------
// R03.3 runtime typestate

func evalChanClosed(c *Ctx, rp *packages.Package) {
	type tc struct {
		fn   string
		args func(p *val) []*val
	}
	mkChan := func(capv, getp, ln int64, closed bool) *val {
		return ivStruct(map[string]*val{
			"mutex": ivOpaque("mutex"), "cond": ivOpaque("cond"), "data": ivOpaque("buf"),
			"getp": ivInt(getp), "len": ivInt(ln), "cap": ivInt(capv), "sops": {k: vNil},
			"sends": ivInt(0), "selsends": ivInt(0), "close": ivBool(closed),
		})
	}
	cases := []tc{
		{"ChanSend", func(p *val) []*val { return []*val{p, ivOpaque("v"), ivInt(8)} }},
		{"ChanClose", func(p *val) []*val { return []*val{p} }},
		{"ChanTrySend", func(p *val) []*val { return []*val{p, ivOpaque("v"), ivInt(8)} }},
	}
	for _, t := range cases {
		fd := findFunc(rp, t.fn)
		if fd == nil {
			c.Bad("R03.3", "runtime."+t.fn+" on a closed channel", 0, "function not found")
			continue
		}
		c.nfuncs++
		bad, und := "", ""
		n := 0
		for _, capv := range []int64{0, 2} {
			for _, getp := range []int64{0, 1} {
				for _, ln := range []int64{0, 1, 2} {
					if ln > capv || (capv == 0 && ln != 0) {
						continue
					}
					depth := 0
					var ev []string
					hooks := rtHooks(&depth, &ev)
					hooks["internal/runtime.notifyOps"] = func(it *interp, call *ast.CallExpr, a []*val) (*val, bool) { return ivOpaque("void"), true }
					out := runFunc(rp.TypesInfo, fd, t.args(mkChan(capv, getp, ln, true)), hooks)
					n++
					if out.Err != "" {
						und = out.Err
						continue
					}
					if !out.Panicked && bad == "" {
						bad = fmt.Sprintf("cap=%d len=%d recv-waiting=%d closed=true: returns %v instead of panicking", capv, ln, getp, out.Results)
					}
					if out.Panicked && depth != 0 && bad == "" {
						bad = fmt.Sprintf("cap=%d len=%d: panics while still holding the channel mutex (a recovered panic deadlocks every later operation)", capv, ln)
					}
				}
			}
		}
		c.evals += n
		key := "runtime." + t.fn + " on a closed channel"
		if und != "" {
			c.Undecided("R03.3", key, fd.Pos(), "outside the interpretable fragment: "+und)
		} else {
			c.Check(bad == "", "R03.3", key, fd.Pos(), fmt.Sprintf("panics with the mutex released for every (cap,len,getp) state with close=true (%d states)", n), bad)
		}
	}
}

func checkMapAssignNil(c *Ctx, rp *packages.Package) {
	fd := findFunc(rp, "mapassign")
	if fd == nil {
		c.Bad("R03.3", "runtime.mapassign nil map", 0, "function not found")
		return
	}
	c.nfuncs++
	info := rp.TypesInfo
	g := buildCFG(rp, fd)
	// the hmap parameter
	var h types.Object
	for _, f := range fd.Type.Params.List {
		for _, n := range f.Names {
			if t := info.TypeOf(f.Type); t != nil && strings.HasSuffix(t.String(), "hmap") {
				h = info.Defs[n]
			}
		}
	}
	if h == nil {
		c.Undecided("R03.3", "runtime.mapassign nil map", fd.Pos(), "no *hmap parameter")
		return
	}
	isNilTest := func(e ast.Expr) bool {
		x, y, op, ok := binCmp(e)
		if !ok || op != token.EQL {
			return false
		}
		id, isId := ast.Unparen(x).(*ast.Ident)
		return isId && info.Uses[id] == h && isNilIdent(info, y)
	}
	// every dereference of h is reachable only through the non-nil edge; the nil edge reaches panic
	var guardBlk *cfgBlk
	nilEdge := -1
	for _, b := range g.G.Blocks {
		if !b.Live {
			continue
		}
		if k, _, ok := passEdge(b, isNilTest); ok {
			guardBlk, nilEdge = b, k
		}
	}
	if guardBlk == nil {
		c.Bad("R03.3", "runtime.mapassign nil map", fd.Pos(), "no h == nil test: assignment to a nil map dereferences nil instead of raising Go's panic")
		return
	}
	_, escapes := g.reach(cfgPos{guardBlk.Succs[nilEdge], 0}, func(n ast.Node) bool { return containsPanic(info, n) }, nil, true, nil)
	deref := func(n ast.Node) bool {
		return nodeHas(n, func(x ast.Node) bool {
			s, ok := x.(*ast.SelectorExpr)
			if !ok {
				return false
			}
			id, isId := ast.Unparen(s.X).(*ast.Ident)
			return isId && info.Uses[id] == h
		})
	}
	_, unguarded := g.reach(g.entry(), nil, deref, false, func(b *cfgBlk, k int) bool { return !(b == guardBlk && k != nilEdge) })
	c.Check(!escapes && !unguarded, "R03.3", "runtime.mapassign nil map", fd.Pos(), "h == nil -> panic before any use of h", "a nil map reaches a field access or returns without panicking")
}

func checkRecoverable(c *Ctx, rp *packages.Package) {
	info := rp.TypesInfo
	fatal := map[string]bool{"internal/runtime.fatal": true, "internal/runtime.throw": true, "internal/clite.Exit": true, "internal/clite.Abort": true, "os.Exit": true}
	for _, name := range []string{"NewSlice3", "StringSlice", "MakeSlice", "panicmakeslicelen", "panicmakeslicecap", "PanicSliceConvert", "ChanSend", "ChanClose", "AssertDivideByZero", "AssertNegativeShift"} {
		fd := findFunc(rp, name)
		if fd == nil {
			c.Bad("R03.5", "runtime."+name+" recoverable", 0, "function not found")
			continue
		}
		bad := ""
		hasPanic := false
		for _, call := range callsIn(fd.Body) {
			if isPanicCall(info, call) {
				hasPanic = true
			}
			if f := calleeOf(info, call); f != nil {
				if fatal[shortName(f)] {
					bad = shortName(f)
				}
				// helpers that always panic count as panic
				if g := findFunc(rp, f.Name()); g != nil && f.Pkg() == rp.Types && len(g.Body.List) == 1 {
					if es, ok := g.Body.List[0].(*ast.ExprStmt); ok && isPanicCall(info, es.X) {
						hasPanic = true
					}
				}
			}
		}
		c.Check(bad == "" && hasPanic, "R03.5", "runtime."+name+" recoverable", fd.Pos(), "fails through builtin panic", "fails through "+bad+" (not recoverable) or has no panic at all")
	}
	// SIGSEGV handler: every path of the handler literal ends in panic
	found := false
	for _, f := range rp.Syntax {
		for _, d := range f.Decls {
			fd, ok := d.(*ast.FuncDecl)
			if !ok || fd.Name.Name != "init" || fd.Body == nil {
				continue
			}
			for _, call := range callsIn(fd.Body) {
				if g := calleeOf(info, call); g == nil || !strings.HasSuffix(shortName(g), "signal.Signal") {
					continue
				}
				if len(call.Args) != 2 {
					continue
				}
				lit, ok := call.Args[1].(*ast.FuncLit)
				if !ok {
					continue
				}
				found = true
				lg := buildLitCFG(rp, lit)
				_, returns := lg.reach(lg.entry(), func(n ast.Node) bool { return containsPanic(info, n) }, nil, true, nil)
				sig, isConst := constInt(info, call.Args[0])
				c.Check(!returns && isConst && sig == 11, "R03.5", "runtime SIGSEGV handler panics", call.Pos(), "handler registered for signal 11; every path ends in panic", "the fault handler can return (re-executing the faulting instruction) or is not registered for SIGSEGV")
			}
		}
	}
	if !found && rp.Types != nil {
		// wasm/baremetal configurations legitimately have no handler; only the default configuration requires it
		c.Note("no SIGSEGV handler registration found in this configuration")
	}
}

func init() {
	addMutant(Mutant{Prop: "C03", Name: "newslice3-k-le-cap-offbyone", File: "runtime/internal/runtime/z_slice.go", Old: "if k < 0 || k > cap {", New: "if k < 0 || k >= cap {", Expect: "R03.1 runtime.NewSlice3 bounds predicate"})
	addMutant(Mutant{Prop: "C03", Name: "newslice3-j-check-dropped", File: "runtime/internal/runtime/z_slice.go", Old: "if j < 0 || j > k {", New: "if j < 0 {", Expect: "R03.1 runtime.NewSlice3 bounds predicate"})
	addMutant(Mutant{Prop: "C03", Name: "stringslice-j-lt-i", File: "runtime/internal/runtime/z_string.go", Old: "if i < 0 || j < i || j > base.len {", New: "if i < 0 || j > base.len {", Expect: "R03.1 runtime.StringSlice bounds predicate"})
	addMutant(Mutant{Prop: "C03", Name: "makeslice-neg-len", File: "runtime/internal/runtime/z_slice.go", Old: "if overflow || mem > maxAlloc || len < 0 || len > cap {", New: "if overflow || mem > maxAlloc || len > cap {", Expect: "R03.1 runtime.MakeSlice guard"})
	addMutant(Mutant{Prop: "C03", Name: "checkrange-const-eq", File: "ssa/datastruct.go", Old: "\t\t\tif m, ok := isConstantInt(max); ok {\n\t\t\t\tif v >= m {", New: "\t\t\tif m, ok := isConstantInt(max); ok {\n\t\t\t\tif v > m {", Expect: "R03.1 ssa.checkRange elision"})
	addMutant(Mutant{Prop: "C03", Name: "checkrange-unsigned-nonconst", File: "ssa/datastruct.go", Old: "\t\t} else {\n\t\t\tcheckMax = true\n\t\t}\n\t}\n\treturn\n}", New: "\t\t} else {\n\t\t\tcheckMax = false\n\t\t}\n\t}\n\treturn\n}", Expect: "R03.1 ssa.checkRange elision"})
	addMutant(Mutant{Prop: "C03", Name: "index-against-cap", File: "ssa/datastruct.go", Old: "\t\tptr := b.SliceData(x)\n\t\tmax := b.SliceLen(x)", New: "\t\tptr := b.SliceData(x)\n\t\tmax := b.SliceCap(x)", Expect: "R03.2 ssa.Builder.IndexAddr Slice bound"})
	addMutant(Mutant{Prop: "C03", Name: "index-check-dropped", File: "ssa/datastruct.go", Old: "\t\tmax := prog.IntVal(uint64(ar.Len()), prog.Int())\n\t\tidx = b.checkIndex(idx, max)\n", New: "\t\tmax := prog.IntVal(uint64(ar.Len()), prog.Int())\n\t\t_ = max\n", Expect: "R03.2 ssa.Builder.IndexAddr GEP#2"})
	addMutant(Mutant{Prop: "C03", Name: "checkindex-ugt", File: "ssa/datastruct.go", Old: "llvm.CreateICmp(b.impl, llvm.IntUGE, idx.impl, max.impl)", New: "llvm.CreateICmp(b.impl, llvm.IntUGT, idx.impl, max.impl)", Expect: "R03.2 ssa.checkIndex upper bound"})
	addMutant(Mutant{Prop: "C03", Name: "slice-high-default-cap", File: "ssa/datastruct.go", Old: "\t\tif high.IsNil() {\n\t\t\thigh = b.SliceLen(x)\n\t\t}", New: "\t\tif high.IsNil() {\n\t\t\thigh = b.SliceCap(x)\n\t\t}", Expect: "R03.2 ssa.Slice Slice default high"})
	addMutant(Mutant{Prop: "C03", Name: "slice2array-sle", File: "ssa/expr.go", Old: "llvm.CreateICmp(b.impl, llvm.IntSLT, b.SliceLen(x).impl, max.impl)", New: "llvm.CreateICmp(b.impl, llvm.IntSGT, b.SliceLen(x).impl, max.impl)", Expect: "R03.2 ssa.SliceToArrayPointer"})
	addMutant(Mutant{Prop: "C03", Name: "typeassert-swapped-blocks", File: "ssa/interface.go", Old: "\tblks := b.Func.MakeBlocks(2)\n\tb.If(eq, blks[0], blks[1])", New: "\tblks := b.Func.MakeBlocks(2)\n\tb.If(eq, blks[1], blks[0])", Expect: "R03.2 ssa.TypeAssert failing edge"})
	addMutant(Mutant{Prop: "C03", Name: "chansend-closed-returns", File: "runtime/internal/runtime/z_chan.go", Old: "\t\tfor p.len == n && !p.close {\n\t\t\tp.cond.Wait(&p.mutex)\n\t\t}\n\t\tif p.close {\n\t\t\tp.mutex.Unlock()\n\t\t\tpanic(plainError(\"send on closed channel\"))\n\t\t}", New: "\t\tfor p.len == n && !p.close {\n\t\t\tp.cond.Wait(&p.mutex)\n\t\t}\n\t\tif p.close {\n\t\t\tp.mutex.Unlock()\n\t\t\treturn false\n\t\t}", Expect: "R03.3 runtime.ChanSend"})
	addMutant(Mutant{Prop: "C03", Name: "chanclose-panic-locked", File: "runtime/internal/runtime/z_chan.go", Old: "\tif p.close {\n\t\tp.mutex.Unlock()\n\t\tpanic(plainError(\"close of closed channel\"))", New: "\tif p.close {\n\t\tpanic(plainError(\"close of closed channel\"))", Expect: "R03.3 runtime.ChanClose"})
	addMutant(Mutant{Prop: "C03", Name: "mapassign-nil-unchecked", File: "runtime/internal/runtime/map.go", Old: "\tif h == nil {\n\t\tpanic(plainError(\"assignment to entry in nil map\"))\n\t}\n", New: "", Expect: "R03.3 runtime.mapassign"})
	addMutant(Mutant{Prop: "C03", Name: "sigsegv-handler-returns", File: "runtime/internal/runtime/z_signal.go", Old: "\t\tif v == SIGSEGV {\n\t\t\tpanic(errorString(\"invalid memory address or nil pointer dereference\"))\n\t\t}", New: "\t\tif v == SIGSEGV {\n\t\t\treturn\n\t\t}", Expect: "R03.5 runtime SIGSEGV handler"})
}
