package main

import (
	"go/ast"
	"go/types"
	"strings"

	"golang.org/x/tools/go/packages"
)

// checkDirectiveSyntax (R16.4): the go tool treats a comment as a directive only if it STARTS with
// "//go:embed"; "// go:embed x" is an ordinary comment and the variable stays empty.
// checkGlobLiteralDir (R16.5): only the pattern is a glob; the package directory is matched literally.
func checkEmbedSyntaxAndGlob(c *Ctx, p *packages.Package) {
	checkUnadjustedPositions(c, p)
	checkRelPathSeparator(c, p)
	c.Rule("R16.4", "a //go:embed directive is recognised only at the very start of the comment text (no white space between // and go:embed)", 1)
	c.Rule("R16.5", "glob metacharacters in the package directory are matched literally: the directory is quoted (or globbing is relative to it) before the pattern is appended", 1)
	info := p.TypesInfo
	// ---- R16.4
	if fd := findFunc(p, "ParsePatterns"); fd == nil {
		c.Undecided("R16.4", "goembed.ParsePatterns", 0, "function not found")
	} else {
		c.nfuncs++
		v := newFnView(p, fd)
		n := 0
		for _, call := range callsIn(fd.Body) {
			f := calleeOf(info, call)
			if f == nil || f.Name() != "ParseDirective" || len(call.Args) != 1 {
				continue
			}
			n++
			arg := v.res(call.Args[0])
			s := strings.ReplaceAll(exprStr(arg), " ", "")
			bad := ""
			for _, t := range []string{"strings.TrimSpace(", "strings.TrimLeft(", "strings.Trim(", "strings.Fields(", "strings.TrimLeftFunc("} {
				if strings.Contains(s, t) {
					bad = t[:len(t)-1]
				}
			}
			okPrefix := strings.Contains(s, `strings.TrimPrefix(c.Text,"//")`) || strings.Contains(s, `strings.CutPrefix(c.Text,"//")`)
			c.Check(bad == "" && okPrefix, "R16.4", "goembed.ParsePatterns hands the raw comment text to ParseDirective", call.Pos(), "c.Text minus the leading //",
				"the comment text is normalised with "+bad+" before the directive test ("+s+"): `// go:embed x` is accepted as a directive, so a variable the Go toolchain leaves empty receives file contents")
		}
		if n == 0 {
			c.Undecided("R16.4", "goembed.ParsePatterns directive test", fd.Pos(), "ParseDirective call not found")
		}
	}
	// ---- R16.5
	if fd := findFunc(p, "ResolvePatterns"); fd == nil {
		c.Undecided("R16.5", "goembed.ResolvePatterns", 0, "function not found")
	} else {
		v := newFnView(p, fd)
		n := 0
		for _, call := range callsIn(fd.Body) {
			f := calleeOf(info, call)
			if f == nil || len(call.Args) < 1 {
				continue
			}
			q := qualName(f)
			if q == "io/fs.Glob" {
				n++
				c.OK("R16.5", "goembed.ResolvePatterns glob argument", call.Pos(), "globbing relative to a file system rooted at the package directory")
				continue
			}
			if q != "path/filepath.Glob" {
				continue
			}
			n++
			arg := v.res(call.Args[0])
			// every mention of the package directory inside the glob argument must be wrapped by a quoting helper
			quoted := true
			ast.Inspect(arg, func(x ast.Node) bool {
				if cl, ok := x.(*ast.CallExpr); ok {
					if g := calleeOf(info, cl); g != nil && strings.Contains(strings.ToLower(g.Name()), "quote") {
						return false // quoted subtree
					}
				}
				if id, ok := x.(*ast.Ident); ok && id.Name == "pkgDir" {
					quoted = false
				}
				return true
			})
			c.Check(quoted, "R16.5", "goembed.ResolvePatterns glob argument", call.Pos(), "package directory quoted before the pattern is appended",
				"the package directory enters filepath.Glob unquoted ("+exprStr(arg)+"): in a directory whose path contains [, ], * or ? every pattern fails with `no matching files found` (or matches files of other directories) while the Go toolchain embeds normally")
		}
		if n == 0 {
			c.Undecided("R16.5", "goembed.ResolvePatterns glob argument", fd.Pos(), "no Glob call found")
		}
	}
}

func init() {
	addMutant(Mutant{Prop: "C16", Name: "directive-after-trimspace", File: "internal/goembed/goembed.go",
		Old: "line := strings.TrimPrefix(c.Text, \"//\")", New: "line := strings.TrimSpace(strings.TrimPrefix(c.Text, \"//\"))", Expect: "R16.4"})
	addMutant(Mutant{Prop: "C16", Name: "glob-unquoted-pkgdir", File: "internal/goembed/goembed.go",
		Old: "quoteGlob(pkgDir)", New: "pkgDir", Expect: "R16.5"})
}

// checkUnadjustedPositions (R16.6): the directory in which patterns are resolved is the directory of the real
// source file.  //line directives must not move it: positions are taken with PositionFor(pos, false).
func checkUnadjustedPositions(c *Ctx, p *packages.Package) {
	c.Rule("R16.6", "embed patterns are resolved relative to the real file: file positions are taken unadjusted (PositionFor(pos, false)), never through //line directives", 1)
	info := p.TypesInfo
	n := 0
	for _, fd := range allFuncs(p) {
		for _, call := range callsIn(fd.Body) {
			f := calleeOf(info, call)
			if f == nil || f.Pkg() == nil || f.Pkg().Path() != "go/token" {
				continue
			}
			switch f.Name() {
			case "Position":
				if recvNamed(f) == "FileSet" {
					n++
					c.Bad("R16.6", "goembed."+declName(fd)+" FileSet.Position", call.Pos(), "FileSet.Position applies //line directives: a generated file mapped back to a template resolves its go:embed patterns in the template's directory")
				}
			case "PositionFor":
				n++
				adj, ok := constBool(info, call.Args[len(call.Args)-1])
				c.Check(ok && !adj, "R16.6", "goembed."+declName(fd)+" FileSet.PositionFor", call.Pos(), "adjusted=false", "positions are //line-adjusted: patterns are resolved in the directory named by the directive instead of the package directory")
			}
		}
	}
	if n == 0 {
		c.Undecided("R16.6", "goembed position lookups", 0, "no FileSet position lookup found")
	}
}

func recvNamed(f *types.Func) string {
	sig, ok := f.Type().(*types.Signature)
	if !ok || sig.Recv() == nil {
		return ""
	}
	t := types.Unalias(sig.Recv().Type())
	if p, ok := t.(*types.Pointer); ok {
		t = types.Unalias(p.Elem())
	}
	if n, ok := t.(*types.Named); ok {
		return n.Obj().Name()
	}
	return ""
}

func init() {
	addMutant(Mutant{Prop: "C16", Name: "line-adjusted-positions", File: "internal/goembed/goembed.go",
		Old: "return fset.PositionFor(pos, false)", New: "return fset.Position(pos)", Expect: "R16.6"})
}
