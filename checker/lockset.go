package main

// Engine E5: lockset + wake discipline on go/cfg.

import (
	"fmt"
	"go/ast"
	"go/types"
	"sort"
	"strings"

	"golang.org/x/tools/go/cfg"
	"golang.org/x/tools/go/packages"
)

type lockOp struct {
	kind string // "lock", "unlock", "wait", "trylock"
	key  string // mutex expression, e.g. "p.mutex"
	call *ast.CallExpr
}

// lockOpsIn finds mutex operations in a CFG node (no nested literals).
func lockOpsIn(info *types.Info, n ast.Node) []lockOp {
	var out []lockOp
	for _, call := range callsIn(n) {
		f := calleeOf(info, call)
		if f == nil {
			continue
		}
		sn := shortName(f)
		sel, _ := ast.Unparen(call.Fun).(*ast.SelectorExpr)
		switch {
		case strings.HasSuffix(sn, "sync.Mutex.Lock") && sel != nil:
			out = append(out, lockOp{"lock", exprStr(sel.X), call})
		case strings.HasSuffix(sn, "sync.Mutex.Unlock") && sel != nil:
			out = append(out, lockOp{"unlock", exprStr(sel.X), call})
		case strings.HasSuffix(sn, "sync.Mutex.TryLock") && sel != nil:
			out = append(out, lockOp{"trylock", exprStr(sel.X), call})
		case strings.HasSuffix(sn, "sync.Cond.Wait") && len(call.Args) == 1:
			k := exprStr(call.Args[0])
			k = strings.TrimPrefix(k, "&")
			out = append(out, lockOp{"wait", k, call})
		}
	}
	return out
}

type lockState struct {
	must map[string]bool
	may  map[string]bool
}

func (s lockState) clone() lockState {
	n := lockState{map[string]bool{}, map[string]bool{}}
	for k := range s.must {
		n.must[k] = true
	}
	for k := range s.may {
		n.may[k] = true
	}
	return n
}

func (s lockState) eq(o lockState) bool {
	if len(s.must) != len(o.must) || len(s.may) != len(o.may) {
		return false
	}
	for k := range s.must {
		if !o.must[k] {
			return false
		}
	}
	for k := range s.may {
		if !o.may[k] {
			return false
		}
	}
	return true
}

type lockAnalysis struct {
	g      *fnCFG
	info   *types.Info
	in     map[*cfg.Block]lockState
	before map[ast.Node]lockState // state before each CFG node
	issues []string
	issueAt []ast.Node
}

// analyzeLocks runs a forward must/may lockset analysis; entryHeld are mutex keys held on entry.
func analyzeLocks(p *packages.Package, g *fnCFG, entryHeld []string) *lockAnalysis {
	la := &lockAnalysis{g: g, info: p.TypesInfo, in: map[*cfg.Block]lockState{}, before: map[ast.Node]lockState{}}
	entry := lockState{map[string]bool{}, map[string]bool{}}
	for _, k := range entryHeld {
		entry.must[k], entry.may[k] = true, true
	}
	blocks := g.G.Blocks
	la.in[blocks[0]] = entry
	work := []*cfg.Block{blocks[0]}
	iter := 0
	for len(work) > 0 && iter < 10000 {
		iter++
		b := work[0]
		work = work[1:]
		st := la.in[b].clone()
		for _, n := range b.Nodes {
			la.before[n] = st.clone()
			for _, op := range lockOpsIn(la.info, n) {
				switch op.kind {
				case "lock":
					st.must[op.key], st.may[op.key] = true, true
				case "unlock":
					delete(st.must, op.key)
					delete(st.may, op.key)
				}
			}
		}
		for _, s := range b.Succs {
			old, seen := la.in[s]
			var nw lockState
			if !seen {
				nw = st.clone()
			} else {
				nw = lockState{map[string]bool{}, map[string]bool{}}
				for k := range old.must {
					if st.must[k] {
						nw.must[k] = true
					}
				}
				for k := range old.may {
					nw.may[k] = true
				}
				for k := range st.may {
					nw.may[k] = true
				}
			}
			if !seen || !nw.eq(old) {
				la.in[s] = nw
				work = append(work, s)
			}
		}
	}
	// second pass: diagnostics with the fixed point
	for _, b := range blocks {
		if !b.Live {
			continue
		}
		st0, ok := la.in[b]
		if !ok {
			continue
		}
		st := st0.clone()
		for _, n := range b.Nodes {
			la.before[n] = st.clone()
			for _, op := range lockOpsIn(la.info, n) {
				switch op.kind {
				case "lock":
					if st.may[op.key] {
						la.issue(op.call, "Lock of "+op.key+" while it may already be held (self-deadlock on a non-recursive mutex)")
					}
					st.must[op.key], st.may[op.key] = true, true
				case "unlock":
					if !st.must[op.key] {
						la.issue(op.call, "Unlock of "+op.key+" on a path where it is not held")
					}
					delete(st.must, op.key)
					delete(st.may, op.key)
				case "wait":
					if !st.must[op.key] {
						la.issue(op.call, "cond.Wait(&"+op.key+") without holding "+op.key)
					}
				}
			}
			if _, isRet := n.(*ast.ReturnStmt); isRet {
				la.checkExit(n, st, entryHeld)
			}
			if es, isE := n.(*ast.ExprStmt); isE && isPanicCall(la.info, es.X) {
				la.checkExit(n, st, entryHeld)
			}
		}
		if len(b.Succs) == 0 && g.isReturnBlock(b) {
			if len(b.Nodes) == 0 {
				la.checkExit(g.Decl, st, entryHeld)
			} else if _, isRet := b.Nodes[len(b.Nodes)-1].(*ast.ReturnStmt); !isRet {
				la.checkExit(b.Nodes[len(b.Nodes)-1], st, entryHeld)
			}
		}
	}
	return la
}

func (la *lockAnalysis) checkExit(n ast.Node, st lockState, entryHeld []string) {
	held := map[string]bool{}
	for _, k := range entryHeld {
		held[k] = true
	}
	var leaked []string
	for k := range st.may {
		if !held[k] {
			leaked = append(leaked, k)
		}
	}
	sort.Strings(leaked)
	if len(leaked) > 0 {
		la.issue(n, "function exit with "+strings.Join(leaked, ",")+" possibly still locked")
	}
	for _, k := range entryHeld {
		if !st.must[k] {
			la.issue(n, "function exit with the caller's lock "+k+" released")
		}
	}
}

func (la *lockAnalysis) issue(n ast.Node, msg string) {
	la.issues = append(la.issues, msg)
	la.issueAt = append(la.issueAt, n)
}

// heldAt reports whether key is must-held just before the CFG node containing target.
func (la *lockAnalysis) heldAt(target ast.Node, key string) (bool, bool) {
	pos, ok := la.g.nodePos(target)
	if !ok {
		return false, false
	}
	n := pos.B.Nodes[pos.I]
	st, ok := la.before[n]
	if !ok {
		return false, false
	}
	if st.must[key] {
		return true, true
	}
	// the node itself may lock before the access? (never in this code base)
	return false, true
}

// fieldAccess is a read or write of base.field.
type fieldAccess struct {
	sel   *ast.SelectorExpr
	base  string
	field string
	write bool
}

// guardedAccesses lists accesses to fields of named struct type tname within fd.
func guardedAccesses(info *types.Info, body ast.Node, tname string, fields map[string]bool) []fieldAccess {
	var out []fieldAccess
	writes := map[*ast.SelectorExpr]bool{}
	ast.Inspect(body, func(n ast.Node) bool {
		switch s := n.(type) {
		case *ast.AssignStmt:
			for _, l := range s.Lhs {
				if sel, ok := ast.Unparen(l).(*ast.SelectorExpr); ok {
					writes[sel] = true
				}
			}
		case *ast.IncDecStmt:
			if sel, ok := ast.Unparen(s.X).(*ast.SelectorExpr); ok {
				writes[sel] = true
			}
		}
		return true
	})
	inspectNoLit(body, func(n ast.Node) bool {
		sel, ok := n.(*ast.SelectorExpr)
		if !ok || !fields[sel.Sel.Name] {
			return true
		}
		s := info.Selections[sel]
		if s == nil || s.Kind() != types.FieldVal {
			return true
		}
		t := s.Recv()
		if p, ok := t.(*types.Pointer); ok {
			t = p.Elem()
		}
		nt, ok := t.(*types.Named)
		if !ok || nt.Obj().Name() != tname {
			return true
		}
		out = append(out, fieldAccess{sel, exprStr(sel.X), sel.Sel.Name, writes[sel]})
		return true
	})
	return out
}

// waitInLoop: the cond.Wait call sits in a for loop whose condition (or an if inside the loop before the wait)
// re-reads a guarded field of the same base.
func waitInLoop(info *types.Info, body ast.Node, wait *ast.CallExpr, fields map[string]bool) (bool, string) {
	var loops []*ast.ForStmt
	for _, n := range enclosingStmts(body, wait) {
		if f, ok := n.(*ast.ForStmt); ok {
			loops = append(loops, f)
		}
	}
	if len(loops) == 0 {
		return false, "cond.Wait is not inside a loop: a spurious or stolen wake-up proceeds without the condition holding"
	}
	f := loops[len(loops)-1]
	reads := func(n ast.Node) bool {
		r := false
		ast.Inspect(n, func(x ast.Node) bool {
			if sel, ok := x.(*ast.SelectorExpr); ok && fields[sel.Sel.Name] {
				r = true
			}
			return true
		})
		return r
	}
	if f.Cond != nil && reads(f.Cond) {
		return true, "for " + exprStr(f.Cond)
	}
	// for { if cond { break/return }; wait }
	ok := false
	ast.Inspect(f.Body, func(n ast.Node) bool {
		if is, isIf := n.(*ast.IfStmt); isIf && is.Pos() < wait.Pos() && reads(is.Cond) {
			ok = true
		}
		return true
	})
	if ok {
		return true, "for { if <state> ...; Wait }"
	}
	return false, "the enclosing loop does not re-test guarded state"
}

func describeIssues(c *Ctx, la *lockAnalysis) string {
	var s []string
	for i, m := range la.issues {
		s = append(s, fmt.Sprintf("%s [%s]", m, c.posStr(la.issueAt[i].Pos())))
	}
	return strings.Join(s, "; ")
}
