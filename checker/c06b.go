package main

import (
	"fmt"
	"go/ast"
	"go/token"
	"go/types"
	"sort"
	"strings"

	"golang.org/x/tools/go/cfg"
	"golang.org/x/tools/go/packages"
)

// eval3 partially evaluates a boolean expression: 1 true, 0 false, -1 unknown.  Unknown operands do not
// hide a decided && / ||.
func eval3(info *types.Info, e ast.Expr, env map[string]int64) int {
	e = ast.Unparen(e)
	if v, ok := evalBool(info, e, env); ok {
		if v {
			return 1
		}
		return 0
	}
	switch x := e.(type) {
	case *ast.UnaryExpr:
		if x.Op == token.NOT {
			switch eval3(info, x.X, env) {
			case 1:
				return 0
			case 0:
				return 1
			}
		}
	case *ast.BinaryExpr:
		a, b := eval3(info, x.X, env), eval3(info, x.Y, env)
		switch x.Op {
		case token.LAND:
			if a == 0 || b == 0 {
				return 0
			}
			if a == 1 && b == 1 {
				return 1
			}
		case token.LOR:
			if a == 1 || b == 1 {
				return 1
			}
			if a == 0 && b == 0 {
				return 0
			}
		}
	}
	return -1
}

// mapPortFiles: the files of the hash map port and its hashing helpers.
var mapPortFiles = map[string]bool{"map.go": true, "z_map.go": true, "alg.go": true}

func baseName(p string) string { return p[strings.LastIndex(p, "/")+1:] }

func checkMapPort(c *Ctx, rp *packages.Package) {
	info := rp.TypesInfo
	c.Rule("R06.7", "helpers the map implementation calls for their effect are implemented: no same-package callee of the map code has an empty body", 30)
	c.Rule("R06.8", "write protocol of the map port on every path: the write flag is set after hashing and cleared before returning; growth work precedes bucket selection while growing; the entry count changes exactly with a slot becoming used/free; an emptyRest mark is stored only after the NEXT position of the chain (next slot, or first slot of the overflow bucket) was seen to be emptyRest", 10)
	c.Rule("R06.9", "interface keys: the data word itself is hashed for pointer-shaped dynamic types, the pointee otherwise - in both interface hash functions", 2)

	// ---------------- R06.7
	decl := map[*types.Func]*ast.FuncDecl{}
	for _, f := range rp.Syntax {
		for _, d := range f.Decls {
			if fd, ok := d.(*ast.FuncDecl); ok {
				if o, ok := info.Defs[fd.Name].(*types.Func); ok {
					decl[o] = fd
				}
			}
		}
	}
	callees := map[*types.Func]token.Pos{}
	for _, fd := range allFuncs(rp) {
		if !mapPortFiles[baseName(rp.Fset.Position(fd.Pos()).Filename)] {
			continue
		}
		for _, call := range callsIn(fd.Body) {
			if f := calleeOf(info, call); f != nil && f.Pkg() == rp.Types {
				if _, seen := callees[f]; !seen {
					callees[f] = call.Pos()
				}
			}
		}
	}
	var fs []*types.Func
	for f := range callees {
		fs = append(fs, f)
	}
	sort.Slice(fs, func(i, j int) bool { return fs[i].FullName() < fs[j].FullName() })
	for _, f := range fs {
		d := decl[f]
		if d == nil || d.Body == nil {
			continue // declared by linkname: implemented elsewhere
		}
		c.Check(len(d.Body.List) > 0, "R06.7", "runtime."+declName(d)+" has an implementation", d.Pos(), "non-empty body",
			"the map code calls this function for its effect (first call at "+c.posStr(callees[f])+") but its body is empty: e.g. mapclear relies on the bucket array being cleared, otherwise stale overflow links survive clear(m)")
	}

	// ---------------- R06.8
	isFlagSet := func(n ast.Node) bool {
		as, ok := n.(*ast.AssignStmt)
		return ok && as.Tok == token.XOR_ASSIGN && strings.ReplaceAll(exprStr(as.Lhs[0]), " ", "") == "h.flags" && objName(usedObj(info, as.Rhs[0])) == "internal/runtime.hashWriting"
	}
	isFlagClear := func(n ast.Node) bool {
		as, ok := n.(*ast.AssignStmt)
		return ok && as.Tok == token.AND_NOT_ASSIGN && strings.ReplaceAll(exprStr(as.Lhs[0]), " ", "") == "h.flags" && objName(usedObj(info, as.Rhs[0])) == "internal/runtime.hashWriting"
	}
	hasHasherCall := func(n ast.Node) bool {
		return nodeHas(n, func(x ast.Node) bool {
			call, ok := x.(*ast.CallExpr)
			return ok && strings.ReplaceAll(exprStr(call.Fun), " ", "") == "t.Hasher"
		})
	}
	for _, fn := range []string{"mapassign", "mapdelete", "mapclear"} {
		fd := findFunc(rp, fn)
		if fd == nil {
			c.Undecided("R06.8", "runtime."+fn, 0, "function not found")
			continue
		}
		c.nfuncs++
		g := buildCFG(rp, fd)
		var set ast.Node
		ast.Inspect(fd.Body, func(n ast.Node) bool {
			if isFlagSet(n) && set == nil {
				set = n
			}
			return true
		})
		if set == nil {
			c.Undecided("R06.8", "runtime."+fn+" write flag", fd.Pos(), "`h.flags ^= hashWriting` not found")
			continue
		}
		sp, _ := g.nodePos(set)
		_, escapes := g.reach(sp.after(), isFlagClear, nil, true, nil)
		c.Check(!escapes, "R06.8", "runtime."+fn+" clears the write flag on every return", set.Pos(), "h.flags &^= hashWriting before every return", "a return is reachable with hashWriting still set: the next map operation reports a concurrent write")
		if fn != "mapclear" {
			hit, found := g.reach(sp.after(), nil, hasHasherCall, false, nil)
			c.Check(!found, "R06.8", "runtime."+fn+" hashes before setting the write flag", set.Pos(), "t.Hasher is not reachable after the flag is set", "the key is hashed after hashWriting was set ("+c.posStr(posOf(hit))+"): a panicking hasher (unhashable interface value) leaves the map flagged as being written")
			// growWork before bucket selection while growing
			isBucketSel := func(n ast.Node) bool {
				return nodeHas(n, func(x ast.Node) bool {
					call, ok := x.(*ast.CallExpr)
					return ok && exprStr(call.Fun) == "add" && len(call.Args) == 2 && strings.ReplaceAll(exprStr(call.Args[0]), " ", "") == "h.buckets"
				})
			}
			isGrowWork := func(n ast.Node) bool { return containsCallTo(info, n, "internal/runtime.growWork") }
			growingTrueOnly := func(b *cfg.Block, k int) bool {
				cond := condOf(b)
				if cond == nil {
					return true
				}
				if strings.ReplaceAll(exprStr(cond), " ", "") == "h.growing()" && k == 1 {
					return false // assume the map is growing
				}
				return true
			}
			hit2, found2 := g.reach(sp.after(), isGrowWork, isBucketSel, false, growingTrueOnly)
			c.Check(!found2, "R06.8", "runtime."+fn+" evacuates before selecting the bucket", set.Pos(), "while growing, growWork precedes every add(h.buckets, ...)", "while the map is growing a bucket of the new table is addressed ("+c.posStr(posOf(hit2))+") before growWork evacuated the old bucket: entries still in the old table are missed or duplicated")
		}
	}
	// entry count
	type cnt struct {
		fn     string
		anchor func(ast.Node) bool
		change token.Token
		what   string
	}
	topStore := func(n ast.Node) bool {
		as, ok := n.(*ast.AssignStmt)
		return ok && as.Tok == token.ASSIGN && strings.ReplaceAll(exprStr(as.Lhs[0]), " ", "") == "*inserti"
	}
	emptyOneStore := func(n ast.Node) bool {
		as, ok := n.(*ast.AssignStmt)
		return ok && as.Tok == token.ASSIGN && strings.HasPrefix(strings.ReplaceAll(exprStr(as.Lhs[0]), " ", ""), "b.tophash[") && objName(usedObj(info, as.Rhs[0])) == "internal/runtime.emptyOne"
	}
	for _, ct := range []cnt{{"mapassign", topStore, token.INC, "a slot becomes used"}, {"mapdelete", emptyOneStore, token.DEC, "a slot becomes free"}} {
		fd := findFunc(rp, ct.fn)
		if fd == nil {
			continue
		}
		g := buildCFG(rp, fd)
		isCount := func(n ast.Node) bool {
			s, ok := n.(*ast.IncDecStmt)
			return ok && s.Tok == ct.change && strings.ReplaceAll(exprStr(s.X), " ", "") == "h.count"
		}
		var anchors, counts []ast.Node
		ast.Inspect(fd.Body, func(n ast.Node) bool {
			if ct.anchor(n) {
				anchors = append(anchors, n)
			}
			if isCount(n) {
				counts = append(counts, n)
			}
			return true
		})
		ok := len(anchors) >= 1 && len(counts) == 1
		why := fmt.Sprintf("%d slot stores, %d count updates", len(anchors), len(counts))
		if ok {
			for _, a := range anchors {
				ap, _ := g.nodePos(a)
				if _, esc := g.reach(ap.after(), isCount, nil, true, nil); esc {
					ok, why = false, "a return is reachable after the slot store without updating h.count"
				}
			}
			dom, _ := g.dominatedBy(counts[0], ct.anchor, nil)
			if !dom {
				ok, why = false, "h.count is updated on a path on which no slot changed state"
			}
		}
		c.Check(ok, "R06.8", "runtime."+ct.fn+" updates h.count exactly when "+ct.what, fd.Pos(), "slot store and count update on the same paths", why+": len(m) drifts from the number of live entries")
	}
	// emptyRest invariant in mapdelete
	if fd := findFunc(rp, "mapdelete"); fd != nil {
		g := buildCFG(rp, fd)
		var one ast.Node
		var rests []ast.Node
		ast.Inspect(fd.Body, func(n ast.Node) bool {
			if emptyOneStore(n) && one == nil {
				one = n
			}
			if as, ok := n.(*ast.AssignStmt); ok && as.Tok == token.ASSIGN && strings.HasPrefix(strings.ReplaceAll(exprStr(as.Lhs[0]), " ", ""), "b.tophash[") && objName(usedObj(info, as.Rhs[0])) == "internal/runtime.emptyRest" {
				rests = append(rests, n)
			}
			return true
		})
		if one == nil || len(rests) == 0 {
			c.Undecided("R06.8", "runtime.mapdelete emptyRest marking", fd.Pos(), "emptyOne/emptyRest stores not found")
		} else {
			bc, _ := pkgConst(rp.Types, "bucketCnt")
			op, _ := g.nodePos(one)
			isRest := func(n ast.Node) bool {
				for _, r := range rests {
					if n == r {
						return true
					}
				}
				return false
			}
			for _, sc := range []struct {
				name    string
				i       int64
				mention string
			}{
				{"last slot of a bucket", bc - 1, "overflow(t).tophash[0]"},
				{"inner slot", 0, "b.tophash[i+1]"},
			} {
				env := map[string]int64{"i": sc.i}
				// a path from the emptyOne store to an emptyRest store that never passes a condition which (under
				// this slot position) actually consults the successor position
				consults := func(n ast.Node) bool {
					e, ok := n.(ast.Expr)
					if !ok {
						return false
					}
					s := strings.ReplaceAll(exprStr(e), " ", "")
					if !strings.Contains(s, sc.mention) || !strings.Contains(s, "emptyRest") {
						return false
					}
					return eval3(info, e, env) == -1 // its outcome is not fixed by the slot position alone
				}
				ef := func(b *cfg.Block, k int) bool {
					cond := condOf(b)
					if cond == nil {
						return true
					}
					switch eval3(info, cond, env) {
					case 1:
						return k == 0
					case 0:
						return k == 1
					}
					return true
				}
				hit, found := g.reach(op.after(), consults, isRest, false, ef)
				c.Check(!found, "R06.8", "runtime.mapdelete marks emptyRest only after consulting the next position ("+sc.name+")", one.Pos(), sc.mention+" compared with emptyRest on every path to the mark",
					"for the "+sc.name+" an emptyRest mark ("+c.posStr(posOf(hit))+") is reachable without looking at "+sc.mention+": live entries further down the chain become unreachable for lookup and delete")
			}
		}
	}

	// evacuate: the X/Y destination of an entry whose key is not equal to itself (NaN) is taken from the OLD
	// tophash - the iterator makes the same choice from the same byte - before a fresh tophash is drawn
	if fd := findFunc(rp, "evacuate"); fd != nil {
		c.nfuncs++
		var useIdx, topIdx = -1, -1
		var blk *ast.BlockStmt
		ast.Inspect(fd.Body, func(n ast.Node) bool {
			b, ok := n.(*ast.BlockStmt)
			if !ok {
				return true
			}
			u, t := -1, -1
			for i, st := range b.List {
				as, ok := st.(*ast.AssignStmt)
				if !ok || len(as.Lhs) != 1 || len(as.Rhs) != 1 {
					continue
				}
				l, r := exprStr(as.Lhs[0]), strings.ReplaceAll(exprStr(as.Rhs[0]), " ", "")
				if l == "useY" && r == "top&1" {
					u = i
				}
				if l == "top" && strings.HasPrefix(r, "tophash(") {
					t = i
				}
			}
			if u >= 0 && t >= 0 {
				useIdx, topIdx, blk = u, t, b
			}
			return true
		})
		if blk == nil {
			c.Undecided("R06.8", "runtime.evacuate NaN keys keep the iterator's X/Y choice", fd.Pos(), "`useY = top & 1` / `top = tophash(hash)` pair not found")
		} else {
			c.Check(useIdx < topIdx, "R06.8", "runtime.evacuate NaN keys keep the iterator's X/Y choice", blk.Pos(), "useY = top & 1 before top = tophash(hash)",
				"the destination half of a NaN-keyed entry is taken from the freshly drawn tophash instead of the old one: an iterator that is running while the map grows yields such an entry twice or not at all")
		}
	}

	// ---------------- R06.9
	for _, fn := range []string{"interhash", "nilinterhash"} {
		fd := findFunc(rp, fn)
		if fd == nil {
			c.Undecided("R06.9", "runtime."+fn, 0, "function not found")
			continue
		}
		c.nfuncs++
		var direct, indirect, other int
		for _, call := range callsIn(fd.Body) {
			if f := calleeOf(info, call); f == nil || f.Name() != "typehash" || len(call.Args) < 2 {
				continue
			}
			pol := -1
			for _, cp := range pathConds(fd.Body, call) {
				if strings.HasPrefix(strings.ReplaceAll(exprStr(cp.cond), " ", ""), "isDirectIface(") {
					if cp.pol {
						pol = 1
					} else {
						pol = 0
					}
				}
			}
			arg := strings.ReplaceAll(exprStr(call.Args[1]), " ", "")
			switch {
			case pol == 1 && arg == "unsafe.Pointer(&a.data)":
				direct++
			case pol == 0 && arg == "a.data":
				indirect++
			default:
				other++
			}
		}
		c.Check(direct == 1 && indirect == 1 && other == 0, "R06.9", "runtime."+fn+" direct/indirect data word", fd.Pos(), "isDirectIface: hash &a.data; otherwise hash *a.data",
			fmt.Sprintf("typehash calls: %d on the data word under isDirectIface, %d on the pointee otherwise, %d other: a pointer-shaped key is hashed by its pointee (lookups miss after the pointee changes, nil pointers fault) or a boxed value by its address", direct, indirect, other))
	}
}

func posOf(n ast.Node) token.Pos {
	if n == nil {
		return token.NoPos
	}
	return n.Pos()
}

func init() {
	addMutant(Mutant{Prop: "C06", Name: "memclr-empty-stub", File: "runtime/internal/runtime/stubs.go",
		Old: "func memclrNoHeapPointers(ptr unsafe.Pointer, n uintptr) {\n\tc.Memset(ptr, 0, n)\n}", New: "func memclrNoHeapPointers(ptr unsafe.Pointer, n uintptr) {\n}\n\nvar _ = c.Memset", Expect: "R06.7 runtime.memclrNoHeapPointers"})
	addMutant(Mutant{Prop: "C06", Name: "delete-last-slot-ignores-overflow", File: "runtime/internal/runtime/map.go",
		Old: "\t\t\tif i == bucketCnt-1 {\n\t\t\t\tif b.overflow(t) != nil && b.overflow(t).tophash[0] != emptyRest {\n\t\t\t\t\tgoto notLast\n\t\t\t\t}\n\t\t\t} else {\n\t\t\t\tif b.tophash[i+1] != emptyRest {\n\t\t\t\t\tgoto notLast\n\t\t\t\t}\n\t\t\t}",
		New: "\t\t\tif i < bucketCnt-1 && b.tophash[i+1] != emptyRest {\n\t\t\t\tgoto notLast\n\t\t\t}", Expect: "R06.8 runtime.mapdelete marks emptyRest only after consulting the next position (last slot"})
	addMutant(Mutant{Prop: "C06", Name: "nilinterhash-always-pointee", File: "runtime/internal/runtime/alg.go",
		Old: "\tif isDirectIface(t) {\n\t\treturn c1 * typehash(t, unsafe.Pointer(&a.data), h^c0)\n\t} else {\n\t\treturn c1 * typehash(t, a.data, h^c0)\n\t}\n}\n\n// typehash computes",
		New: "\treturn c1 * typehash(t, a.data, h^c0)\n}\n\n// typehash computes", Expect: "R06.9 runtime.nilinterhash direct/indirect"})
	addMutant(Mutant{Prop: "C06", Name: "assign-flag-before-hash", File: "runtime/internal/runtime/map.go",
		Old: "\thash := t.Hasher(key, uintptr(h.hash0))\n\n\t// Set hashWriting after calling t.hasher, since t.hasher may panic,\n\t// in which case we have not actually done a write.\n\th.flags ^= hashWriting\n",
		New: "\th.flags ^= hashWriting\n\thash := t.Hasher(key, uintptr(h.hash0))\n", Expect: "R06.8 runtime.mapassign hashes before setting the write flag"})
	addMutant(Mutant{Prop: "C06", Name: "delete-skips-growwork", File: "runtime/internal/runtime/map.go",
		Old: "\tbucket := hash & bucketMask(h.B)\n\tif h.growing() {\n\t\tgrowWork(t, h, bucket)\n\t}\n\tb := (*bmap)(add(h.buckets, bucket*uintptr(t.BucketSize)))\n\tbOrig := b",
		New: "\tbucket := hash & bucketMask(h.B)\n\tb := (*bmap)(add(h.buckets, bucket*uintptr(t.BucketSize)))\n\tbOrig := b", Expect: "R06.8 runtime.mapdelete evacuates before selecting the bucket"})
	addMutant(Mutant{Prop: "C06", Name: "delete-count-only-when-last", File: "runtime/internal/runtime/map.go",
		Old: "\t\tnotLast:\n\t\t\th.count--", New: "\t\t\th.count--\n\t\tnotLast:", Expect: "R06.8 runtime.mapdelete updates h.count"})
}

func init() {
	addMutant(Mutant{Prop: "C06", Name: "evacuate-nan-usey-from-new-tophash", File: "runtime/internal/runtime/map.go",
		Old: "\t\t\t\t\t\tuseY = top & 1\n\t\t\t\t\t\ttop = tophash(hash)", New: "\t\t\t\t\t\ttop = tophash(hash)\n\t\t\t\t\t\tuseY = top & 1", Expect: "R06.8 runtime.evacuate NaN keys"})
}
