package main

import (
	"fmt"
	"go/ast"
	"strings"

	"golang.org/x/tools/go/cfg"
	"golang.org/x/tools/go/packages"
)

// checkNullPointerIsValid (R03.8): LLVM treats a dereference of a provably nil pointer as undefined behaviour
// unless the function carries null_pointer_is_valid; with the attribute missing, optimisation deletes the nil
// path instead of reaching the fault that becomes Go's nil-dereference panic.  Every function created with a
// Go background must get the attribute, whatever else is decided about it (linkage of generic instances...).
func checkNullPointerIsValid(c *Ctx, sp *packages.Package) {
	c.Rule("R03.8", "every function with a Go background is marked null_pointer_is_valid on every path of its creation (nil dereference stays a fault at every optimisation level)", 1)
	fd := findFunc(sp, "Package.NewFuncEx")
	if fd == nil {
		c.Undecided("R03.8", "ssa.Package.NewFuncEx", 0, "function not found")
		return
	}
	c.nfuncs++
	info := sp.TypesInfo
	g := buildCFG(sp, fd)
	var add ast.Node
	ast.Inspect(fd.Body, func(n ast.Node) bool {
		if call, ok := n.(*ast.CallExpr); ok && add == nil {
			if f := calleeOf(info, call); f != nil && f.Name() == "AddFunction" {
				add = call
			}
		}
		return true
	})
	if add == nil {
		c.Undecided("R03.8", "ssa.Package.NewFuncEx creates the function", fd.Pos(), "llvm.AddFunction call not found")
		return
	}
	isAttr := func(n ast.Node) bool {
		return nodeHas(n, func(x ast.Node) bool {
			call, ok := x.(*ast.CallExpr)
			if !ok || len(call.Args) != 1 {
				return false
			}
			f := calleeOf(info, call)
			return f != nil && f.Name() == "AddFunctionAttr" && strings.Contains(exprStr(call.Args[0]), "nullPointerIsValid")
		})
	}
	inGo := func(b *cfg.Block, k int) bool {
		cond := condOf(b)
		if cond == nil {
			return true
		}
		s := strings.ReplaceAll(exprStr(cond), " ", "")
		if s == "bg==InGo" && k == 1 {
			return false // assume a Go background
		}
		if s == "bg!=InGo" && k == 0 {
			return false
		}
		return true
	}
	ap, _ := g.nodePos(add)
	_, escapes := g.reach(ap.after(), isAttr, nil, true, inGo)
	c.Check(!escapes, "R03.8", "ssa.Package.NewFuncEx marks Go functions null_pointer_is_valid", add.Pos(), "AddFunctionAttr(nullPointerIsValidAttr) on every path with bg == InGo",
		"a function with Go background can be returned without the null_pointer_is_valid attribute (e.g. when another property such as `instantiated` is decided first): at -O2 LLVM removes stores/loads through a provably nil pointer instead of faulting, so the nil-dereference panic disappears")
}

// checkStraightLineEmitters (R01.9): go/ssa's Alloc zero-initialises its variable every time the instruction
// executes.  The primitives that emit a single instruction sequence must emit at the current insertion point.
func checkStraightLineEmitters(c *Ctx, sp *packages.Package) {
	c.Rule("R01.9", "single-instruction emitters (Alloc, Load, Store, zero-initialisation) emit at the current insertion point: none of them moves the builder to another block", 4)
	info := sp.TypesInfo
	for _, name := range []string{"Builder.Alloc", "Builder.zeroinit", "Builder.Load", "Builder.Store", "Builder.AllocU", "Builder.Alloca"} {
		fd := findFunc(sp, name)
		if fd == nil {
			continue
		}
		c.nfuncs++
		bad := ""
		for _, call := range callsIn(fd.Body) {
			f := calleeOf(info, call)
			if f == nil {
				continue
			}
			n := f.Name()
			if n == "SetBlock" || n == "SetBlockEx" || strings.HasPrefix(n, "SetInsertPoint") || n == "ClearInsertionPoint" {
				bad = c.posStr(call.Pos()) + ": " + n
			}
		}
		c.Check(bad == "", "R01.9", "ssa."+name+" emits at the current insertion point", fd.Pos(), "no insertion-point change", "the emitter moves the insertion point ("+bad+"): the instruction (and the zeroing of a local declared in a loop body) no longer executes where go/ssa placed it, so a variable declared inside a loop keeps the previous iteration's contents")
	}
}

// checkMethodSetSource (R07.6): the method table written into a descriptor is go/types' method set; every arm
// for a kind that can carry methods consults types.NewMethodSet before it returns (the only exemption is a named
// interface type, whose methods live in the interface descriptor).
func checkMethodSetSource(c *Ctx, sp *packages.Package) {
	c.Rule("R07.6", "descriptor method tables come from go/types: every arm of abiUncommonMethodSet for a kind that can have methods (named, struct, pointer) reaches its result only through types.NewMethodSet", 2)
	fd := findFunc(sp, "Builder.abiUncommonMethodSet")
	if fd == nil {
		c.Undecided("R07.6", "ssa.Builder.abiUncommonMethodSet", 0, "function not found")
		return
	}
	c.nfuncs++
	info := sp.TypesInfo
	g := buildCFG(sp, fd)
	isNMS := func(n ast.Node) bool {
		return nodeHas(n, func(x ast.Node) bool {
			call, ok := x.(*ast.CallExpr)
			if !ok {
				return false
			}
			f := calleeOf(info, call)
			return f != nil && qualName(f) == "go/types.NewMethodSet"
		})
	}
	// conditions of `if _, b := X.(*types.Interface); b { return }`
	ifaceConds := map[ast.Expr]bool{}
	ast.Inspect(fd.Body, func(n ast.Node) bool {
		if is, ok := n.(*ast.IfStmt); ok {
			if as, ok := is.Init.(*ast.AssignStmt); ok && len(as.Rhs) == 1 {
				if ta, ok := as.Rhs[0].(*ast.TypeAssertExpr); ok && ta.Type != nil && strings.HasSuffix(exprStr(ta.Type), "types.Interface") {
					ifaceConds[is.Cond] = true
				}
			}
		}
		return true
	})
	ef := func(b *cfg.Block, k int) bool {
		if cond := condOf(b); cond != nil && ifaceConds[cond] && k == 0 {
			return false
		}
		return true
	}
	seen := map[string]bool{}
	ast.Inspect(fd.Body, func(n ast.Node) bool {
		cc, ok := n.(*ast.CaseClause)
		if !ok || len(cc.List) == 0 {
			return true
		}
		var kinds []string
		for _, e := range cc.List {
			kinds = append(kinds, strings.TrimPrefix(exprStr(e), "*types."))
		}
		for _, k := range kinds {
			seen[k] = true
		}
		key := "ssa.Builder.abiUncommonMethodSet arm " + strings.Join(kinds, ",")
		if len(cc.Body) == 0 {
			c.Bad("R07.6", key, cc.Pos(), "empty arm: types of this kind get no method table")
			return true
		}
		var first ast.Node = cc.Body[0]
		if is, isIf := first.(*ast.IfStmt); isIf {
			if is.Init != nil {
				first = is.Init
			} else {
				first = is.Cond
			}
		}
		start, ok := g.nodePos(first)
		if !ok {
			c.Undecided("R07.6", key, cc.Pos(), "arm not located in the CFG")
			return true
		}
		if isNMS(start.B.Nodes[start.I]) {
			c.OK("R07.6", key, cc.Pos(), "types.NewMethodSet consulted first")
			return true
		}
		_, escapes := g.reach(start, isNMS, nil, true, ef)
		c.Check(!escapes, "R07.6", key, cc.Pos(), "every return passes types.NewMethodSet", "the arm can return without consulting types.NewMethodSet (a kind-based short cut): e.g. *struct{E} has E's promoted methods, its descriptor would get no method table and the first interface call through it jumps to a nil slot")
		return true
	})
	for _, k := range []string{"Named", "Struct", "Pointer"} {
		if !seen[k] {
			c.Bad("R07.6", "ssa.Builder.abiUncommonMethodSet arm "+k, fd.Pos(), fmt.Sprintf("no arm for *types.%s: such types get no method table", k))
		}
	}
}

func init() {
	addMutant(Mutant{Prop: "C03", Name: "instances-lose-null-pointer-is-valid", File: "ssa/decl.go",
		Old: "\tif bg == InGo {\n\t\tfn.AddFunctionAttr(p.nullPointerIsValidAttr)\n\t}\n\tif instantiated {\n\t\tfn.SetLinkage(llvm.LinkOnceAnyLinkage)\n\t}",
		New: "\tswitch {\n\tcase instantiated:\n\t\tfn.SetLinkage(llvm.LinkOnceAnyLinkage)\n\tcase bg == InGo:\n\t\tfn.AddFunctionAttr(p.nullPointerIsValidAttr)\n\t}", Expect: "R03.8"})
	addMutant(Mutant{Prop: "C07", Name: "ptr-to-unnamed-no-methods", File: "ssa/abitype.go",
		Old: "\tcase *types.Struct, *types.Pointer:\n\t\tif mset := types.NewMethodSet(t); mset.Len() != 0 {",
		New: "\tcase *types.Struct, *types.Pointer:\n\t\tif ptr, isPtr := t.(*types.Pointer); isPtr {\n\t\t\tif _, named := types.Unalias(ptr.Elem()).(*types.Named); !named {\n\t\t\t\treturn\n\t\t\t}\n\t\t}\n\t\tif mset := types.NewMethodSet(t); mset.Len() != 0 {", Expect: "R07.6"})
}
