package main

import (
	"fmt"
	"go/ast"
	"go/token"
	"go/types"
	"regexp"
	"strings"

	"golang.org/x/tools/go/packages"
)

func init() { register("C11", checkC11) }

var atomicFamilies = []struct{ prefix, intrinsic string }{
	{"CompareAndSwap", "atomicCmpXchgOK"}, {"Swap", "atomicXchg"}, {"Add", "atomicAddReturnNew"},
	{"Load", "atomicLoad"}, {"Store", "atomicStore"}, {"And", "atomicAnd"}, {"Or", "atomicOr"},
}

func checkC11(c *Ctx) (string, error) {
	c.Rule("R11.1", "semaphore/notify state is accessed only under its mutex; Lock/Unlock paired; cond.Wait under lock and in a re-testing loop", 10)
	c.Rule("R11.2", "ticket discipline: a per-waiter wait predicate over an advancing counter is an ordering test, and waiters with per-waiter predicates are woken by Broadcast", 3)
	c.Rule("R11.6", "a waker publishes the state its waiters poll before it signals them (the atomic update dominates Signal/Broadcast)", 3)
	c.Rule("R11.7", "every atomic.Value method that reads the type word excludes the first-store-in-progress sentinel before interpreting it", 4)
	c.Rule("R11.3", "atomic intrinsics: operation codes equal LLVM's atomicrmw opcodes; every sync/atomic entry point is bound to the intrinsic of its meaning", 40)
	c.Rule("R11.4", "every atomic instruction is emitted sequentially consistent", 5)
	c.Rule("R11.5", "go statement: argument record is heap allocated and packed/unpacked with the same layout predicate", 5)

	cfgs := []LoadCfg{defaultCfg}
	if c.Tier == "thorough" {
		cfgs = append(cfgs, LoadCfg{GOOS: "darwin", GOARCH: "arm64"}, LoadCfg{GOOS: "linux", GOARCH: "arm64"})
	}
	for _, lc := range cfgs {
		rw, err := loadRT(lc, "internal/lib/runtime", "internal/lib/sync/atomic")
		if err != nil {
			return "", err
		}
		c.use(rw)
		c.Config = lc.String()
		checkPublishBeforeWake(c, rw.RT("internal/lib/runtime"))
		checkValueSentinel(c, rw.RT("internal/lib/sync/atomic"))
		checkSemaLocks(c, rw.RT("internal/lib/runtime"))
		checkLookupInsertAtomic(c, rw.RT("internal/lib/runtime"))
		checkNotifyOneUnderLock(c, rw.RT("internal/lib/runtime"))
		checkTicketDiscipline(c, rw.RT("internal/lib/runtime"))
		c.Config = ""
		if lc.String() == defaultCfg.String() {
			w, err := loadMain(defaultCfg, "cl", "ssa")
			if err != nil {
				return "", err
			}
			c.use(w)
			checkAtomicTables(c, w, rw.RT("internal/lib/sync/atomic"))
			checkAtomicOrdering(c, w)
			checkGoRecord(c, w.Main("ssa"))
			checkAddReturnNew(c, w.Main("cl"))
		}
	}
	return "C11 (structural necessary conditions): lockset dataflow over sema_llgo.go (semaState.waiters, semaMap, notifyMap under their mutexes; pairing; Wait in re-testing loops); ticket discipline of the notify list (ordering comparison, Broadcast for per-ticket waiters); constant-evaluated agreement of the atomic intrinsic codes with LLVM's atomicrmw opcodes and of every //go:linkname / llgo:link directive in lib/sync/atomic with the intrinsic of that function family; sequentially consistent ordering at every atomic emit site; heap allocation and symmetric pack/unpack of the go-statement argument record. NOT decided: mutual exclusion, fairness and exactly-once thread start under all schedules.", nil
}

func checkSemaLocks(c *Ctx, rp *packages.Package) {
	info := rp.TypesInfo
	globals := map[string]string{"semaMap": "semaMu", "notifyMap": "notifyMu"}
	exemptInit := map[string]bool{"initSemaMap": true, "initNotifyMap": true}
	n := 0
	for _, fd := range allFuncs(rp) {
		if fileOf(c.fset, fd.Pos()) != "sema_llgo.go" {
			continue
		}
		name := declName(fd)
		g := buildCFG(rp, fd)
		la := analyzeLocks(rp, g, nil)
		nops := 0
		for _, b := range g.G.Blocks {
			for _, nd := range b.Nodes {
				nops += len(lockOpsIn(info, nd))
			}
		}
		touches := len(guardedAccesses(info, fd.Body, "semaState", map[string]bool{"waiters": true})) > 0
		if !exemptInit[name] {
			ast.Inspect(fd.Body, func(x ast.Node) bool {
				if id, ok := x.(*ast.Ident); ok {
					if _, isG := globals[id.Name]; isG && info.Uses[id] != nil && info.Uses[id].Parent() == rp.Types.Scope() {
						touches = true
					}
				}
				return true
			})
		}
		if nops == 0 && !touches {
			continue
		}
		n++
		c.nfuncs++
		c.Check(len(la.issues) == 0, "R11.1", "libruntime."+name+" lock pairing", fd.Pos(), fmt.Sprintf("%d mutex operations balanced on all paths", nops), describeIssues(c, la))
		// struct field waiters under st.mu
		seen := map[string]bool{}
		for _, a := range guardedAccesses(info, fd.Body, "semaState", map[string]bool{"waiters": true}) {
			key := fmt.Sprintf("libruntime.%s access %s.%s", name, a.base, a.field)
			held, found := la.heldAt(a.sel, a.base+".mu")
			if !(found && held) {
				c.Bad("R11.1", key, a.sel.Pos(), "waiter count accessed without "+a.base+".mu")
				seen[key] = true
			} else if !seen[key] {
				c.OK("R11.1", key, a.sel.Pos(), a.base+".mu held")
				seen[key] = true
			}
		}
		// global maps
		if !exemptInit[name] {
			ast.Inspect(fd.Body, func(x ast.Node) bool {
				id, ok := x.(*ast.Ident)
				if !ok {
					return true
				}
				mu, isG := globals[id.Name]
				if !isG || info.Uses[id] == nil || info.Uses[id].Parent() != rp.Types.Scope() {
					return true
				}
				key := fmt.Sprintf("libruntime.%s access %s", name, id.Name)
				held, found := la.heldAt(id, mu)
				if !(found && held) {
					c.Bad("R11.1", key, id.Pos(), "map accessed without "+mu+" (concurrent map access)")
				} else if !seen[key] {
					c.OK("R11.1", key, id.Pos(), mu+" held")
				}
				seen[key] = true
				return true
			})
		}
		// waits in loops
		for _, b := range g.G.Blocks {
			for _, nd := range b.Nodes {
				for _, op := range lockOpsIn(info, nd) {
					if op.kind != "wait" {
						continue
					}
					var loops []*ast.ForStmt
					for _, e := range enclosingStmts(fd.Body, op.call) {
						if f, ok := e.(*ast.ForStmt); ok {
							loops = append(loops, f)
						}
					}
					ok := false
					why := "cond.Wait is not inside a loop"
					if len(loops) > 0 {
						f := loops[len(loops)-1]
						// the loop re-tests shared state: its condition, or an if before the wait, loads an atomic or reads state
						retest := func(nn ast.Node) bool {
							r := false
							ast.Inspect(nn, func(y ast.Node) bool {
								if call, isCall := y.(*ast.CallExpr); isCall {
									if ff := calleeOf(info, call); ff != nil && (strings.HasPrefix(ff.Name(), "Load") || strings.HasPrefix(ff.Name(), "CompareAndSwap")) {
										r = true
									}
								}
								return true
							})
							return r
						}
						if f.Cond != nil && retest(f.Cond) {
							ok = true
						}
						ast.Inspect(f.Body, func(y ast.Node) bool {
							if is, isIf := y.(*ast.IfStmt); isIf && is.Pos() < op.call.Pos() && retest(is.Cond) {
								ok = true
							}
							return true
						})
						why = "the loop around cond.Wait does not re-test shared state"
					}
					c.Check(ok, "R11.1", fmt.Sprintf("libruntime.%s Wait(&%s) re-tests state", name, op.key), op.call.Pos(), "loop re-reads the shared word before sleeping again", why)
					// the decision to sleep is taken under the mutex: every path from taking the lock to the Wait
					// passes a test that loads the shared word (otherwise a release between the test and the Wait is lost)
					isRetestNode := func(nn ast.Node) bool {
						if _, isExpr := nn.(ast.Expr); !isExpr {
							if as, isAs := nn.(*ast.AssignStmt); !isAs || len(as.Rhs) != 1 {
								return false
							}
						}
						r := false
						ast.Inspect(nn, func(y ast.Node) bool {
							if call, isCall := y.(*ast.CallExpr); isCall {
								if ff := calleeOf(info, call); ff != nil && (strings.HasPrefix(ff.Name(), "Load") || strings.HasPrefix(ff.Name(), "CompareAndSwap")) {
									r = true
								}
							}
							return true
						})
						return r
					}
					locks, unguarded := 0, false
					for _, b2 := range g.G.Blocks {
						for i2, nd2 := range b2.Nodes {
							for _, lop := range lockOpsIn(info, nd2) {
								if lop.kind != "lock" || lop.key != op.key {
									continue
								}
								locks++
								if _, reached := g.reach(cfgPos{b2, i2 + 1}, isRetestNode, func(x ast.Node) bool { return within(x, op.call) }, false, nil); reached {
									unguarded = true
								}
							}
						}
					}
					if locks > 0 {
						c.Check(!unguarded, "R11.1", fmt.Sprintf("libruntime.%s Wait(&%s) is decided under the lock", name, op.key), op.call.Pos(), "every path from Lock to Wait loads the shared word",
							"a path leads from "+op.key+".Lock() to cond.Wait without reading the shared word in between: the test that decided to sleep ran before the lock was taken, so a release that completes in between signals nobody and the waiter sleeps with the resource available (lost wake-up)")
					}
				}
			}
		}
	}
	if n < 6 {
		c.Undecided("R11.1", "sema_llgo.go locking functions", 0, fmt.Sprintf("%d functions with mutex operations found, expected >= 6", n))
	}
}

// checkPublishBeforeWake: R11.6
func checkPublishBeforeWake(c *Ctx, rp *packages.Package) {
	info := rp.TypesInfo
	for _, fd := range allFuncs(rp) {
		if fileOf(c.fset, fd.Pos()) != "sema_llgo.go" {
			continue
		}
		g := buildCFG(rp, fd)
		k := 0
		for _, call := range callsIn(fd.Body) {
			f := calleeOf(info, call)
			if f == nil {
				continue
			}
			sn := shortName(f)
			if !strings.HasSuffix(sn, "sync.Cond.Signal") && !strings.HasSuffix(sn, "sync.Cond.Broadcast") {
				continue
			}
			k++
			isPublish := func(n ast.Node) bool {
				for _, cc := range callsIn(n) {
					if ff := calleeOf(info, cc); ff != nil && ff.Pkg() != nil && strings.HasSuffix(ff.Pkg().Path(), "sync/atomic") {
						if strings.HasPrefix(ff.Name(), "Add") || strings.HasPrefix(ff.Name(), "Store") || strings.HasPrefix(ff.Name(), "Swap") {
							return true
						}
					}
				}
				return false
			}
			dom, found := g.dominatedBy(call, isPublish, nil)
			c.Check(found && dom, "R11.6", fmt.Sprintf("libruntime.%s wake#%d after publish", declName(fd), k), call.Pos(), "atomic update of the polled word dominates the wake-up",
				"waiters are signalled on a path where the word they poll has not been updated yet: the woken thread re-reads the old value and sleeps again, and the update that follows wakes nobody")
		}
	}
}

// checkValueSentinel: R11.7
func checkValueSentinel(c *Ctx, ap *packages.Package) {
	info := ap.TypesInfo
	n := 0
	for _, fd := range allFuncs(ap) {
		if fd.Recv == nil || recvBase(fd.Recv.List[0].Type) != "Value" {
			continue
		}
		// reads the type word?
		reads := false
		for _, call := range callsIn(fd.Body) {
			if f := calleeOf(info, call); f != nil && f.Name() == "LoadPointer" && len(call.Args) == 1 && strings.HasSuffix(strings.ReplaceAll(exprStr(call.Args[0]), " ", ""), ".typ") {
				reads = true
			}
		}
		if !reads {
			continue
		}
		n++
		excl := false
		ast.Inspect(fd.Body, func(x ast.Node) bool {
			be, ok := x.(*ast.BinaryExpr)
			if ok && be.Op == token.EQL && strings.Contains(strings.ReplaceAll(exprStr(be.Y), " ", ""), "&firstStoreInProgress") {
				excl = true
			}
			return true
		})
		c.Check(excl, "R11.7", "sync/atomic.Value."+fd.Name.Name+" excludes the in-progress sentinel", fd.Pos(), "typ == &firstStoreInProgress handled before the type is interpreted",
			"the method interprets the type word without excluding the first-store sentinel: racing the very first Store it sees a bogus type (spurious 'inconsistently typed value' panic or garbage load)")
	}
	if n < 4 {
		c.Undecided("R11.7", "sync/atomic.Value readers", 0, fmt.Sprintf("%d methods reading the type word found, expected 4", n))
	}
}

// checkTicketDiscipline: R11.2
func checkTicketDiscipline(c *Ctx, rp *packages.Package) {
	info := rp.TypesInfo
	// state type of a cond expression X.cond -> named type of X
	condOwner := func(e ast.Expr) string {
		sel, ok := ast.Unparen(e).(*ast.SelectorExpr)
		if !ok {
			return ""
		}
		t := info.TypeOf(sel.X)
		if t == nil {
			return ""
		}
		if p, ok := t.(*types.Pointer); ok {
			t = p.Elem()
		}
		if n, ok := t.(*types.Named); ok {
			return n.Obj().Name()
		}
		return ""
	}
	perWaiter := map[string]ast.Node{} // state type -> wait loop with a per-waiter predicate
	for _, fd := range allFuncs(rp) {
		if fileOf(c.fset, fd.Pos()) != "sema_llgo.go" {
			continue
		}
		// value parameters (not pointers)
		vparams := map[types.Object]bool{}
		for _, f := range fd.Type.Params.List {
			for _, nm := range f.Names {
				o := info.Defs[nm]
				if o == nil {
					continue
				}
				if _, isPtr := o.Type().Underlying().(*types.Pointer); !isPtr {
					vparams[o] = true
				}
			}
		}
		for _, call := range callsIn(fd.Body) {
			f := calleeOf(info, call)
			if f == nil || !strings.HasSuffix(shortName(f), "sync.Cond.Wait") {
				continue
			}
			sel := call.Fun.(*ast.SelectorExpr)
			owner := condOwner(sel.X)
			var loop *ast.ForStmt
			for _, e := range enclosingStmts(fd.Body, call) {
				if l, ok := e.(*ast.ForStmt); ok {
					loop = l
				}
			}
			if loop == nil || loop.Cond == nil {
				continue
			}
			usesParam := false
			ast.Inspect(loop.Cond, func(x ast.Node) bool {
				if id, ok := x.(*ast.Ident); ok && vparams[info.Uses[id]] {
					usesParam = true
				}
				return true
			})
			if !usesParam {
				continue
			}
			perWaiter[owner] = loop
			// the comparison against the ticket must be an ordering test
			key := "libruntime." + declName(fd) + " ticket comparison"
			bad := ""
			ast.Inspect(loop.Cond, func(x ast.Node) bool {
				be, ok := x.(*ast.BinaryExpr)
				if !ok || (be.Op != token.EQL && be.Op != token.NEQ) {
					return true
				}
				mentionsParam := false
				for _, side := range []ast.Expr{be.X, be.Y} {
					if id, ok := ast.Unparen(side).(*ast.Ident); ok && vparams[info.Uses[id]] {
						mentionsParam = true
					}
				}
				if mentionsParam {
					bad = "wait predicate compares the advancing counter with the waiter's ticket using " + be.Op.String() + ": a waiter whose ticket is ahead of (or, after wrap-around, far from) the counter does not wait at all or never wakes"
				}
				return true
			})
			c.Check(bad == "", "R11.2", key, loop.Pos(), "ordering test on the ticket ("+exprStr(loop.Cond)+")", bad)
			// if the ordering is delegated to a helper, the helper must compare by signed difference
			for _, cc := range callsIn(loop.Cond) {
				hf := calleeOf(info, cc)
				if hf == nil || hf.Pkg() != rp.Types {
					continue
				}
				hd := findFunc(rp, hf.Name())
				if hd == nil || len(hd.Body.List) != 1 {
					continue
				}
				s := strings.ReplaceAll(nodeText(hd.Body.List[0]), " ", "")
				okH := regexp.MustCompile(`^returnint32\((\w+)-(\w+)\)<0$`).MatchString(s)
				c.Check(okH, "R11.2", "libruntime."+hf.Name()+" wrap-safe ordering", hd.Pos(), "int32(a-b) < 0", "ticket ordering helper is not the signed-difference comparison: "+s)
			}
		}
	}
	// wakers
	nw := 0
	for _, fd := range allFuncs(rp) {
		if fileOf(c.fset, fd.Pos()) != "sema_llgo.go" {
			continue
		}
		for _, call := range callsIn(fd.Body) {
			f := calleeOf(info, call)
			if f == nil {
				continue
			}
			sn := shortName(f)
			if !strings.HasSuffix(sn, "sync.Cond.Signal") && !strings.HasSuffix(sn, "sync.Cond.Broadcast") {
				continue
			}
			owner := condOwner(call.Fun.(*ast.SelectorExpr).X)
			nw++
			key := fmt.Sprintf("libruntime.%s wakes %s waiters", declName(fd), owner)
			if _, pw := perWaiter[owner]; pw && strings.HasSuffix(sn, "Signal") {
				c.Bad("R11.2", key, call.Pos(), "Signal on a condition whose waiters each wait for their own ticket: the thread woken may be one whose ticket has not been reached, and the one that should run stays asleep")
			} else if pw {
				c.OK("R11.2", key, call.Pos(), "Broadcast: every waiter re-checks its own ticket")
			} else {
				c.OK("R11.2", key, call.Pos(), "waiters share one predicate; Signal/Broadcast both sound")
			}
		}
	}
	if nw < 3 {
		c.Undecided("R11.2", "wakers", 0, fmt.Sprintf("%d Signal/Broadcast sites found, expected >= 3", nw))
	}
}

func nodeText(n ast.Node) string {
	switch s := n.(type) {
	case *ast.ReturnStmt:
		var r []string
		for _, e := range s.Results {
			r = append(r, exprStr(e))
		}
		return "return " + strings.Join(r, ",")
	case *ast.ExprStmt:
		return exprStr(s.X)
	}
	return fmt.Sprintf("%T", n)
}

func checkAtomicTables(c *Ctx, w *World, ap *packages.Package) {
	cp := w.Main("cl")
	info := cp.TypesInfo
	base, okB := pkgConst(cp.Types, "llgoAtomicOpBase")
	last, _ := pkgConst(cp.Types, "llgoAtomicOpLast")
	if !okB {
		c.Bad("R11.3", "cl.llgoAtomicOpBase", 0, "constant not found")
		return
	}
	// llvm constants through the ssa package's imports
	var llvmPkg *types.Package
	for _, imp := range w.Main("ssa").Types.Imports() {
		if imp.Path() == "github.com/xgo-dev/llvm" {
			llvmPkg = imp
		}
	}
	if llvmPkg == nil {
		c.Undecided("R11.3", "llvm package", 0, "llvm binding not among ssa's imports")
		return
	}
	instrs := pkgVarLit(cp, "llgoInstrs")
	if instrs == nil {
		c.Bad("R11.3", "cl.llgoInstrs", 0, "table not found")
		return
	}
	table := map[string]int64{}
	for _, el := range instrs.Elts {
		kv, ok := el.(*ast.KeyValueExpr)
		if !ok {
			continue
		}
		k, ok1 := constString(info, kv.Key)
		v, ok2 := constInt(info, kv.Value)
		if ok1 && ok2 {
			table[k] = v
		}
	}
	maxOp := int64(-1)
	for _, op := range []string{"Xchg", "Add", "Sub", "And", "Nand", "Or", "Xor", "Max", "Min", "UMax", "UMin"} {
		lc, ok := llvmPkg.Scope().Lookup("AtomicRMWBinOp" + op).(*types.Const)
		if !ok {
			c.Undecided("R11.3", "llvm.AtomicRMWBinOp"+op, 0, "constant not found in the binding")
			continue
		}
		lv, _ := constValInt(lc)
		if lv > maxOp {
			maxOp = lv
		}
		got, has := table["atomic"+op]
		c.Check(has && got-base == lv, "R11.3", "intrinsic atomic"+op+" opcode", instrs.Pos(), fmt.Sprintf("code %d = base + llvm.AtomicRMWBinOp%s(%d)", got, op, lv), fmt.Sprintf("llgo.atomic%s maps to code %d (base %d): lowered as LLVM atomicrmw opcode %d instead of %s(%d)", op, got, base, got-base, op, lv))
	}
	c.Check(last-base == maxOp, "R11.3", "intrinsic atomic op range", instrs.Pos(), "llgoAtomicOpLast covers exactly the 11 opcodes", fmt.Sprintf("range end %d does not equal the largest opcode %d", last-base, maxOp))
	// the dispatch subtracts the same base
	okSub := false
	for _, fd := range allFuncs(cp) {
		ast.Inspect(fd.Body, func(n ast.Node) bool {
			call, ok := n.(*ast.CallExpr)
			if !ok {
				return true
			}
			if tv, ok := info.Types[call.Fun]; ok && tv.IsType() && strings.HasSuffix(types.Unalias(tv.Type).String(), "AtomicRMWBinOp") && len(call.Args) == 1 {
				if strings.ReplaceAll(exprStr(call.Args[0]), " ", "") == "ftype-llgoAtomicOpBase" {
					okSub = true
				}
			}
			return true
		})
	}
	c.Check(okSub, "R11.3", "intrinsic atomic op decode", 0, "AtomicOp(ftype - llgoAtomicOpBase)", "the opcode is not recovered by subtracting llgoAtomicOpBase")
	// every llgoInstrs code has a case in callEx or falls in the atomic op range (C14 checks the full table; here the atomic ones)
	// directives in lib/sync/atomic
	re1 := regexp.MustCompile(`^//go:linkname\s+(\w+)\s+llgo\.(\w+)`)
	re2 := regexp.MustCompile(`^//\s*llgo:link\s+(\w+)\s+llgo\.(\w+)`)
	n := 0
	for _, f := range ap.Syntax {
		for _, cg := range f.Comments {
			for _, cm := range cg.List {
				m := re1.FindStringSubmatch(cm.Text)
				if m == nil {
					m = re2.FindStringSubmatch(cm.Text)
				}
				if m == nil {
					continue
				}
				fn, intr := m[1], m[2]
				n++
				key := "sync/atomic." + fn + " -> llgo." + intr
				if _, known := table[intr]; !known {
					c.Bad("R11.3", key, cm.Pos(), "directive names an intrinsic that does not exist in cl.llgoInstrs")
					continue
				}
				want := ""
				up := strings.ToUpper(fn[:1]) + fn[1:]
				for _, fam := range atomicFamilies {
					if strings.HasPrefix(up, fam.prefix) {
						want = fam.intrinsic
						break
					}
				}
				if !ast.IsExported(fn) {
					// unexported helpers (atomicAdd, atomicCmpXchg ...): family from the name after "atomic"
					if strings.HasPrefix(fn, "atomic") {
						rest := fn[len("atomic"):]
						want = ""
						for _, fam := range []struct{ p, i string }{{"CmpXchg", "atomicCmpXchg"}, {"Add", "atomicAddReturnNew"}, {"And", "atomicAnd"}, {"Or", "atomicOr"}, {"Xchg", "atomicXchg"}, {"Load", "atomicLoad"}, {"Store", "atomicStore"}} {
							if strings.HasPrefix(rest, fam.p) {
								want = fam.i
								break
							}
						}
					}
				}
				if want == "" {
					c.Exists("R11.3", key, cm.Pos(), "no family rule for this name")
					continue
				}
				// the declared object must exist in the package
				if ap.Types.Scope().Lookup(fn) == nil {
					c.Bad("R11.3", key, cm.Pos(), "directive names a function that is not declared in the package")
					continue
				}
				c.Check(intr == want, "R11.3", key, cm.Pos(), "bound to "+intr, fmt.Sprintf("%s is bound to llgo.%s, its meaning requires llgo.%s", fn, intr, want))
			}
		}
	}
	if n < 30 {
		c.Undecided("R11.3", "lib/sync/atomic directives", 0, fmt.Sprintf("%d directives found, expected >= 30", n))
	}
	// syncAtomicIntrinsicMap
	if m := pkgVarLit(cp, "syncAtomicIntrinsicMap"); m != nil {
		for _, el := range m.Elts {
			kv, ok := el.(*ast.KeyValueExpr)
			if !ok {
				continue
			}
			k, _ := constString(info, kv.Key)
			v, _ := constString(info, kv.Value)
			fn := k[strings.LastIndex(k, ".")+1:]
			want := ""
			for _, fam := range atomicFamilies {
				if strings.HasPrefix(fn, fam.prefix) {
					want = fam.intrinsic
					break
				}
			}
			c.Check(v == want, "R11.3", "cl.syncAtomicIntrinsicMap "+k, kv.Pos(), v, fmt.Sprintf("%s lowered as %s, its meaning requires %s", k, v, want))
		}
	}
}

func checkAtomicOrdering(c *Ctx, w *World) {
	sp := w.Main("ssa")
	for _, fname := range []string{"Builder.Atomic", "Builder.AtomicCmpXchg"} {
		fd := findFunc(sp, fname)
		if fd == nil {
			c.Bad("R11.4", "ssa."+fname, 0, "function not found")
			continue
		}
		v := newFnView(sp, fd)
		ok := false
		for _, call := range callsIn(fd.Body) {
			name, args, isCall := v.call(call)
			if !isCall || (name != "llvm.Builder.CreateAtomicRMW" && name != "llvm.Builder.CreateAtomicCmpXchg") {
				continue
			}
			nOrd, nSeq := 0, 0
			for _, a := range args {
				if t := v.info.TypeOf(a); t != nil && strings.HasSuffix(t.String(), "AtomicOrdering") {
					nOrd++
					if v.constName(a) == "llvm.AtomicOrderingSequentiallyConsistent" {
						nSeq++
					}
				}
			}
			want := 1
			if strings.HasSuffix(name, "CmpXchg") {
				want = 2
			}
			ok = nOrd == want && nSeq == want
		}
		c.Check(ok, "R11.4", "ssa."+fname+" ordering", fd.Pos(), "seq_cst", "an atomic read-modify-write is emitted with an ordering weaker than sequentially consistent (sync/atomic promises a single total order)")
	}
	cp := w.Main("cl")
	for _, fname := range []string{"context.atomicLoad", "context.atomicStore"} {
		fd := findFunc(cp, fname)
		if fd == nil {
			c.Bad("R11.4", "cl."+fname, 0, "function not found")
			continue
		}
		ok := false
		for _, call := range callsIn(fd.Body) {
			if f := calleeOf(cp.TypesInfo, call); f != nil && f.Name() == "SetOrdering" && len(call.Args) == 1 {
				ok = objName(usedObj(cp.TypesInfo, call.Args[0])) == "ssa.OrderingSeqConsistent"
			}
		}
		c.Check(ok, "R11.4", "cl."+fname+" ordering", fd.Pos(), "SetOrdering(seq_cst)", "atomic load/store emitted without sequentially consistent ordering (becomes a plain access)")
	}
	// the constant itself
	if o, ok := sp.Types.Scope().Lookup("OrderingSeqConsistent").(*types.Const); ok {
		var lv int64 = -1
		for _, imp := range sp.Types.Imports() {
			if imp.Path() == "github.com/xgo-dev/llvm" {
				if lc, ok := imp.Scope().Lookup("AtomicOrderingSequentiallyConsistent").(*types.Const); ok {
					lv, _ = constValInt(lc)
				}
			}
		}
		v, _ := constValInt(o)
		c.Check(v == lv, "R11.4", "ssa.OrderingSeqConsistent value", o.Pos(), "equals llvm.AtomicOrderingSequentiallyConsistent", fmt.Sprintf("constant is %d, LLVM's seq_cst is %d", v, lv))
	}
}

func checkGoRecord(c *Ctx, sp *packages.Package) {
	gofd, rt := findFunc(sp, "Builder.Go"), findFunc(sp, "Package.routine")
	if gofd == nil || rt == nil {
		c.Bad("R11.5", "ssa.Builder.Go / Package.routine", 0, "functions not found")
		return
	}
	c.nfuncs += 2
	pred := func(fd *ast.FuncDecl) string {
		s := ""
		ast.Inspect(fd.Body, func(n ast.Node) bool {
			if is, ok := n.(*ast.IfStmt); ok && s == "" {
				for _, st := range is.Body.List {
					if as, ok := st.(*ast.AssignStmt); ok && exprStr(as.Lhs[len(as.Lhs)-1]) == "offset" {
						s = strings.ReplaceAll(exprStr(is.Cond), " ", "")
					}
				}
			}
			return true
		})
		return s
	}
	p1, p2 := pred(gofd), pred(rt)
	c.Check(p1 != "" && p1 == p2, "R11.5", "go record layout predicate", gofd.Pos(), "pack and unpack reserve slot 0 for the function value under the same condition: "+p1, fmt.Sprintf("pack uses %q, unpack uses %q: arguments are read from the wrong fields", p1, p2))
	src := strings.ReplaceAll(funcText(gofd), " ", "")
	c.Check(strings.Contains(src, "typs[i+offset]=arg.Type") && strings.Contains(src, "flds[i+offset]=arg.impl") && strings.Contains(src, "typs[0]=fn.Type") && strings.Contains(src, "flds[0]=fn.impl"),
		"R11.5", "go record pack order", gofd.Pos(), "fn at 0, argument i at i+offset", "record is not packed as [fn?] + args in order")
	rsrc := strings.ReplaceAll(funcText(rt), " ", "")
	c.Check(strings.Contains(rsrc, "args[i]=b.getField(data,i+offset)") && strings.Contains(rsrc, "fn=b.getField(data,0)"),
		"R11.5", "go record unpack order", rt.Pos(), "fn from field 0, argument i from field i+offset", "record is not unpacked as [fn?] + args in order")
	// heap allocation, count
	v := newFnView(sp, gofd)
	heap, cnt := false, false
	heapWhy := "pthreadCreate call not found"
	var implDefs func(e ast.Expr, depth int) (bool, string)
	implDefs = func(e ast.Expr, depth int) (bool, string) {
		if depth > 6 {
			return false, "definition chain too deep"
		}
		e = ast.Unparen(e)
		if cl, ok := e.(*ast.CompositeLit); ok && len(cl.Elts) >= 1 { // Expr{impl, typ}
			el := cl.Elts[0]
			if kv, isKV := el.(*ast.KeyValueExpr); isKV {
				el = kv.Value
			}
			return implDefs(el, depth+1)
		}
		if name, _, ok := v.call(e); ok {
			switch name {
			case "ssa.Builder.aggregateAllocU", "ssa.Builder.aggregateAlloc", "ssa.Builder.aggregateMalloc":
				return true, ""
			}
			return false, "record comes from " + name
		}
		defs := v.allDefs(e)
		if len(defs) == 0 {
			return false, "record " + exprStr(e) + " has no visible definition"
		}
		for _, d := range defs {
			if d == nil {
				return false, "opaque definition of " + exprStr(e)
			}
			if ok, why := implDefs(d, depth+1); !ok {
				return false, why
			}
		}
		return true, ""
	}
	for _, call := range callsIn(gofd.Body) {
		name, args, ok := v.call(call)
		if !ok {
			continue
		}
		if name == "ssa.Builder.pthreadCreate" && len(args) == 4 {
			heap, heapWhy = implDefs(args[3], 0)
		}
		if name == "ssa.Package.routine" && len(args) == 4 && strings.ReplaceAll(exprStr(args[3]), " ", "") == "len(args)" {
			cnt = true
		}
	}
	c.Check(heap, "R11.5", "go record outlives the spawning frame", gofd.Pos(), "every definition of the record handed to pthreadCreate is a GC-heap allocation", "argument record is not heap allocated on every path ("+heapWhy+"): the new thread reads a dead stack frame when the spawner returns first")
	c.Check(cnt, "R11.5", "go record argument count", gofd.Pos(), "routine unpacks len(args) arguments", "the thunk is generated for a different number of arguments than were packed")
}

func funcText(fd *ast.FuncDecl) string {
	var parts []string
	ast.Inspect(fd.Body, func(n ast.Node) bool {
		if as, ok := n.(*ast.AssignStmt); ok {
			var l, r []string
			for _, e := range as.Lhs {
				l = append(l, exprStr(e))
			}
			for _, e := range as.Rhs {
				r = append(r, exprStr(e))
			}
			if len(l) == len(r) {
				for i := range l {
					parts = append(parts, l[i]+"="+r[i])
				}
			} else {
				parts = append(parts, strings.Join(l, ",")+"="+strings.Join(r, ","))
			}
		}
		return true
	})
	return strings.Join(parts, ";")
}

func init() {
	s := "runtime/internal/lib/runtime/sema_llgo.go"
	addMutant(Mutant{Prop: "C11", Name: "release-publishes-late", File: s, Old: "func semaRelease(addr *uint32) {\n\tlatomic.AddUint32(addr, 1)\n\tst := getSemaState(addr)\n\tst.mu.Lock()\n\tif st.waiters != 0 {\n\t\tst.cond.Signal()\n\t}\n\tst.mu.Unlock()\n", New: "func semaRelease(addr *uint32) {\n\tst := getSemaState(addr)\n\tst.mu.Lock()\n\tif st.waiters != 0 {\n\t\tst.cond.Signal()\n\t}\n\tst.mu.Unlock()\n\tlatomic.AddUint32(addr, 1)\n", Expect: "R11.6 libruntime.semaRelease"})
	addMutant(Mutant{Prop: "C11", Name: "waiters-unlocked", File: s, Old: "\tst.mu.Lock()\n\tif st.waiters != 0 {\n\t\tst.cond.Signal()\n\t}\n\tst.mu.Unlock()\n", New: "\tif st.waiters != 0 {\n\t\tst.cond.Signal()\n\t}\n", Expect: "R11.1 libruntime.semaRelease"})
	addMutant(Mutant{Prop: "C11", Name: "sema-return-locked", File: s, Old: "\t\t\tif v != 0 && latomic.CompareAndSwapUint32(addr, v, v-1) {\n\t\t\t\tst.mu.Unlock()\n\t\t\t\treturn\n\t\t\t}", New: "\t\t\tif v != 0 && latomic.CompareAndSwapUint32(addr, v, v-1) {\n\t\t\t\treturn\n\t\t\t}", Expect: "R11.1 libruntime.semaAcquire lock pairing"})
	addMutant(Mutant{Prop: "C11", Name: "sema-sleep-decided-outside-lock", File: s,
		Old: "\t\tfor {\n\t\t\tv = latomic.LoadUint32(addr)\n\t\t\tif v != 0 && latomic.CompareAndSwapUint32(addr, v, v-1) {\n\t\t\t\tst.mu.Unlock()\n\t\t\t\treturn\n\t\t\t}\n\t\t\tst.waiters++\n\t\t\tst.cond.Wait(&st.mu)\n\t\t\tst.waiters--\n\t\t}\n",
		New: "\t\tst.waiters++\n\t\tst.cond.Wait(&st.mu)\n\t\tst.waiters--\n\t\tst.mu.Unlock()\n", Expect: "R11.1 libruntime.semaAcquire Wait(&st.mu) is decided under the lock"})
	addMutant(Mutant{Prop: "C11", Name: "ticket-equality", File: s, Old: "for !notifyLess(t, latomic.LoadUint32(&l.notify)) {", New: "for latomic.LoadUint32(&l.notify) == t {", Expect: "R11.2 libruntime.sync_runtime_notifyListWait ticket comparison"})
	addMutant(Mutant{Prop: "C11", Name: "notifyone-signal", File: s, Old: "\t\tst.cond.Broadcast()\n\t}\n\tst.mu.Unlock()\n}", New: "\t\tst.cond.Signal()\n\t}\n\tst.mu.Unlock()\n}", Expect: "R11.2 libruntime.sync_runtime_notifyListNotifyOne wakes"})
	addMutant(Mutant{Prop: "C11", Name: "notifyless-unsigned", File: s, Old: "return int32(a-b) < 0", New: "return a < b", Expect: "R11.2 libruntime.notifyLess"})
	addMutant(Mutant{Prop: "C11", Name: "swap-bound-to-add", File: "runtime/internal/lib/sync/atomic/atomic.go", Old: "//go:linkname SwapUint64 llgo.atomicXchg", New: "//go:linkname SwapUint64 llgo.atomicAdd", Expect: "R11.3 sync/atomic.SwapUint64"})
	addMutant(Mutant{Prop: "C11", Name: "opcode-shift", File: "cl/import.go", Old: "llgoAtomicSub  = int(llgoAtomicOpBase + llssa.OpSub)", New: "llgoAtomicSub  = int(llgoAtomicOpBase + llssa.OpAdd)", Expect: "R11.3 intrinsic atomicSub opcode"})
	addMutant(Mutant{Prop: "C11", Name: "rmw-monotonic", File: "ssa/memory.go", Old: "ret := b.impl.CreateAtomicRMW(op, ptr.impl, val.impl, llvm.AtomicOrderingSequentiallyConsistent, false)", New: "ret := b.impl.CreateAtomicRMW(op, ptr.impl, val.impl, llvm.AtomicOrderingMonotonic, false)", Expect: "R11.4 ssa.Builder.Atomic ordering"})
	addMutant(Mutant{Prop: "C11", Name: "atomic-load-plain", File: "cl/instr.go", Old: "return b.Load(addr).SetOrdering(llssa.OrderingSeqConsistent)", New: "return b.Load(addr)", Expect: "R11.4 cl.context.atomicLoad ordering"})
	addMutant(Mutant{Prop: "C11", Name: "go-record-on-stack", File: "ssa/goroutine.go", Old: "data := Expr{b.aggregateAllocU(t, flds...), voidPtr}", New: "data := Expr{b.aggregateAlloca(t, flds...), voidPtr}", Expect: "R11.5 go record outlives"})
	addMutant(Mutant{Prop: "C11", Name: "go-unpack-predicate", File: "ssa/goroutine.go", Old: "\tif fn != Nil && fn.kind != vkBuiltin {\n\t\tfn = b.getField(data, 0)", New: "\tif fn != Nil {\n\t\tfn = b.getField(data, 0)", Expect: "R11.5 go record layout predicate"})
}
