package main

import (
	"fmt"
	"go/ast"
	"go/token"
	"strings"

	"golang.org/x/tools/go/packages"
)

// checkOwnershipSeparator (R14.5): "symbol S belongs to package P" is decided on the name "P.S": the test must
// include the separator, otherwise foo/bar claims the symbols of foo/barbaz and foo/bar/sub.
func checkOwnershipSeparator(c *Ctx, sp *packages.Package) {
	c.Rule("R14.5", "a symbol is attributed to a package by the prefix path+\".\" (separator included) followed by a bare identifier, never by the bare path", 1)
	info := sp.TypesInfo
	fd := findFunc(sp, "Package.ownsGlobal")
	if fd == nil {
		c.Undecided("R14.5", "ssa.Package.ownsGlobal", 0, "function not found")
		return
	}
	c.nfuncs++
	n := 0
	restChecked := false
	for _, call := range callsIn(fd.Body) {
		// the remainder after the prefix must be a bare identifier: a name of package path+".v2" also starts with path+"."
		if (isCallTo(info, call, "strings.ContainsAny") || isCallTo(info, call, "strings.Contains") || isCallTo(info, call, "strings.IndexAny") || isCallTo(info, call, "strings.IndexByte") || isCallTo(info, call, "strings.ContainsRune")) && len(call.Args) == 2 {
			if s, isC := constString(info, call.Args[1]); isC && strings.Contains(s, ".") {
				restChecked = true
			} else if tv, has := info.Types[call.Args[1]]; has && tv.Value != nil && tv.Value.ExactString() == "46" {
				restChecked = true
			}
		}
		if !(isCallTo(info, call, "strings.HasPrefix") || isCallTo(info, call, "strings.CutPrefix")) || len(call.Args) != 2 {
			continue
		}
		n++
		arg := ast.Unparen(call.Args[1])
		ok := false
		if be, isBin := arg.(*ast.BinaryExpr); isBin && be.Op == token.ADD {
			if s, isC := constString(info, be.Y); isC && s == "." {
				ok = true
			}
		}
		c.Check(ok, "R14.5", fmt.Sprintf("ssa.Package.ownsGlobal prefix test #%d", n), call.Pos(), "prefix test against path+\".\"",
			"the ownership test compares with "+exprStr(arg)+" (no separator): package foo/bar also claims the zero-sized globals of foo/barbaz and foo/bar/sub and defines them a second time")
	}
	if n == 0 {
		c.Undecided("R14.5", "ssa.Package.ownsGlobal prefix test", fd.Pos(), "no strings.HasPrefix/CutPrefix test found")
		return
	}
	c.Check(restChecked, "R14.5", "ssa.Package.ownsGlobal remainder is an identifier", fd.Pos(), "what follows path+\".\" is tested to contain no further dot",
		"after the prefix path+\".\" the rest of the name is not examined: package foo/bar also claims foo/bar.v2.X (a package whose path extends this one with a dot) and defines it a second time")
}

// varNameCallerExempt: callers of varName that pass a global of the package being compiled.
var varNameCallerExempt = map[string]string{
	"context.globalFullName": "names a global of the package being compiled: its link directives were registered when the package's files were scanned",
	"context.compileGlobal":  "compiles a global of the package being compiled (same reason)",
}

// checkLinknameAfterLoad (R14.6): the link-name table is filled when a package is first loaded (ensureLoaded scans
// its //go:linkname directives).  A name looked up before that is the Go name, a later lookup gives the linked
// name: one variable ends up with two symbols.
func checkLinknameAfterLoad(c *Ctx, cp *packages.Package) {
	c.Rule("R14.6", "a symbol's link name is looked up only after the declaring package was loaded (its //go:linkname directives registered): every varName call receives the package returned by ensureLoaded, funcName loads before it consults the table", 2)
	info := cp.TypesInfo
	n := 0
	for _, fd := range allFuncs(cp) {
		v := newFnView(cp, fd)
		for _, call := range callsIn(fd.Body) {
			f := calleeOf(info, call)
			if f == nil || f.Name() != "varName" || len(call.Args) != 2 {
				continue
			}
			n++
			key := fmt.Sprintf("cl.%s -> varName(%s)", declName(fd), exprStr(call.Args[0]))
			if why, ex := varNameCallerExempt[declName(fd)]; ex {
				c.OK("R14.6", key, call.Pos(), why)
				continue
			}
			name, _, isCall := v.call(v.res(call.Args[0]))
			c.Check(isCall && strings.HasSuffix(name, "context.ensureLoaded"), "R14.6", key, call.Pos(), "package obtained from ensureLoaded",
				"varName is called with "+exprStr(call.Args[0])+", not with the result of ensureLoaded: if this is the first contact with an imported package its //go:linkname directives are not registered yet, the variable gets its Go name here and its linked name elsewhere")
		}
	}
	// funcName: ensureLoaded dominates the table lookup
	if fd := findFunc(cp, "context.funcName"); fd != nil {
		g := buildCFG(cp, fd)
		for _, call := range callsIn(fd.Body) {
			if f := calleeOf(info, call); f != nil && f.Name() == "Linkname" {
				n++
				dom, _ := g.dominatedBy(call, func(nd ast.Node) bool { return containsCallTo(info, nd, "cl.context.ensureLoaded") }, nil)
				c.Check(dom, "R14.6", "cl.context.funcName loads the package before the link-name lookup", call.Pos(), "ensureLoaded on every path to Linkname", "a path reaches the link-name table without loading the declaring package")
			}
		}
	}
	if n < 2 {
		c.Undecided("R14.6", "cl link-name lookups", 0, fmt.Sprintf("%d sites found", n))
	}
}

func init() {
	addMutant(Mutant{Prop: "C14", Name: "ownsglobal-bare-prefix", File: "ssa/decl.go",
		Old: "rest, ok := strings.CutPrefix(name, p.path+\".\")", New: "rest, ok := strings.CutPrefix(name, p.path)", Expect: "R14.5"})
	addMutant(Mutant{Prop: "C14", Name: "ownsglobal-rest-unchecked", File: "ssa/decl.go",
		Old: "return ok && !strings.ContainsAny(rest, \"./\")", New: "_ = rest\n\treturn ok", Expect: "R14.5 ssa.Package.ownsGlobal remainder"})
	addMutant(Mutant{Prop: "C14", Name: "varname-before-load", File: "cl/import.go",
		Old: "\tpkgTypes := p.ensureLoaded(v.Pkg.Pkg)\n\tpkg := p.pkg\n\tname, vtype, _ := p.varName(pkgTypes, v)", New: "\tpkgTypes := v.Pkg.Pkg\n\tpkg := p.pkg\n\tname, vtype, _ := p.varName(pkgTypes, v)\n\tp.ensureLoaded(pkgTypes)", Expect: "R14.6 cl.context.varOf"})
}

// checkLocalTypePosKept (R14.7): types declared inside functions are told apart by a scope index that ends in
// the declaration position; the synthetic TypeName that replaces a local type of a generic function must keep it.
func checkLocalTypePosKept(c *Ctx, cp *packages.Package) {
	c.Rule("R14.7", "the synthetic type name of a function-local type keeps the position of the declaration it replaces (the last disambiguator of same-named local types)", 1)
	fd := findFunc(cp, "context.patchLocalGenericNamed")
	if fd == nil {
		c.Undecided("R14.7", "cl.context.patchLocalGenericNamed", 0, "function not found")
		return
	}
	c.nfuncs++
	info := cp.TypesInfo
	n := 0
	for _, call := range callsIn(fd.Body) {
		if f := calleeOf(info, call); f != nil && qualName(f) == "go/types.NewTypeName" && len(call.Args) == 4 {
			n++
			pos := strings.ReplaceAll(exprStr(call.Args[0]), " ", "")
			c.Check(strings.HasSuffix(pos, ".Obj().Pos()") || strings.HasSuffix(pos, ".Pos()") && pos != "token.NoPos", "R14.7", "cl.context.patchLocalGenericNamed keeps the declaration position", call.Pos(), "NewTypeName(t.Obj().Pos(), ...)",
				"the replacement type name is created at "+pos+": two generic functions that each declare a local type of the same name and ordinal get one descriptor and one instance name for two different types")
		}
	}
	if n == 0 {
		c.Undecided("R14.7", "cl.context.patchLocalGenericNamed", fd.Pos(), "no types.NewTypeName call")
	}
}

// checkDescriptorBuildOrder (R14.8): in abiType the common fields (which compile the pointer type's descriptor
// and with it the method wrappers, as mergeable definitions) are built before the method table refers to
// those wrappers; built the other way round the table declares them as plain externals first and the later
// definition becomes a strong symbol in every package that instantiates the type.
func checkDescriptorBuildOrder(c *Ctx, sp *packages.Package) {
	c.Rule("R14.8", "a descriptor's method table is built after its common fields, so that the wrappers it names were first created as mergeable definitions", 1)
	fd := findFunc(sp, "Builder.abiType")
	if fd == nil {
		c.Undecided("R14.8", "ssa.Builder.abiType", 0, "function not found")
		return
	}
	c.nfuncs++
	info := sp.TypesInfo
	g := buildCFG(sp, fd)
	isCommon := func(n ast.Node) bool { return containsCallTo(info, n, "ssa.Builder.abiCommonFields") }
	isTable := func(n ast.Node) bool {
		return containsCallTo(info, n, "ssa.Builder.abiUncommonMethods") || containsCallTo(info, n, "ssa.Builder.abiUncommonType")
	}
	hit, reached := g.reach(g.entry(), isCommon, func(n ast.Node) bool { return isTable(n) && !isCommon(n) }, false, nil)
	c.Check(!reached, "R14.8", "ssa.Builder.abiType builds the method table after the common fields", fd.Pos(), "abiCommonFields precedes abiUncommonType/abiUncommonMethods on every path",
		"the method table is built ("+c.posStr(posOf(hit))+") before the common fields: the wrappers of value-receiver methods are first declared external, and their later definition is a strong, package-independent symbol (duplicate definitions across packages)")
}

func init() {
	addMutant(Mutant{Prop: "C14", Name: "local-type-nopos", File: "cl/compile.go",
		Old: "obj := types.NewTypeName(t.Obj().Pos(), t.Obj().Pkg(), p.localNamedName(t, true), nil)", New: "obj := types.NewTypeName(token.NoPos, t.Obj().Pkg(), p.localNamedName(t, true), nil)", Expect: "R14.7"})
}
