package main

import (
	"go/ast"
	"strings"

	"golang.org/x/tools/go/packages"
)

// checkInitStubLinkage (R12.3): the entry module defines empty fallbacks for initialisers that exist only when
// their package is linked (runtime.init, syscall.init).  The real definition replaces the fallback at link
// time, so the fallback must be interposable: with an ODR linkage the optimiser may inline the empty body
// into main and the call - the program's only call of that initialiser - disappears.
func checkInitStubLinkage(c *Ctx, bp *packages.Package) {
	c.Rule("R12.3", "link-time replaceable initialiser fallbacks are interposable (weak, not an ODR/inlinable linkage), so the call to the real initialiser survives optimisation", 1)
	info := bp.TypesInfo
	n := 0
	for _, fd := range allFuncs(bp) {
		if fileOf(c.fset, fd.Pos()) != "main_module.go" {
			continue
		}
		// a function that creates a body consisting of a bare return and sets a linkage
		var link *ast.CallExpr
		hasBody := false
		for _, call := range callsIn(fd.Body) {
			f := calleeOf(info, call)
			if f == nil {
				continue
			}
			if f.Name() == "SetLinkage" && len(call.Args) == 1 {
				link = call
			}
			if f.Name() == "MakeBody" {
				hasBody = true
			}
		}
		if link == nil || !hasBody {
			continue
		}
		n++
		lk := objName(usedObj(info, link.Args[0]))
		lk = lk[strings.LastIndex(lk, ".")+1:]
		c.Check(lk == "WeakAnyLinkage" || lk == "ExternalWeakLinkage", "R12.3", "build."+declName(fd)+" fallback linkage", link.Pos(), "weak (interposable)",
			"the fallback is defined with "+lk+": an ODR or strong linkage lets the optimiser inline the empty body into the entry function (cross, wasm and -target builds compile the entry module at -O2/-Oz), so the overlaid runtime package is never initialised")
	}
	if n == 0 {
		c.Undecided("R12.3", "build entry-module fallback stubs", 0, "no function defining a fallback body with an explicit linkage found in main_module.go")
	}
}

func init() {
	addMutant(Mutant{Prop: "C12", Name: "init-stub-weak-odr", File: "internal/build/main_module.go",
		Old: "pkg.Module().NamedFunction(name).SetLinkage(llvm.WeakAnyLinkage)", New: "pkg.Module().NamedFunction(name).SetLinkage(llvm.WeakODRLinkage)", Expect: "R12.3"})
}
