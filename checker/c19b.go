package main

import (
	"fmt"
	"go/ast"
	"go/token"
	"go/types"
	"strings"

	"golang.org/x/tools/go/packages"
)

// evalStrPred evaluates a boolean expression built from strings.HasSuffix/HasPrefix/Contains(<var>, const),
// !, && and || for one value of the variable.
func evalStrPred(info *types.Info, e ast.Expr, varName, val string) (bool, bool) {
	e = ast.Unparen(e)
	switch x := e.(type) {
	case *ast.UnaryExpr:
		if x.Op == token.NOT {
			v, ok := evalStrPred(info, x.X, varName, val)
			return !v, ok
		}
	case *ast.BinaryExpr:
		a, ok1 := evalStrPred(info, x.X, varName, val)
		b, ok2 := evalStrPred(info, x.Y, varName, val)
		if !ok1 || !ok2 {
			return false, false
		}
		switch x.Op {
		case token.LAND:
			return a && b, true
		case token.LOR:
			return a || b, true
		}
	case *ast.CallExpr:
		f := calleeOf(info, x)
		if f == nil || f.Pkg() == nil || f.Pkg().Path() != "strings" || len(x.Args) != 2 {
			return false, false
		}
		if id, ok := ast.Unparen(x.Args[0]).(*ast.Ident); !ok || id.Name != varName {
			return false, false
		}
		s, ok := constString(info, x.Args[1])
		if !ok {
			return false, false
		}
		switch f.Name() {
		case "HasSuffix":
			return strings.HasSuffix(val, s), true
		case "HasPrefix":
			return strings.HasPrefix(val, s), true
		case "Contains":
			return strings.Contains(val, s), true
		}
	}
	return false, false
}

// checkPyCalleeSource: the compiler front end must take Python callees from PyNewFunc (which re-types per
// signature), not from the name-keyed PyObjOf cache.
func checkPyCalleeSource(c *Ctx, cp *packages.Package) {
	fd := findFunc(cp, "context.funcOf")
	if fd == nil {
		c.Undecided("R19.5", "cl.context.funcOf python callee", 0, "function not found")
		return
	}
	c.nfuncs++
	info := cp.TypesInfo
	bad, good := "", 0
	ast.Inspect(fd.Body, func(n ast.Node) bool {
		as, ok := n.(*ast.AssignStmt)
		if !ok || len(as.Lhs) != 1 || len(as.Rhs) != 1 || exprStr(as.Lhs[0]) != "pyFn" {
			return true
		}
		call, ok := as.Rhs[0].(*ast.CallExpr)
		if !ok {
			bad = exprStr(as.Rhs[0])
			return true
		}
		f := calleeOf(info, call)
		switch {
		case f != nil && f.Name() == "PyNewFunc" && len(call.Args) == 3 && strings.HasSuffix(strings.ReplaceAll(exprStr(call.Args[1]), " ", ""), ".Signature"):
			good++
		default:
			bad = exprStr(call)
		}
		return true
	})
	c.Check(bad == "" && good > 0, "R19.5", "cl.context.funcOf takes Python callees from PyNewFunc with the callee's signature", fd.Pos(), "pyFn = pkg.PyNewFunc(name, fn.Signature, ...)",
		"the callee is taken from "+bad+": a reference cached under the Python name keeps the signature of the first Go declaration, and the call form (no-arg / one-arg / varargs) follows that signature instead of the call's")
}

func checkC19b(c *Ctx, sp *packages.Package) {
	info := sp.TypesInfo
	c.Rule("R19.5", "a Python callable is called with the arity of the call site: a cached function reference is re-typed with the signature requested for this use (two Go declarations of one Python name may differ in arity)", 1)
	c.Rule("R19.6", "each Python symbol is bound from its own module: the grouping key is the module of that very symbol", 1)
	c.Rule("R19.7", "the symbol-binding code is placed after the init calls of imported packages and before the package's own init functions: only names ending in .init are skipped", 3)

	// ---- R19.5
	if fd := findFunc(sp, "Package.PyNewFunc"); fd == nil {
		c.Undecided("R19.5", "ssa.Package.PyNewFunc", 0, "function not found")
	} else {
		c.nfuncs++
		sigName := ""
		for _, f := range fd.Type.Params.List {
			if strings.HasSuffix(exprStr(f.Type), "types.Signature") && len(f.Names) > 0 {
				sigName = f.Names[0].Name
			}
		}
		var hit *ast.IfStmt
		ast.Inspect(fd.Body, func(n ast.Node) bool {
			if is, ok := n.(*ast.IfStmt); ok && hit == nil && is.Init != nil && strings.Contains(strings.ReplaceAll(srcOf(is.Init), " ", ""), "p.pyobjs[name]") {
				hit = is
			}
			return true
		})
		if hit == nil || sigName == "" {
			c.Undecided("R19.5", "ssa.Package.PyNewFunc cache hit", fd.Pos(), "cache lookup or signature parameter not found")
		} else {
			// every return of the cached reference itself must be guarded by a test involving the signature
			usesSig := true
			cached := ""
			if as, ok := hit.Init.(*ast.AssignStmt); ok && len(as.Lhs) > 0 {
				cached = exprStr(as.Lhs[0])
			}
			ast.Inspect(hit.Body, func(n ast.Node) bool {
				r, ok := n.(*ast.ReturnStmt)
				if !ok || len(r.Results) != 1 || exprStr(r.Results[0]) != cached {
					return true
				}
				guarded := false
				for _, cp := range pathConds(hit.Body, r) {
					if cp.pol && nodeHas(cp.cond, func(x ast.Node) bool { id, ok := x.(*ast.Ident); return ok && id.Name == sigName }) {
						guarded = true
					}
				}
				if !guarded {
					usesSig = false
				}
				return true
			})
			c.Check(usesSig, "R19.5", "ssa.Package.PyNewFunc cache hit honours the requested signature", hit.Pos(), "the hit path compares or re-types with "+sigName,
				"a cache hit returns the reference typed with the FIRST signature seen for this Python name; pyCall picks the call form from that type, so after std.Dir() the call std.DirEx(obj) is lowered to PyObject_CallNoArgs and its argument is dropped")
		}
	}
	// ---- R19.6
	if fd := findFunc(sp, "Package.pyLoadModSyms"); fd == nil {
		c.Undecided("R19.6", "ssa.Package.pyLoadModSyms", 0, "function not found")
	} else {
		c.nfuncs++
		n := 0
		ast.Inspect(fd.Body, func(x ast.Node) bool {
			rs, ok := x.(*ast.RangeStmt)
			if !ok {
				return true
			}
			v := newFnView(sp, fd)
			for _, st := range rs.Body.List {
				as, ok := st.(*ast.AssignStmt)
				if !ok || len(as.Lhs) != 1 {
					continue
				}
				ix, ok := as.Lhs[0].(*ast.IndexExpr)
				if !ok || exprStr(ix.X) != "mods" {
					continue
				}
				n++
				// key must be modOf(<loop value>) and the appended object objs[<same loop value>]
				key := strings.ReplaceAll(exprStr(v.res(ix.Index)), " ", "")
				val := exprStr(rs.Value)
				okKey := key == "modOf("+val+")"
				// a variable assigned elsewhere conditionally (lastMod) is not the symbol's own module
				if id, isId := ix.Index.(*ast.Ident); isId && len(v.allDefs(id)) != 1 {
					okKey = false
				}
				c.Check(okKey && strings.Contains(strings.ReplaceAll(srcOf(as), " ", ""), "objs["+val+"]"), "R19.6", "ssa.Package.pyLoadModSyms groups a symbol under its own module", as.Pos(), "mods[modOf("+val+")] = append(..., objs["+val+"])",
					"the symbol is appended under "+key+", which is not the module of this symbol: os.path.join sorted after os.getcwd is bound as attribute \"path.join\" of module os, the lookup fails and the call goes through a NULL object")
			}
			return true
		})
		if n == 0 {
			c.Undecided("R19.6", "ssa.Package.pyLoadModSyms grouping", fd.Pos(), "no `mods[...] = append` in a range loop")
		}
	}
	// ---- R19.7
	if fd := findFunc(sp, "notInit"); fd == nil {
		c.Undecided("R19.7", "ssa.notInit", 0, "function not found")
	} else {
		c.nfuncs++
		var pred ast.Expr
		ast.Inspect(fd.Body, func(n ast.Node) bool {
			if r, ok := n.(*ast.ReturnStmt); ok && len(r.Results) == 1 {
				if _, isCall := ast.Unparen(r.Results[0]).(*ast.Ident); !isCall && pred == nil {
					if _, isLit := constBool(info, r.Results[0]); !isLit {
						pred = r.Results[0]
					}
				}
			}
			return true
		})
		if pred == nil {
			c.Undecided("R19.7", "ssa.notInit name predicate", fd.Pos(), "no name predicate found")
		} else {
			for _, tc := range []struct {
				name    string
				notInit bool
				why     string
			}{
				{"example.com/lib.init", false, "the init call of an imported package must be skipped: symbols are bound after the imports are initialised"},
				{"main.init#1", true, "the package's own init function must NOT be skipped: a func init() that calls Python would run before its symbols are bound"},
				{"main.initialize", true, "an ordinary function whose name starts with init is not an init call"},
			} {
				got, ok := evalStrPred(info, pred, "name", tc.name)
				if !ok {
					c.Undecided("R19.7", fmt.Sprintf("ssa.notInit(%q)", tc.name), pred.Pos(), "predicate outside the evaluable fragment: "+exprStr(pred))
					continue
				}
				c.Check(got == tc.notInit, "R19.7", fmt.Sprintf("ssa.notInit(%q)", tc.name), pred.Pos(), fmt.Sprintf("%v", tc.notInit), fmt.Sprintf("notInit(%q) = %v: %s", tc.name, got, tc.why))
			}
		}
	}
}

func init() {
	addMutant(Mutant{Prop: "C19", Name: "pysyms-grouped-by-prefix", File: "ssa/python.go",
		Old: "\t\tmodName := modOf(name)\n\t\tmods[modName] = append(mods[modName], objs[name])\n\t\tif modName != lastMod {\n\t\t\tmodNames = append(modNames, modName)\n\t\t\tlastMod = modName\n\t\t}",
		New: "\t\tif lastMod == \"\" || !strings.HasPrefix(name, lastMod+\".\") {\n\t\t\tlastMod = modOf(name)\n\t\t\tmodNames = append(modNames, lastMod)\n\t\t}\n\t\tmods[lastMod] = append(mods[lastMod], objs[name])", Expect: "R19.6"})
	addMutant(Mutant{Prop: "C19", Name: "notinit-contains", File: "ssa/stmt_builder.go",
		Old: "return !strings.HasSuffix(name, \".init\")", New: "return !strings.Contains(name, \".init\")", Expect: "R19.7 ssa.notInit(\"main.init#1\")"})
}

func init() {
	addMutant(Mutant{Prop: "C19", Name: "pyfunc-cache-first-signature", File: "ssa/python.go",
		Old: "\t\tif ptr, ok := v.raw.Type.(*types.Pointer); ok && types.Identical(ptr.Elem(), sig) {\n\t\t\treturn v\n\t\t}\n", New: "\t\tif doInit {\n\t\t\treturn v\n\t\t}\n", Expect: "R19.5 ssa.Package.PyNewFunc"})
	addMutant(Mutant{Prop: "C19", Name: "pycallee-from-name-cache", File: "cl/instr.go",
		Old: "\t\t\tpyFn = pkg.PyNewFunc(fnName, fn.Signature, true)\n\t\t\treturn", New: "\t\t\tif pyFn = pkg.PyObjOf(fnName); pyFn == nil {\n\t\t\t\tpyFn = pkg.PyNewFunc(fnName, fn.Signature, true)\n\t\t\t}\n\t\t\treturn", Expect: "R19.5 cl.context.funcOf"})
}

// checkAfterInitAnchor (R19.9): the code that binds a package's Python symbols is inserted after the init calls
// of the imported packages.  Those calls follow the store that sets <pkg>.init$guard; other code (the tables of
// embed.FS variables) may be emitted in front of that store, so the insertion point must be located from the
// guard store, not from the first instruction of the block.
func checkAfterInitAnchor(c *Ctx, sp *packages.Package) {
	fd := findFunc(sp, "instrAfterInit")
	if fd == nil {
		c.Undecided("R19.7", "ssa.instrAfterInit anchors on the init guard", 0, "function not found")
		return
	}
	c.nfuncs++
	src := srcOf(fd.Body)
	// the callee that recognises the guard may be a helper of the same package
	anchored := strings.Contains(src, "init$guard")
	for _, call := range callsIn(fd.Body) {
		if f := calleeOf(sp.TypesInfo, call); f != nil && f.Pkg() == sp.Types {
			if hd := findFunc(sp, f.Name()); hd != nil && strings.Contains(srcOf(hd.Body), "init$guard") {
				anchored = true
			}
		}
	}
	c.Check(anchored, "R19.7", "ssa.instrAfterInit anchors on the init guard", fd.Pos(), "scan starts at the store to <pkg>.init$guard",
		"the scan assumes the block's first instruction is the guard store: when embed.FS tables are emitted in front of it the binding code lands before the imported packages' init calls, so Python symbols are looked up in a module that is not imported yet (NULL)")
}

func init() {
	addMutant(Mutant{Prop: "C19", Name: "afterinit-assumes-first-instruction", File: "ssa/stmt_builder.go",
		Old: "\tinstr := guardStore(blk)\n", New: "\tinstr := blk.FirstInstruction()\n", Expect: "R19.7 ssa.instrAfterInit anchors"})
}
