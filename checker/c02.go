package main

import (
	"fmt"
	"go/ast"
	"go/token"
	"go/types"
	"sort"
	"strings"

	"golang.org/x/tools/go/packages"
)

func init() { register("C02", checkC02) }

// Go spec (Arithmetic operators, Comparison operators) -> LLVM LangRef opcode/predicate.
var oracleMath = map[string]map[string]string{ // token -> kind -> opcode
	"ADD": {"vkSigned": "llvm.Add", "vkUnsigned": "llvm.Add", "vkFloat": "llvm.FAdd"},
	"SUB": {"vkSigned": "llvm.Sub", "vkUnsigned": "llvm.Sub", "vkFloat": "llvm.FSub"},
	"MUL": {"vkSigned": "llvm.Mul", "vkUnsigned": "llvm.Mul", "vkFloat": "llvm.FMul"},
	"QUO": {"vkSigned": "llvm.SDiv", "vkUnsigned": "llvm.UDiv", "vkFloat": "llvm.FDiv"},
	"REM": {"vkSigned": "llvm.SRem", "vkUnsigned": "llvm.URem", "vkFloat": "llvm.FRem"},
}
var oracleLogic = map[string]string{"AND": "llvm.And", "OR": "llvm.Or", "XOR": "llvm.Xor", "SHL": "llvm.Shl", "SHR": "llvm.AShr"}
var oraclePred = map[string]map[string]string{
	"intPredOpToLLVM":   {"EQL": "llvm.IntEQ", "NEQ": "llvm.IntNE", "LSS": "llvm.IntSLT", "LEQ": "llvm.IntSLE", "GTR": "llvm.IntSGT", "GEQ": "llvm.IntSGE"},
	"uintPredOpToLLVM":  {"EQL": "llvm.IntEQ", "NEQ": "llvm.IntNE", "LSS": "llvm.IntULT", "LEQ": "llvm.IntULE", "GTR": "llvm.IntUGT", "GEQ": "llvm.IntUGE"},
	"floatPredOpToLLVM": {"EQL": "llvm.FloatOEQ", "NEQ": "llvm.FloatUNE", "LSS": "llvm.FloatOLT", "LEQ": "llvm.FloatOLE", "GTR": "llvm.FloatOGT", "GEQ": "llvm.FloatOGE"},
	"boolPredOpToLLVM":  {"EQL": "llvm.IntEQ", "NEQ": "llvm.IntNE"},
}
var predTableOfKind = map[string]string{"vkSigned": "intPredOpToLLVM", "vkUnsigned": "uintPredOpToLLVM", "vkPtr": "uintPredOpToLLVM", "vkFloat": "floatPredOpToLLVM", "vkBool": "boolPredOpToLLVM",
	// pointer-shaped values: only == and != are admitted by go/types, both tables agree on those rows
	"vkFuncPtr": "uintPredOpToLLVM", "vkFuncDecl": "uintPredOpToLLVM", "vkChan": "uintPredOpToLLVM", "vkMap": "uintPredOpToLLVM", "vkClosure": "uintPredOpToLLVM"}
var predCreateOfTable = map[string]string{"intPredOpToLLVM": "llvm.Builder.CreateICmp", "uintPredOpToLLVM": "llvm.Builder.CreateICmp", "boolPredOpToLLVM": "llvm.Builder.CreateICmp", "floatPredOpToLLVM": "llvm.Builder.CreateFCmp"}

func tokenByValue(v int64) string { return strings.ToUpper(tokenName(token.Token(v))) }

func tokenName(t token.Token) string {
	names := map[token.Token]string{token.ADD: "ADD", token.SUB: "SUB", token.MUL: "MUL", token.QUO: "QUO", token.REM: "REM",
		token.AND: "AND", token.OR: "OR", token.XOR: "XOR", token.SHL: "SHL", token.SHR: "SHR", token.AND_NOT: "AND_NOT",
		token.EQL: "EQL", token.NEQ: "NEQ", token.LSS: "LSS", token.LEQ: "LEQ", token.GTR: "GTR", token.GEQ: "GEQ"}
	if n, ok := names[t]; ok {
		return n
	}
	return fmt.Sprintf("token(%d)", int(t))
}

// tableRows decodes a package-level table literal into key(int) -> value constant name.
func tableRows(p *packages.Package, name string) (map[int64]string, *ast.CompositeLit, string) {
	cl := pkgVarLit(p, name)
	if cl == nil {
		return nil, nil, "table not found"
	}
	rows := map[int64]string{}
	for _, el := range cl.Elts {
		kv, ok := el.(*ast.KeyValueExpr)
		if !ok {
			return nil, cl, "positional element (keys must be explicit)"
		}
		k, ok := constInt(p.TypesInfo, kv.Key)
		if !ok {
			return nil, cl, "non-constant key " + exprStr(kv.Key)
		}
		if _, dup := rows[k]; dup {
			return nil, cl, fmt.Sprintf("duplicate key %d", k)
		}
		rows[k] = llname(objName(usedObj(p.TypesInfo, kv.Value)))
	}
	return rows, cl, ""
}

func checkC02(c *Ctx) (string, error) {
	w, err := loadMain(defaultCfg, "ssa")
	if err != nil {
		return "", err
	}
	c.use(w)
	p := w.Main("ssa")
	info := p.TypesInfo

	c.Rule("R02.1", "operator tables equal the Go-spec -> LLVM opcode/predicate relation, are indexed with their own base, and each operand kind uses the table of its signedness", 46)
	c.Rule("R02.2", "every basic kind maps to the LLVM integer width and signedness class Go defines", 17)
	c.Rule("R02.3", "BinOp guards: zero-divisor check, minInt/-1 select, shift-count >= width select, negative-count check", 10)
	c.Rule("R02.4", "a shift count is compared with the operand width before any narrowing conversion", 1)
	c.Rule("R02.5", "integer conversion extends by the SOURCE type's signedness and truncates iff the source is wider; every caller passes the operand's own type", 8)
	c.Rule("R02.6", "runtime assert helpers panic exactly when their flag is true", 5)

	vk := func(name string) int64 { v, _ := pkgConst(p.Types, name); return v }

	// ---------------------------------------------------------------- R02.1
	bases := map[string]string{"mathOpBase": "ADD", "mathOpLast": "REM", "logicOpBase": "AND", "logicOpLast": "AND_NOT", "predOpBase": "EQL", "predOpLast": "GEQ"}
	for cn, want := range bases {
		v, ok := pkgConst(p.Types, cn)
		got := tokenName(token.Token(v))
		c.Check(ok && got == want, "R02.1", "const "+cn, 0, cn+" = token."+want, fmt.Sprintf("%s = token.%s, expected token.%s", cn, got, want))
	}
	mathBase, _ := pkgConst(p.Types, "mathOpBase")
	logicBase, _ := pkgConst(p.Types, "logicOpBase")
	predBase, _ := pkgConst(p.Types, "predOpBase")

	// math table
	if rows, cl, why := tableRows(p, "mathOpToLLVM"); why != "" {
		c.Undecided("R02.1", "mathOpToLLVM", 0, why)
	} else {
		kindName := map[int64]string{vk("vkSigned"): "vkSigned", vk("vkUnsigned"): "vkUnsigned", vk("vkFloat"): "vkFloat"}
		seen := map[string]bool{}
		for k, val := range rows {
			op := tokenName(token.Token(k>>2 + mathBase))
			kn, okKind := kindName[k&3]
			key := fmt.Sprintf("mathOpToLLVM[%s,%s]", op, kn)
			want := oracleMath[op][kn]
			if !okKind || want == "" {
				c.Bad("R02.1", fmt.Sprintf("mathOpToLLVM[key %d]", k), cl.Pos(), "row outside the (op, numeric kind) domain: "+val)
				continue
			}
			seen[op+kn] = true
			c.Check(val == want, "R02.1", key, cl.Pos(), val, fmt.Sprintf("table has %s, Go semantics require %s", val, want))
		}
		for op, m := range oracleMath {
			for kn := range m {
				if !seen[op+kn] {
					c.Bad("R02.1", fmt.Sprintf("mathOpToLLVM[%s,%s]", op, kn), cl.Pos(), "row missing: operator falls through BinOp without a value")
				}
			}
		}
	}
	// mathOpIdx must be (op-base)<<2 | kind
	if fd := findFunc(p, "mathOpIdx"); fd != nil && len(fd.Body.List) == 1 {
		okIdx := false
		if ret, ok := fd.Body.List[0].(*ast.ReturnStmt); ok && len(ret.Results) == 1 {
			s := strings.ReplaceAll(exprStr(ret.Results[0]), " ", "")
			okIdx = s == "int(op-mathOpBase)<<2|x"
			if !okIdx {
				// evaluate on the domain instead of matching text: substitute constants
				okIdx = evalIdxFn(info, fd, ret.Results[0], mathBase)
			}
		}
		c.Check(okIdx, "R02.1", "mathOpIdx", fd.Pos(), "index = (op-base)<<2 | kind, as the table keys", "index function disagrees with the table's key encoding")
	} else {
		c.Undecided("R02.1", "mathOpIdx", 0, "function not found or not a single return")
	}
	// logic table
	if rows, cl, why := tableRows(p, "logicOpToLLVM"); why != "" {
		c.Undecided("R02.1", "logicOpToLLVM", 0, why)
	} else {
		seen := map[string]bool{}
		for k, val := range rows {
			op := tokenName(token.Token(k + logicBase))
			want, ok := oracleLogic[op]
			if !ok {
				c.Bad("R02.1", "logicOpToLLVM["+op+"]", cl.Pos(), "unexpected row "+val)
				continue
			}
			seen[op] = true
			c.Check(val == want, "R02.1", "logicOpToLLVM["+op+"]", cl.Pos(), val, fmt.Sprintf("table has %s, Go semantics require %s", val, want))
		}
		for op := range oracleLogic {
			if !seen[op] {
				c.Bad("R02.1", "logicOpToLLVM["+op+"]", cl.Pos(), "row missing")
			}
		}
	}
	for tn, orc := range oraclePred {
		rows, cl, why := tableRows(p, tn)
		if why != "" {
			c.Undecided("R02.1", tn, 0, why)
			continue
		}
		seen := map[string]bool{}
		for k, val := range rows {
			op := tokenName(token.Token(k + predBase))
			want, ok := orc[op]
			if !ok {
				c.Bad("R02.1", tn+"["+op+"]", cl.Pos(), "unexpected row "+val)
				continue
			}
			seen[op] = true
			c.Check(val == want, "R02.1", tn+"["+op+"]", cl.Pos(), val, fmt.Sprintf("table has %s, Go semantics require %s", val, want))
		}
		for op := range orc {
			if !seen[op] {
				c.Bad("R02.1", tn+"["+op+"]", cl.Pos(), "row missing")
			}
		}
	}
	// index sites and kind -> table mapping in BinOp
	binop := findFunc(p, "Builder.BinOp")
	if binop == nil {
		return "", fmt.Errorf("ssa.Builder.BinOp not found")
	}
	c.nfuncs++
	bv := newFnView(p, binop)
	tableBase := map[string]string{"logicOpToLLVM": "logicOpBase", "intPredOpToLLVM": "predOpBase", "uintPredOpToLLVM": "predOpBase", "floatPredOpToLLVM": "predOpBase", "boolPredOpToLLVM": "predOpBase"}
	for _, fd := range allFuncs(p) {
		ast.Inspect(fd.Body, func(n ast.Node) bool {
			ix, ok := n.(*ast.IndexExpr)
			if !ok {
				return true
			}
			id, ok := ix.X.(*ast.Ident)
			if !ok {
				return true
			}
			tn := id.Name
			if o := info.Uses[id]; o == nil || o.Parent() != p.Types.Scope() {
				return true
			}
			key := fmt.Sprintf("%s index %s[%s]", declName(fd), tn, strings.ReplaceAll(exprStr(ix.Index), " ", ""))
			if base, isT := tableBase[tn]; isT {
				be, ok := ast.Unparen(ix.Index).(*ast.BinaryExpr)
				good := ok && be.Op == token.SUB && objName(usedObj(info, be.Y)) == "ssa."+base
				if good {
					if xid, ok := ast.Unparen(be.X).(*ast.Ident); !ok || xid.Name != "op" {
						good = false
					}
				}
				c.Check(good, "R02.1", key, ix.Pos(), "indexed with op-"+base, "table indexed with something other than op-"+base)
			} else if tn == "mathOpToLLVM" {
				good := false
				lv := newFnView(p, fd)
				if name, args, ok := lv.call(ix.Index); ok && name == "ssa.mathOpIdx" && len(args) == 2 {
					a0, ok0 := ast.Unparen(args[0]).(*ast.Ident)
					good = ok0 && a0.Name == "op" && kindOfOperandX(lv, args[1])
				}
				c.Check(good, "R02.1", key, ix.Pos(), "indexed with mathOpIdx(op, x.kind)", "math table indexed with something other than mathOpIdx(op, kind of the left operand)")
			}
			return true
		})
	}
	// kind -> predicate table mapping
	for _, ix := range collectIndexExprs(binop.Body) {
		id, ok := ix.X.(*ast.Ident)
		if !ok {
			continue
		}
		if _, isPred := oraclePred[id.Name]; !isPred {
			continue
		}
		cases := enclosingCases(binop.Body, ix)
		if len(cases) == 0 {
			c.Undecided("R02.1", "BinOp kind->"+id.Name, ix.Pos(), "predicate table used outside a kind switch")
			continue
		}
		var cc *ast.CaseClause
		var kinds []string
		for i := len(cases) - 1; i >= 0 && cc == nil; i-- {
			for _, e := range cases[i].List {
				if k := objName(usedObj(info, e)); strings.HasPrefix(k, "ssa.vk") {
					kinds = append(kinds, strings.TrimPrefix(k, "ssa."))
					cc = cases[i]
				}
			}
		}
		if cc == nil {
			c.Undecided("R02.1", "BinOp kind->"+id.Name, ix.Pos(), "predicate table used outside a kind switch")
			continue
		}
		sort.Strings(kinds)
		for _, k := range kinds {
			want := predTableOfKind[k]
			c.Check(want == id.Name, "R02.1", "BinOp compare kind "+k, ix.Pos(), "uses "+id.Name, fmt.Sprintf("operands of kind %s are compared with %s, Go semantics require %s", k, id.Name, want))
		}
		// the predicate must feed the matching compare instruction
		wantCreate := predCreateOfTable[id.Name]
		found := false
		ast.Inspect(cc, func(n ast.Node) bool {
			if call, ok := n.(*ast.CallExpr); ok {
				if name, args, ok := bv.call(call); ok && name == wantCreate && len(args) >= 3 {
					if ast.Unparen(bv.res(args[0])) == ast.Expr(ix) {
						found = bv.isSel(args[1], "x", "impl") && bv.isSel(args[2], "y", "impl")
					}
				}
			}
			return true
		})
		c.Check(found, "R02.1", "BinOp compare emits "+id.Name, ix.Pos(), wantCreate+"(pred, x.impl, y.impl)", "predicate does not feed "+wantCreate+"(pred, x, y) in operand order")
	}

	// ---------------------------------------------------------------- R02.2
	checkBasicKinds(c, p)

	// ---------------------------------------------------------------- R02.3 / R02.4
	checkBinOpGuards(c, p, binop, bv, vk)

	// ---------------------------------------------------------------- R02.5
	checkCasts(c, p)
	checkIntToFloat(c, p)
	checkFloatNegation(c, p)

	// ---------------------------------------------------------------- R02.6 (runtime module)
	rw, err := loadRT(defaultCfg, "internal/runtime")
	if err != nil {
		return "", err
	}
	c.use(rw)
	rp := rw.RT("internal/runtime")
	for _, name := range []string{"AssertDivideByZero", "AssertNegativeShift", "AssertIndexRange", "AssertNilDeref", "AssertRuntimeError"} {
		checkAssertHelper(c, "R02.6", rp, name)
	}
	c.use(w)

	return "C02 (structural): the six operator tables of ssa/expr.go are constant-evaluated and compared row by row with the Go-spec->LLVM relation (signed/unsigned/float opcodes and predicates), their index sites and the kind->table dispatch are checked; every basic kind's LLVM width/signedness class is compared with go/types; BinOp's guards are matched as emission templates and path conditions (zero-divisor assert over the exact op x kind domain, minInt/-1 select, count>=width select with IntUGE on the un-narrowed count, negative-count assert); castInt's truncate/extend decision and all its callers' source-type arguments (flow-sensitively: the operand's type as it was before any overwrite); integer->float conversion as one instruction to the destination width; the runtime assert helpers. NOT decided: float/complex rounding (Complex128Div), float->int of unrepresentable values, what LLVM computes for an instruction.", nil
}

func collectIndexExprs(n ast.Node) []*ast.IndexExpr {
	var out []*ast.IndexExpr
	ast.Inspect(n, func(x ast.Node) bool {
		if ix, ok := x.(*ast.IndexExpr); ok {
			out = append(out, ix)
		}
		return true
	})
	return out
}

// kindOfOperandX: e resolves to x.kind (possibly through a local "kind := x.kind").
func kindOfOperandX(v *fnView, e ast.Expr) bool {
	return v.isSel(e, "x", "kind")
}

func evalIdxFn(info *types.Info, fd *ast.FuncDecl, e ast.Expr, base int64) bool {
	// accept any expression that evaluates like (op-base)<<2|x on the 5x3 domain
	var names []string
	for _, f := range fd.Type.Params.List {
		for _, n := range f.Names {
			names = append(names, n.Name)
		}
	}
	if len(names) != 2 {
		return false
	}
	for op := int64(0); op < 5; op++ {
		for k := int64(1); k <= 3; k++ {
			v, ok := evalArith(info, e, map[string]int64{names[0]: base + op, names[1]: k})
			if !ok || v != op<<2|k {
				return false
			}
		}
	}
	return true
}

func evalArith(info *types.Info, e ast.Expr, env map[string]int64) (int64, bool) {
	e = ast.Unparen(e)
	if v, ok := constInt(info, e); ok {
		return v, true
	}
	switch x := e.(type) {
	case *ast.Ident:
		v, ok := env[x.Name]
		return v, ok
	case *ast.CallExpr: // conversion int(...)
		if len(x.Args) == 1 {
			if tv, ok := info.Types[x.Fun]; ok && tv.IsType() {
				return evalArith(info, x.Args[0], env)
			}
		}
	case *ast.BinaryExpr:
		a, ok1 := evalArith(info, x.X, env)
		b, ok2 := evalArith(info, x.Y, env)
		if !ok1 || !ok2 {
			return 0, false
		}
		switch x.Op {
		case token.ADD:
			return a + b, true
		case token.SUB:
			return a - b, true
		case token.MUL:
			return a * b, true
		case token.SHL:
			return a << uint(b), true
		case token.OR:
			return a | b, true
		case token.AND:
			return a & b, true
		}
	}
	return 0, false
}

// ---------------------------------------------------------------------------

func checkBasicKinds(c *Ctx, p *packages.Package) {
	info := p.TypesInfo
	fd := findFunc(p, "Program.toType")
	if fd == nil {
		c.Undecided("R02.2", "Program.toType", 0, "function not found")
		return
	}
	c.nfuncs++
	// width of p.tyIntN(): look into the helper for ctx.IntNType()
	helperWidth := func(call *ast.CallExpr) string {
		f := calleeOf(info, call)
		if f == nil {
			return ""
		}
		switch f.Name() {
		case "FloatType":
			return "f32"
		case "DoubleType":
			return "f64"
		}
		hd := findFunc(p, "Program."+f.Name())
		if hd == nil {
			return ""
		}
		w := ""
		ast.Inspect(hd.Body, func(n ast.Node) bool {
			if cc, ok := n.(*ast.CallExpr); ok {
				if g := calleeOf(info, cc); g != nil {
					switch llname(shortName(g)) {
					case "llvm.Context.Int1Type":
						w = "i1"
					case "llvm.Context.Int8Type":
						w = "i8"
					case "llvm.Context.Int16Type":
						w = "i16"
					case "llvm.Context.Int32Type":
						w = "i32"
					case "llvm.Context.Int64Type":
						w = "i64"
					case "ssa.llvmIntType":
						if len(cc.Args) == 2 && strings.Contains(exprStr(cc.Args[1]), "PointerSize") {
							w = "word"
						}
					}
				}
			}
			return true
		})
		return w
	}
	std := types.StdSizes{WordSize: 8, MaxAlign: 8}
	seen := map[types.BasicKind]bool{}
	ast.Inspect(fd.Body, func(n ast.Node) bool {
		cc, ok := n.(*ast.CaseClause)
		if !ok || len(cc.Body) != 1 {
			return true
		}
		ret, ok := cc.Body[0].(*ast.ReturnStmt)
		if !ok || len(ret.Results) != 1 {
			return true
		}
		u, ok := ret.Results[0].(*ast.UnaryExpr)
		if !ok {
			return true
		}
		cl, ok := u.X.(*ast.CompositeLit)
		if !ok || len(cl.Elts) != 3 {
			return true
		}
		for _, ke := range cc.List {
			o, ok := usedObj(info, ke).(*types.Const)
			if !ok || o.Pkg() == nil || o.Pkg().Path() != "go/types" {
				continue
			}
			kv, _ := constValInt(o)
			bk := types.BasicKind(kv)
			bt := types.Typ[bk]
			seen[bk] = true
			key := "toType " + bt.Name()
			gotKind := strings.TrimPrefix(objName(usedObj(info, cl.Elts[2])), "ssa.")
			gotW := ""
			if call, ok := cl.Elts[0].(*ast.CallExpr); ok {
				gotW = helperWidth(call)
			}
			var wantKind, wantW string
			bi := bt.Info()
			switch {
			case bi&types.IsBoolean != 0:
				wantKind, wantW = "vkBool", "i1"
			case bi&types.IsUnsigned != 0:
				wantKind = "vkUnsigned"
			case bi&types.IsInteger != 0:
				wantKind = "vkSigned"
			case bi&types.IsFloat != 0:
				wantKind = "vkFloat"
				wantW = fmt.Sprintf("f%d", std.Sizeof(bt)*8)
			case bi&types.IsComplex != 0:
				wantKind, wantW = "vkComplex", "*"
			case bi&types.IsString != 0:
				wantKind, wantW = "vkString", "*"
			case bk == types.UnsafePointer:
				wantKind, wantW = "vkPtr", "*"
			}
			if bi&types.IsInteger != 0 {
				if bk == types.Int || bk == types.Uint || bk == types.Uintptr {
					wantW = "word"
				} else {
					wantW = fmt.Sprintf("i%d", std.Sizeof(bt)*8)
				}
			}
			okW := wantW == "*" || gotW == wantW
			c.Check(gotKind == wantKind && okW, "R02.2", key, cc.Pos(), fmt.Sprintf("%s %s", gotW, gotKind),
				fmt.Sprintf("lowered as (%s, %s), Go defines (%s, %s)", gotW, gotKind, wantW, wantKind))
		}
		return true
	})
	for _, bk := range []types.BasicKind{types.Bool, types.Int, types.Int8, types.Int16, types.Int32, types.Int64, types.Uint, types.Uint8, types.Uint16, types.Uint32, types.Uint64, types.Uintptr, types.Float32, types.Float64, types.Complex64, types.Complex128, types.String, types.UnsafePointer} {
		if !seen[bk] {
			c.Bad("R02.2", "toType "+types.Typ[bk].Name(), fd.Pos(), "basic kind has no arm: falls to the panic at the end of toType")
		}
	}
	// llvmIntType: <= 4 bytes -> i32 else i64
	if hd := findFunc(p, "llvmIntType"); hd != nil {
		ok := false
		if len(hd.Body.List) == 2 {
			if is, isIf := hd.Body.List[0].(*ast.IfStmt); isIf {
				x, y, op, cmp := binCmp(is.Cond)
				if cmp && exprStr(x) == "size" {
					v, _ := constInt(info, y)
					thenW, elseW := "", ""
					ast.Inspect(is.Body, func(n ast.Node) bool {
						if cc, ok := n.(*ast.CallExpr); ok {
							if g := calleeOf(info, cc); g != nil {
								thenW = g.Name()
							}
						}
						return true
					})
					ast.Inspect(hd.Body.List[1], func(n ast.Node) bool {
						if cc, ok := n.(*ast.CallExpr); ok {
							if g := calleeOf(info, cc); g != nil {
								elseW = g.Name()
							}
						}
						return true
					})
					ok = ((op == token.LEQ && v == 4) || (op == token.LSS && (v == 5 || v == 8))) && thenW == "Int32Type" && elseW == "Int64Type"
				}
			}
		}
		c.Check(ok, "R02.2", "llvmIntType word width", hd.Pos(), "pointer size <= 4 -> i32, else i64", "word-sized integers do not follow the target pointer size")
	} else {
		c.Undecided("R02.2", "llvmIntType word width", 0, "function not found")
	}
}

// ---------------------------------------------------------------------------

func checkBinOpGuards(c *Ctx, p *packages.Package, binop *ast.FuncDecl, bv *fnView, vk func(string) int64) {
	info := p.TypesInfo
	g := buildCFG(p, binop)

	// (a) zero-divisor assert
	asserts := bv.findRTCalls(binop.Body, "AssertDivideByZero")
	if len(asserts) != 1 {
		c.Bad("R02.3", "BinOp zero-divisor assert", binop.Pos(), fmt.Sprintf("%d AssertDivideByZero call sites in BinOp (expected 1)", len(asserts)))
	} else {
		as := asserts[0]
		_, args, _ := bv.rtCall(as)
		// argument: Expr{ICmp(IntEQ, y.impl, ConstInt(y.ll, 0))}
		okArg := false
		var isZeroExpr ast.Expr
		if len(args) == 1 {
			if cl, ok := bv.res(args[0]).(*ast.CompositeLit); ok && len(cl.Elts) >= 1 {
				isZeroExpr = cl.Elts[0]
				if name, a, ok := bv.call(cl.Elts[0]); ok && name == "llvm.Builder.CreateICmp" && len(a) >= 3 {
					if bv.constName(a[0]) == "llvm.IntEQ" && bv.isSel(a[1], "y", "impl") {
						if n2, a2, ok := bv.call(a[2]); ok && n2 == "llvm.ConstInt" && len(a2) >= 2 {
							if v, isC := constInt(info, a2[1]); isC && v == 0 && bv.isSel(a2[0], "y", "ll") {
								okArg = true
							}
						}
					}
				}
			}
		}
		c.Check(okArg, "R02.3", "BinOp zero-divisor assert argument", as.Pos(), "AssertDivideByZero(icmp eq y, 0)", "the asserted flag is not (divisor == 0)")
		// enclosing conditions: if needsCheck { ... } inside if (op==QUO||op==REM) && (kind==signed||kind==unsigned)
		var ifs []*ast.IfStmt
		for _, n := range enclosingStmts(binop.Body, as) {
			if is, ok := n.(*ast.IfStmt); ok {
				ifs = append(ifs, is)
			}
		}
		domainOK, needsOK := false, false
		var needsVar types.Object
		for _, is := range ifs {
			// domain test
			allRight, decided := true, true
			for _, op := range []token.Token{token.ADD, token.SUB, token.MUL, token.QUO, token.REM} {
				for _, kn := range []string{"vkSigned", "vkUnsigned", "vkFloat"} {
					v, ok := evalBool(info, is.Cond, map[string]int64{"op": int64(op), "kind": vk(kn)})
					if !ok {
						decided = false
						continue
					}
					want := (op == token.QUO || op == token.REM) && kn != "vkFloat"
					if v != want {
						allRight = false
					}
				}
			}
			if decided {
				domainOK = allRight
				if !allRight {
					c.Bad("R02.3", "BinOp zero-divisor domain", is.Pos(), "the zero-divisor check is not applied for exactly {/,%} x {signed,unsigned}: "+exprStr(is.Cond))
				}
				continue
			}
			if id, ok := ast.Unparen(is.Cond).(*ast.Ident); ok {
				needsVar = info.Uses[id]
				// defs of needsCheck: true, or (const y value == 0) under a non-nil constant test
				defs := bv.defs[needsVar]
				needsOK = len(defs) >= 1
				for _, d := range defs {
					if d == nil {
						needsOK = false
						continue
					}
					if tv, ok := info.Types[d]; ok && tv.Value != nil {
						if tv.Value.ExactString() != "true" {
							needsOK = false
						}
						continue
					}
					x, y, op, ok := binCmp(d)
					if !ok || op != token.EQL {
						needsOK = false
						continue
					}
					v, isC := constInt(info, y)
					if !isC || v != 0 || !strings.Contains(exprStr(x), "ZExtValue") && !strings.Contains(exprStr(x), "SExtValue") {
						needsOK = false
					}
				}
			}
		}
		c.Check(domainOK, "R02.3", "BinOp zero-divisor domain", as.Pos(), "checked for exactly {QUO,REM} x {signed,unsigned} (evaluated on the 5x3 op x kind domain)", "no enclosing condition selects exactly integer division/remainder")
		c.Check(needsOK, "R02.3", "BinOp zero-divisor check elided only for non-zero constants", as.Pos(), "needsCheck is true unless the divisor is a constant, then (const == 0)", "the zero-divisor check can be skipped for a divisor that is not a non-zero constant")
		// the unguarded CreateBinOp(llop, x.impl, y.impl) must be reachable only when no check was needed:
		// safeY is set in the same block as the assert, and the plain form is behind !safeY.IsNil() == false
		safeSet := false
		if isZeroExpr != nil && len(ifs) > 0 {
			inner := ifs[len(ifs)-1]
			for _, st := range inner.Body.List {
				if a, ok := st.(*ast.AssignStmt); ok && len(a.Lhs) == 1 && exprStr(a.Lhs[0]) == "safeY" {
					if name, sa, ok := bv.call(a.Rhs[0]); ok && name == "llvm.Builder.CreateSelect" && len(sa) >= 3 {
						// select(isZero, 1, y)
						if n2, a2, ok := bv.call(sa[1]); ok && n2 == "llvm.ConstInt" {
							if v, isC := constInt(info, a2[1]); isC && v == 1 && bv.isSel(sa[2], "y", "impl") && exprStr(ast.Unparen(sa[0])) == "isZero" {
								safeSet = true
							}
						}
					}
				}
			}
		}
		c.Check(safeSet, "R02.3", "BinOp zero-safe divisor", as.Pos(), "safeY = select(y==0, 1, y) next to the assert", "no zero-safe divisor is produced with the check (hardware traps before the panic)")
		// all integer div/rem CreateBinOp sites: divisor operand is safeY, or y.impl only on the safeY.IsNil() path
		for i, call := range bv.findCalls(binop.Body, "llvm.Builder.CreateBinOp") {
			_, a, _ := bv.call(call)
			if len(a) < 3 {
				continue
			}
			// only opcodes taken from the math table (the logic arm has its own llop)
			if ix, ok := bv.res(a[0]).(*ast.IndexExpr); !ok || exprStr(ix.X) != "mathOpToLLVM" {
				continue
			}
			key := fmt.Sprintf("BinOp math emit #%d divisor", i+1)
			dv := exprStr(ast.Unparen(a[2]))
			switch dv {
			case "safeY":
				c.OK("R02.3", key, call.Pos(), "divides by the guarded divisor safeY")
			case "y.impl":
				// must be dominated by the false edge of !safeY.IsNil()
				dom, found := g.dominatedBy(call, func(n ast.Node) bool { return false }, func(b *cfgBlk, k int) bool {
					if ce := condOf(b); ce != nil && strings.ReplaceAll(exprStr(ce), " ", "") == "!safeY.IsNil()" {
						return k == 0 // follow only the "safeY set" edge: the site must then be unreachable
					}
					return true
				})
				c.Check(found && dom, "R02.3", key, call.Pos(), "raw divisor used only when safeY is nil (no check needed)", "the unchecked divisor reaches the instruction although a zero-safe divisor was computed")
			default:
				c.Undecided("R02.3", key, call.Pos(), "unrecognised divisor operand "+dv)
			}
		}
	}

	// (b) minInt / -1
	{
		var ovIf *ast.IfStmt
		ast.Inspect(binop.Body, func(n ast.Node) bool {
			if is, ok := n.(*ast.IfStmt); ok {
				if id, ok := ast.Unparen(is.Cond).(*ast.Ident); ok && id.Name == "needsOverflowCheck" && len(is.Body.List) > 3 {
					ovIf = is
				}
			}
			return true
		})
		if ovIf == nil {
			c.Bad("R02.3", "BinOp minInt/-1 lowering", binop.Pos(), "no overflow-safe lowering block found for signed / and %")
		} else {
			ov := newFnView(p, binop)
			// overflow = and(icmp eq x, minInt, icmp eq y, allones)
			okCond := false
			okSel := 0
			ast.Inspect(ovIf.Body, func(n ast.Node) bool {
				a, ok := n.(*ast.AssignStmt)
				if !ok || len(a.Lhs) != 1 {
					return true
				}
				lhs := exprStr(a.Lhs[0])
				name, args, ok := ov.call(a.Rhs[0])
				if !ok {
					return true
				}
				if lhs == "overflow" && name == "llvm.Builder.CreateAnd" && len(args) >= 2 {
					n1, a1, ok1 := ov.call(args[0])
					n2, a2, ok2 := ov.call(args[1])
					if ok1 && ok2 && n1 == "llvm.Builder.CreateICmp" && n2 == "llvm.Builder.CreateICmp" &&
						ov.constName(a1[0]) == "llvm.IntEQ" && ov.constName(a2[0]) == "llvm.IntEQ" &&
						ov.isSel(a1[1], "x", "impl") && ov.isSel(a2[1], "y", "impl") {
						if nn, _, ok := ov.call(a2[2]); ok && nn == "llvm.ConstAllOnes" {
							if nm, am, ok := ov.call(a1[2]); ok && nm == "llvm.ConstInt" && exprStr(ast.Unparen(am[1])) == "minIntVal" {
								okCond = true
							}
						}
					}
				}
				if lhs == "v" && name == "llvm.Builder.CreateSelect" && len(args) >= 3 && exprStr(ast.Unparen(args[0])) == "overflow" {
					// QUO: select(overflow, x, v); REM: select(overflow, 0, v)
					cases := enclosingStmts(ovIf.Body, a)
					inQuo := false
					for _, e := range cases {
						if is, ok := e.(*ast.IfStmt); ok && is != ovIf {
							if v, ok := evalBool(info, is.Cond, map[string]int64{"op": int64(token.QUO)}); ok && v && within(is.Body, a) {
								inQuo = true
							}
						}
					}
					if inQuo && ov.isSel(args[1], "x", "impl") {
						okSel++
					}
					if !inQuo {
						if nm, am, ok := ov.call(args[1]); ok && nm == "llvm.ConstInt" {
							if v, isC := constInt(info, am[1]); isC && v == 0 {
								okSel++
							}
						}
					}
				}
				return true
			})
			c.Check(okCond, "R02.3", "BinOp minInt/-1 condition", ovIf.Pos(), "overflow = (x == minInt) & (y == -1)", "the overflow case is not recognised as x == minInt && y == -1")
			c.Check(okSel == 2, "R02.3", "BinOp minInt/-1 results", ovIf.Pos(), "quotient selects x, remainder selects 0", "the Go-defined results (minInt, 0) are not selected in the overflow case")
			// minIntVal = 1 << (bits-1)
			okMin := false
			for _, d := range bv.allDefs(&ast.Ident{Name: "minIntVal"}) {
				_ = d
			}
			ast.Inspect(binop.Body, func(n ast.Node) bool {
				if a, ok := n.(*ast.AssignStmt); ok && len(a.Lhs) == 1 && exprStr(a.Lhs[0]) == "minIntVal" {
					if strings.ReplaceAll(exprStr(a.Rhs[0]), " ", "") == "uint64(1)<<(bits-1)" {
						okMin = true
					}
				}
				return true
			})
			c.Check(okMin, "R02.3", "BinOp minInt value", ovIf.Pos(), "minInt = 1 << (bits-1)", "minInt is not computed as 1 << (width-1)")
			// elision: needsOverflowCheck defs: false(init) / true / const tests == -1, == minIntVal; condition domain signed QUO/REM
			okDom := false
			ast.Inspect(binop.Body, func(n ast.Node) bool {
				is, ok := n.(*ast.IfStmt)
				if !ok || len(is.Body.List) == 0 {
					return true
				}
				if a, ok := is.Body.List[0].(*ast.AssignStmt); ok && len(a.Lhs) == 1 && exprStr(a.Lhs[0]) == "needsOverflowCheck" && exprStr(a.Rhs[0]) == "true" {
					all := true
					for _, op := range []token.Token{token.ADD, token.SUB, token.MUL, token.QUO, token.REM} {
						for _, kn := range []string{"vkSigned", "vkUnsigned", "vkFloat"} {
							v, ok := evalBool(info, is.Cond, map[string]int64{"op": int64(op), "kind": vk(kn)})
							if !ok || v != ((op == token.QUO || op == token.REM) && kn == "vkSigned") {
								all = false
							}
						}
					}
					okDom = all
				}
				return true
			})
			c.Check(okDom, "R02.3", "BinOp minInt/-1 domain", ovIf.Pos(), "applied for exactly {QUO,REM} x signed", "overflow lowering is not applied for exactly signed / and %")
			okElide := true
			for _, d := range bv.allDefs(&ast.Ident{Name: "needsOverflowCheck"}) {
				_ = d
			}
			ast.Inspect(binop.Body, func(n ast.Node) bool {
				if a, ok := n.(*ast.AssignStmt); ok && len(a.Lhs) == 1 && exprStr(a.Lhs[0]) == "needsOverflowCheck" {
					s := strings.ReplaceAll(exprStr(a.Rhs[0]), " ", "")
					switch s {
					case "false", "true", "rv.SExtValue()==-1", "rv.ZExtValue()==minIntVal":
					default:
						okElide = false
					}
					if s == "false" && a.Tok != token.DEFINE {
						okElide = false
					}
				}
				return true
			})
			c.Check(okElide, "R02.3", "BinOp minInt/-1 elided only for excluding constants", ovIf.Pos(), "skipped only when a constant divisor != -1 or constant dividend != minInt", "the overflow lowering can be skipped for operands that may be minInt and -1")
		}
	}

	// (c)/(d) shifts
	var shiftCase *ast.CaseClause
	ast.Inspect(binop.Body, func(n ast.Node) bool {
		if cc, ok := n.(*ast.CaseClause); ok && len(cc.List) == 2 {
			a, b := objName(usedObj(info, cc.List[0])), objName(usedObj(info, cc.List[1]))
			if (a == "go/token.SHL" && b == "go/token.SHR") || (a == "go/token.SHR" && b == "go/token.SHL") {
				shiftCase = cc
			}
		}
		return true
	})
	if shiftCase == nil {
		c.Bad("R02.3", "BinOp shift arm", binop.Pos(), "no case token.SHL, token.SHR arm")
		return
	}
	// overflows := icmp uge y, xsize*8
	var ovDef *ast.AssignStmt
	ast.Inspect(shiftCase, func(n ast.Node) bool {
		if a, ok := n.(*ast.AssignStmt); ok && len(a.Lhs) == 1 && exprStr(a.Lhs[0]) == "overflows" {
			ovDef = a
		}
		return true
	})
	okOv := false
	if ovDef != nil {
		if name, a, ok := bv.call(ovDef.Rhs[0]); ok && name == "llvm.Builder.CreateICmp" && len(a) >= 3 {
			if bv.constName(a[0]) == "llvm.IntUGE" && exprStr(ast.Unparen(a[1])) == "y.impl" {
				if n2, a2, ok := bv.call(a[2]); ok && n2 == "llvm.ConstInt" && len(a2) >= 2 {
					s := strings.ReplaceAll(exprStr(a2[1]), " ", "")
					if (s == "xsize*8" || s == "8*xsize") && exprStr(ast.Unparen(a2[0])) == "y.ll" {
						// xsize must be the size of the shifted operand
						for _, n := range shiftCase.Body {
							if as, ok := n.(*ast.AssignStmt); ok && len(as.Lhs) >= 1 && exprStr(as.Lhs[0]) == "xsize" {
								if strings.Contains(strings.ReplaceAll(exprStr(as.Rhs[0]), " ", ""), "SizeOf(x.Type)") {
									okOv = true
								}
							}
						}
					}
				}
			}
		}
	}
	if ovDef == nil {
		c.Bad("R02.3", "BinOp shift overflow predicate", shiftCase.Pos(), "no count >= width predicate")
	} else {
		c.Check(okOv, "R02.3", "BinOp shift overflow predicate", ovDef.Pos(), "overflows = icmp uge count, 8*sizeof(operand)", "predicate is not (count >=u operand width): a count equal to or beyond the width reaches the shift instruction")
	}
	// each shift instruction is covered by a select on overflows
	for _, nm := range []string{"llvm.Builder.CreateShl", "llvm.Builder.CreateLShr"} {
		for _, call := range bv.findCalls(shiftCase, nm) {
			// the value must be used as the 3rd operand of select(overflows, xzero, .)
			covered := false
			var holder string
			for _, n := range enclosingStmts(shiftCase, call) {
				if a, ok := n.(*ast.AssignStmt); ok && len(a.Lhs) == 1 {
					holder = exprStr(a.Lhs[0])
				}
			}
			for _, sel := range bv.findCalls(shiftCase, "llvm.Builder.CreateSelect") {
				_, sa, _ := bv.call(sel)
				if len(sa) >= 3 && exprStr(ast.Unparen(sa[0])) == "overflows" && exprStr(ast.Unparen(sa[1])) == "xzero" && exprStr(ast.Unparen(sa[2])) == holder && holder != "" {
					covered = true
				}
			}
			okZero := false
			ast.Inspect(shiftCase, func(n ast.Node) bool {
				if a, ok := n.(*ast.AssignStmt); ok && len(a.Lhs) == 1 && exprStr(a.Lhs[0]) == "xzero" {
					if n2, a2, ok := bv.call(a.Rhs[0]); ok && n2 == "llvm.ConstInt" {
						if v, isC := constInt(info, a2[1]); isC && v == 0 {
							okZero = true
						}
					}
				}
				return true
			})
			c.Check(covered && okZero, "R02.3", "BinOp "+strings.TrimPrefix(nm, "llvm.Builder.Create")+" result selected", call.Pos(), "select(overflows, 0, shift)", "the shift result is not replaced by 0 when the count is >= the width")
		}
	}
	for _, call := range bv.findCalls(shiftCase, "llvm.Builder.CreateAShr") {
		_, a, _ := bv.call(call)
		ok := false
		if len(a) >= 2 {
			if name, sa, isCall := bv.call(a[1]); isCall && name == "llvm.Builder.CreateSelect" && len(sa) >= 3 && exprStr(ast.Unparen(sa[0])) == "overflows" && exprStr(ast.Unparen(sa[2])) == "y.impl" {
				if n2, a2, ok2 := bv.call(sa[1]); ok2 && n2 == "llvm.ConstInt" {
					s := strings.ReplaceAll(exprStr(a2[1]), " ", "")
					ok = s == "8*xsize-1" || s == "xsize*8-1"
				}
			}
		}
		// signed only
		inSigned := false
		for _, n := range enclosingStmts(shiftCase, call) {
			if is, isIf := n.(*ast.IfStmt); isIf && call.Pos() < is.Body.End() && call.Pos() > is.Body.Pos() {
				if v, dec := evalBool(info, is.Cond, map[string]int64{"x.kind": vk("vkSigned")}); dec && v {
					if v2, dec2 := evalBool(info, is.Cond, map[string]int64{"x.kind": vk("vkUnsigned")}); dec2 && !v2 {
						inSigned = true
					}
				}
			}
		}
		c.Check(ok && inSigned, "R02.3", "BinOp AShr count clamped", call.Pos(), "signed >>: count = select(overflows, width-1, count); used only for signed operands", "arithmetic shift is not clamped to width-1 or is used for unsigned operands")
	}
	// unsigned >> must be LShr: the else-branch of x.kind == vkSigned contains CreateLShr (checked above by coverage) and no AShr
	// (d) negative shift count
	negs := bv.findRTCalls(shiftCase, "AssertNegativeShift")
	if len(negs) != 1 {
		c.Bad("R02.3", "BinOp negative shift assert", shiftCase.Pos(), fmt.Sprintf("%d AssertNegativeShift sites (expected 1)", len(negs)))
	} else {
		_, args, _ := bv.rtCall(negs[0])
		okArg := false
		if len(args) == 1 {
			if cl, ok := bv.res(args[0]).(*ast.CompositeLit); ok && len(cl.Elts) >= 1 {
				if name, a, ok := bv.call(cl.Elts[0]); ok && name == "llvm.Builder.CreateICmp" && bv.constName(a[0]) == "llvm.IntSLT" && exprStr(ast.Unparen(a[1])) == "y.impl" {
					if n2, a2, ok := bv.call(a[2]); ok && n2 == "llvm.ConstInt" {
						if v, isC := constInt(info, a2[1]); isC && v == 0 {
							okArg = true
						}
					}
				}
			}
		}
		// guarded by needsNegativeCheck(y), and precedes any conversion of y
		guard := false
		for _, n := range enclosingStmts(shiftCase, negs[0]) {
			if is, ok := n.(*ast.IfStmt); ok {
				if name, a, ok := bv.call(is.Cond); ok && name == "ssa.needsNegativeCheck" && len(a) == 1 && exprStr(a[0]) == "y" {
					guard = true
				}
			}
		}
		c.Check(okArg && guard, "R02.3", "BinOp negative shift assert", negs[0].Pos(), "if needsNegativeCheck(y) { AssertNegativeShift(icmp slt y, 0) }", "negative shift counts are not asserted as (count <s 0) under needsNegativeCheck")
		// R02.4: no reassignment of y reaches the negative check or the overflow predicate
		for _, tgt := range []struct {
			n    ast.Node
			name string
		}{{negs[0], "negative-count check"}, {ovDef, "count >= width predicate"}} {
			if tgt.n == nil {
				continue
			}
			bad := false
			for _, b := range g.G.Blocks {
				if !b.Live {
					continue
				}
				for i, n := range b.Nodes {
					a, ok := n.(*ast.AssignStmt)
					if !ok || len(a.Lhs) != 1 || exprStr(a.Lhs[0]) != "y" || a.Pos() < shiftCase.Pos() || a.End() > shiftCase.End() {
						continue
					}
					if _, r := g.reach(cfgPos{b, i + 1}, nil, func(x ast.Node) bool {
						return nodeHas(x, func(y ast.Node) bool { return y == tgt.n })
					}, false, nil); r {
						bad = true
					}
				}
			}
			c.Check(!bad, "R02.4", "BinOp shift "+tgt.name+" sees the un-narrowed count", tgt.n.Pos(), "no conversion of the count precedes the test on any path", "the count is converted to the operand type before the test: a wide count (e.g. uint64(256) on a uint8 operand) is truncated into range")
		}
	}
	// needsNegativeCheck: false only for unsigned or constant >= 0
	if fd := findFunc(p, "needsNegativeCheck"); fd == nil {
		c.Undecided("R02.3", "needsNegativeCheck", 0, "function not found")
	} else {
		ng := buildCFG(p, fd)
		ok := true
		why := ""
		for _, b := range ng.G.Blocks {
			if !b.Live {
				continue
			}
			for _, n := range b.Nodes {
				ret, isRet := n.(*ast.ReturnStmt)
				if !isRet || len(ret.Results) != 1 {
					continue
				}
				if exprStr(ret.Results[0]) != "false" {
					continue
				}
				// a "return false" must be dominated either by the false edge of x.kind == vkSigned or by a const >= 0 test
				domU, _ := ng.dominatedBy(ret, func(ast.Node) bool { return false }, func(bb *cfgBlk, k int) bool {
					if ce := condOf(bb); ce != nil {
						if v, dec := evalBool(info, ce, map[string]int64{"x.kind": vk("vkSigned")}); dec && v {
							return k == 0 // follow only the signed edge; if ret still reachable, need const test
						}
					}
					return true
				})
				if domU {
					continue
				}
				domC, _ := ng.dominatedBy(ret, func(ast.Node) bool { return false }, func(bb *cfgBlk, k int) bool {
					if ce := condOf(bb); ce != nil {
						s := strings.ReplaceAll(exprStr(ce), " ", "")
						if strings.Contains(s, "!rv.IsNil()&&rv.SExtValue()>=0") {
							return k == 1 // follow only the "not a non-negative constant" edge
						}
					}
					return true
				})
				if !domC {
					ok = false
					why = "a 'return false' is reachable for a signed, non-constant or negative count"
				}
			}
		}
		c.Check(ok, "R02.3", "needsNegativeCheck", fd.Pos(), "false only for unsigned counts or constants >= 0", why)
	}
}



// ---------------------------------------------------------------------------

func checkCasts(c *Ctx, p *packages.Package) {
	info := p.TypesInfo
	fd := findFunc(p, "castInt")
	if fd == nil {
		c.Undecided("R02.5", "castInt", 0, "function not found")
		return
	}
	c.nfuncs++
	v := newFnView(p, fd)
	// shape: if srcSize > dstSize {Trunc} else if xtyp.kind == vkUnsigned {ZExt} else {SExt}
	ok := false
	why := "unrecognised structure"
	if len(fd.Body.List) >= 1 {
		if is, isIf := fd.Body.List[len(fd.Body.List)-1].(*ast.IfStmt); isIf {
			x, y, op, cmp := binCmp(is.Cond)
			srcFirst := cmp && op == token.GTR && sizeOfWhat(v, x) == "src" && sizeOfWhat(v, y) == "dst"
			dstFirst := cmp && op == token.LSS && sizeOfWhat(v, x) == "dst" && sizeOfWhat(v, y) == "src"
			if srcFirst || dstFirst {
				t1 := len(v.findCalls(is.Body, "llvm.Builder.CreateTrunc")) == 1
				if e2, ok2 := is.Else.(*ast.IfStmt); ok2 {
					cx, cy, cop, ccmp := binCmp(e2.Cond)
					onSrc := ccmp && cop == token.EQL && exprStr(ast.Unparen(cx)) == "xtyp.kind" && objName(usedObj(info, cy)) == "ssa.vkUnsigned"
					z := len(v.findCalls(e2.Body, "llvm.Builder.CreateZExt")) == 1
					s := e2.Else != nil && len(v.findCalls(e2.Else, "llvm.Builder.CreateSExt")) == 1
					if !onSrc {
						why = "zero/sign extension is not chosen by the SOURCE type's kind (" + exprStr(e2.Cond) + ")"
					} else if t1 && z && s {
						ok = true
					}
				}
			} else {
				why = "truncation is not chosen by (source size > destination size): " + exprStr(is.Cond)
			}
		}
	}
	c.Check(ok, "R02.5", "castInt decision", fd.Pos(), "src wider -> trunc; else source unsigned -> zext; else sext", why)

	// callers: the xtyp argument must be the type of the value argument
	for _, cf := range allFuncs(p) {
		cv := newFnView(p, cf)
		for _, call := range callsIn(cf.Body) {
			f := calleeOf(info, call)
			if f == nil || f.Pkg() != p.Types || (f.Name() != "castInt" && f.Name() != "castUintptr") {
				continue
			}
			key := fmt.Sprintf("%s -> %s(%s, %s)", declName(cf), f.Name(), exprStr(call.Args[1]), exprStr(call.Args[2]))
			val, typ := call.Args[1], call.Args[2]
			good, reason := sameOperandType(cv, val, typ, call)
			if good {
				c.OK("R02.5", key, call.Pos(), reason)
			} else {
				c.Bad("R02.5", key, call.Pos(), "source-type argument is not the type of the converted value ("+reason+"): extension would follow the wrong signedness")
			}
		}
	}
	// castFloatToInt: narrow unsigned goes through signed/unsigned split before trunc
	if ff := findFunc(p, "castFloatToInt"); ff == nil {
		c.Undecided("R02.5", "castFloatToInt", 0, "function not found")
	} else {
		fv := newFnView(p, ff)
		nsel := 0
		for _, sel := range fv.findCalls(ff.Body, "llvm.Builder.CreateSelect") {
			_, a, _ := fv.call(sel)
			if len(a) >= 3 {
				n1, _, _ := fv.call(a[1])
				n2, _, _ := fv.call(a[2])
				n0, a0, _ := fv.call(a[0])
				if n1 == "llvm.Builder.CreateFPToSI" && n2 == "llvm.Builder.CreateFPToUI" && n0 == "llvm.Builder.CreateFCmp" && fv.constName(a0[0]) == "llvm.FloatOLT" {
					nsel++
				}
			}
		}
		// 64-bit: unsigned -> FPToUI, signed -> FPToSI
		tail := false
		n := len(ff.Body.List)
		if n >= 2 {
			if is, ok := ff.Body.List[n-2].(*ast.IfStmt); ok {
				cx, cy, cop, ccmp := binCmp(is.Cond)
				if ccmp && cop == token.EQL && exprStr(ast.Unparen(cx)) == "typ.kind" && objName(usedObj(info, cy)) == "ssa.vkUnsigned" &&
					len(fv.findCalls(is.Body, "llvm.Builder.CreateFPToUI")) == 1 && len(fv.findCalls(ff.Body.List[n-1], "llvm.Builder.CreateFPToSI")) == 1 {
					tail = true
				}
			}
		}
		c.Check(nsel == 1 && tail, "R02.5", "castFloatToInt", ff.Pos(), "narrow unsigned: select(x<0, fptosi, fptoui) then trunc; 64-bit: fptoui/fptosi by destination signedness", "float->integer conversion does not split by sign for narrow unsigned targets or picks the wrong instruction for the destination signedness")
	}
}

// sizeOfWhat classifies a size expression inside castInt: "src" (size of the value x) or "dst" (size of typ).
func sizeOfWhat(v *fnView, e ast.Expr) string {
	s := strings.ReplaceAll(exprStr(v.res(e)), " ", "")
	switch {
	case strings.Contains(s, "TypeAllocSize(x.Type())"):
		return "src"
	case strings.Contains(s, "TypeAllocSize(typ.ll)"):
		return "dst"
	}
	return "?"
}

// sameOperandType: val is E.impl (or a value derived from E) and typ resolves to E.Type for the same E,
// or (val, typ) is produced together by a cast to a known type (castUintptr(..., prog.Uintptr()) then prog.Uintptr()).
func sameOperandType(v *fnView, val, typ ast.Expr, within *ast.CallExpr) (bool, string) {
	vs := ast.Unparen(val)
	ts := v.res(typ)
	if sel, ok := vs.(*ast.SelectorExpr); ok && sel.Sel.Name == "impl" {
		base := exprStr(sel.X)
		if tsel, ok := ts.(*ast.SelectorExpr); ok && tsel.Sel.Name == "Type" && exprStr(tsel.X) == base {
			// flow-sensitive: the point where base.Type is read must not be reachable from an assignment to base.Type
			if w := typeOverwrittenBeforeRead(v, base, typ, within); w != "" {
				return false, w
			}
			return true, base + ".impl with " + base + ".Type"
		}
		return false, exprStr(val) + " with " + exprStr(ts)
	}
	// plain llvm.Value variable: its definition must be a cast whose destination type equals typ
	if id, ok := vs.(*ast.Ident); ok {
		defs := v.allDefs(id)
		if len(defs) == 0 {
			// a parameter: accept when typ is the parameter declared as its type (castUintptr forwarding x, xtyp)
			if tid, ok := ast.Unparen(typ).(*ast.Ident); ok && tid.Name == "xtyp" && id.Name == "x" {
				return true, "forwards (x, xtyp) unchanged"
			}
			if t := v.info.TypeOf(vs); t != nil && llname(t.String()) == "llvm.Value" && strings.HasSuffix(strings.ReplaceAll(exprStr(typ), " ", ""), ".VoidPtr()") {
				return true, "raw pointer value declared as unsafe pointer (ptrtoint path)"
			}
			return false, "value parameter with unrelated type argument"
		}
		all := true
		for _, d := range defs {
			if d == nil {
				all = false
				continue
			}
			if dc, ok := ast.Unparen(d).(*ast.CallExpr); ok && within != nil && dc == within {
				continue // the update under examination itself
			}
			name, a, ok := v.call(d)
			if !ok || (name != "ssa.castUintptr" && name != "ssa.castInt") || len(a) < 4 {
				all = false
				continue
			}
			if strings.ReplaceAll(exprStr(a[3]), " ", "") != strings.ReplaceAll(exprStr(typ), " ", "") {
				all = false
			}
		}
		if all {
			return true, "value produced by a cast to " + exprStr(typ)
		}
		return false, "value " + id.Name + " is not produced by a cast to " + exprStr(typ)
	}
	return false, "unrecognised value expression " + exprStr(val)
}

// typeOverwrittenBeforeRead reports an assignment `base.Type = ...` from which the read of base.Type (the call
// itself, or the definition of the local that carries it) is reachable in the CFG.
func typeOverwrittenBeforeRead(v *fnView, base string, typ ast.Expr, call *ast.CallExpr) string {
	var writes []*ast.AssignStmt
	ast.Inspect(v.fd.Body, func(n ast.Node) bool {
		if as, ok := n.(*ast.AssignStmt); ok {
			for _, l := range as.Lhs {
				if strings.ReplaceAll(exprStr(l), " ", "") == base+".Type" {
					writes = append(writes, as)
				}
			}
		}
		return true
	})
	if len(writes) == 0 || call == nil {
		return ""
	}
	// where is base.Type read?
	var read ast.Node = call
	if id, ok := ast.Unparen(typ).(*ast.Ident); ok {
		if o := v.info.Uses[id]; o != nil {
			ast.Inspect(v.fd.Body, func(n ast.Node) bool {
				if as, ok := n.(*ast.AssignStmt); ok && len(as.Lhs) == len(as.Rhs) {
					for i, l := range as.Lhs {
						if lid, ok := l.(*ast.Ident); ok && (v.info.Defs[lid] == o || v.info.Uses[lid] == o) && strings.ReplaceAll(exprStr(as.Rhs[i]), " ", "") == base+".Type" {
							read = as
						}
					}
				}
				return true
			})
		}
	}
	g := buildCFG(v.p, v.fd)
	for _, w := range writes {
		if ast.Node(w) == read {
			continue
		}
		wp, ok := g.nodePos(w)
		if !ok {
			continue
		}
		hit, found := g.reach(wp.after(), nil, func(n ast.Node) bool { return within(n, read) }, false, nil)
		if found && hit != nil {
			return base + ".Type is overwritten at " + v.p.Fset.Position(w.Pos()).String() + " before it is read as the source type: the conversion sees the destination type"
		}
	}
	return ""
}

// checkAssertHelper: func F(b bool, ...) { if b { panic(...) } }
func checkAssertHelper(c *Ctx, rule string, rp *packages.Package, name string) {
	fd := findFunc(rp, name)
	if fd == nil {
		c.Bad(rule, "runtime."+name, 0, "runtime helper not found")
		return
	}
	c.nfuncs++
	info := rp.TypesInfo
	ok := false
	if len(fd.Body.List) == 1 && len(fd.Type.Params.List) >= 1 {
		if is, isIf := fd.Body.List[0].(*ast.IfStmt); isIf && is.Else == nil && is.Init == nil {
			if id, isId := ast.Unparen(is.Cond).(*ast.Ident); isId && info.Uses[id] == info.Defs[fd.Type.Params.List[0].Names[0]] {
				if len(is.Body.List) == 1 {
					if es, isE := is.Body.List[0].(*ast.ExprStmt); isE && isPanicCall(info, es.X) {
						ok = true
					}
				}
			}
		}
	}
	c.Check(ok, rule, "runtime."+name, fd.Pos(), "if flag { panic(...) } and nothing else", "helper does not panic exactly when its flag is true")
}

func init() {
	addMutant(Mutant{Prop: "C02", Name: "urem-as-srem", File: "ssa/expr.go", Old: "int(token.REM-mathOpBase)<<2 | vkUnsigned: llvm.URem", New: "int(token.REM-mathOpBase)<<2 | vkUnsigned: llvm.SRem", Expect: "R02.1 mathOpToLLVM[REM,vkUnsigned]"})
	addMutant(Mutant{Prop: "C02", Name: "shr-logical", File: "ssa/expr.go", Old: "token.SHR - logicOpBase: llvm.AShr,", New: "token.SHR - logicOpBase: llvm.LShr,", Expect: "R02.1 logicOpToLLVM[SHR]"})
	addMutant(Mutant{Prop: "C02", Name: "float-neq-ordered", File: "ssa/expr.go", Old: "token.NEQ - predOpBase: llvm.FloatUNE", New: "token.NEQ - predOpBase: llvm.FloatONE", Expect: "R02.1 floatPredOpToLLVM[NEQ]"})
	addMutant(Mutant{Prop: "C02", Name: "unsigned-uses-signed-pred", File: "ssa/expr.go", Old: "\t\tcase vkUnsigned, vkPtr:\n\t\t\tpred := uintPredOpToLLVM[op-predOpBase]", New: "\t\tcase vkUnsigned, vkPtr:\n\t\t\tpred := intPredOpToLLVM[op-predOpBase]", Expect: "R02.1 BinOp compare kind vkUnsigned"})
	addMutant(Mutant{Prop: "C02", Name: "uint16-signed", File: "ssa/type.go", Old: "return &aType{p.tyInt16(), typ, vkUnsigned}", New: "return &aType{p.tyInt16(), typ, vkSigned}", Expect: "R02.2 toType uint16"})
	addMutant(Mutant{Prop: "C02", Name: "divzero-unsigned-skipped", File: "ssa/expr.go", Old: "if (op == token.QUO || op == token.REM) && (kind == vkSigned || kind == vkUnsigned) {\n\t\t\t\t\tneedsCheck := true", New: "if (op == token.QUO || op == token.REM) && (kind == vkSigned) {\n\t\t\t\t\tneedsCheck := true", Expect: "R02.3 BinOp zero-divisor domain"})
	addMutant(Mutant{Prop: "C02", Name: "divzero-const-flip", File: "ssa/expr.go", Old: "needsCheck = rv.ZExtValue() == 0", New: "needsCheck = rv.ZExtValue() != 0", Expect: "R02.3 BinOp zero-divisor check elided"})
	addMutant(Mutant{Prop: "C02", Name: "shift-ugt", File: "ssa/expr.go", Old: "overflows := llvm.CreateICmp(b.impl, llvm.IntUGE, y.impl,", New: "overflows := llvm.CreateICmp(b.impl, llvm.IntUGT, y.impl,", Expect: "R02.3 BinOp shift overflow predicate"})
	addMutant(Mutant{Prop: "C02", Name: "shl-unselected", File: "ssa/expr.go", Old: "return Expr{llvm.CreateSelect(b.impl, overflows, xzero, rhs), x.Type}", New: "_ = xzero\n\t\t\t\treturn Expr{rhs, x.Type}", Expect: "R02.3 BinOp Shl result selected"})
	addMutant(Mutant{Prop: "C02", Name: "narrow-before-compare", File: "ssa/expr.go",
		Old: "\t\t\toverflows := llvm.CreateICmp(b.impl, llvm.IntUGE, y.impl, llvm.ConstInt(y.ll, xsize*8, false))\n\t\t\tif xsize != ysize {\n\t\t\t\ty = b.Convert(x.Type, y)\n\t\t\t}\n",
		New: "\t\t\tif xsize != ysize {\n\t\t\t\ty = b.Convert(x.Type, y)\n\t\t\t}\n\t\t\toverflows := llvm.CreateICmp(b.impl, llvm.IntUGE, y.impl, llvm.ConstInt(y.ll, xsize*8, false))\n", Expect: "R02.4"})
	addMutant(Mutant{Prop: "C02", Name: "extend-by-dest", File: "ssa/expr.go", Old: "} else if xtyp.kind == vkUnsigned {", New: "} else if typ.kind == vkUnsigned {", Expect: "R02.5 castInt decision"})
	addMutant(Mutant{Prop: "C02", Name: "caller-passes-dest-type", File: "ssa/expr.go", Old: "ret.impl = castInt(b, x.impl, x.Type, t)", New: "ret.impl = castInt(b, x.impl, t, t)", Expect: "R02.5 Builder.Convert -> castInt"})
	addMutant(Mutant{Prop: "C02", Name: "minint-rem-result", File: "ssa/expr.go", Old: "v = llvm.CreateSelect(b.impl, overflow, llvm.ConstInt(x.ll, 0, false), v)", New: "v = llvm.CreateSelect(b.impl, overflow, x.impl, v)", Expect: "R02.3 BinOp minInt/-1 results"})
	addMutant(Mutant{Prop: "C02", Name: "assert-inverted", File: "runtime/internal/runtime/z_error.go", Old: "func AssertDivideByZero(b bool) {\n\tif b {", New: "func AssertDivideByZero(b bool) {\n\tif !b {", Expect: "R02.6 runtime.AssertDivideByZero"})
}
