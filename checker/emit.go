package main

import (
	"go/ast"
	"go/token"
	"go/types"
	"strings"

	"golang.org/x/tools/go/packages"
)

// fnView gives a resolved view of an emitter function: local variables with a single definition are
// replaced by their defining expression, callees and constants are identified through type information.
type fnView struct {
	p    *packages.Package
	info *types.Info
	fd   *ast.FuncDecl
	defs map[types.Object][]ast.Expr
	// tdefs: right-hand sides of tuple assignments (x, y = f()), per assigned variable; used by flow queries only
	tdefs map[types.Object][]ast.Expr
}

func newFnView(p *packages.Package, fd *ast.FuncDecl) *fnView {
	v := &fnView{p: p, info: p.TypesInfo, fd: fd, defs: map[types.Object][]ast.Expr{}, tdefs: map[types.Object][]ast.Expr{}}
	ast.Inspect(fd.Body, func(n ast.Node) bool {
		switch s := n.(type) {
		case *ast.AssignStmt:
			for i, l := range s.Lhs {
				id, ok := l.(*ast.Ident)
				if !ok {
					continue
				}
				o := v.info.Defs[id]
				if o == nil {
					o = v.info.Uses[id]
				}
				if o == nil {
					continue
				}
				if len(s.Rhs) == len(s.Lhs) {
					if s.Tok == token.ASSIGN || s.Tok == token.DEFINE {
						v.defs[o] = append(v.defs[o], s.Rhs[i])
					} else {
						v.defs[o] = append(v.defs[o], nil) // op-assign: not a plain definition
					}
				} else {
					v.defs[o] = append(v.defs[o], nil) // tuple assignment
					if len(s.Rhs) == 1 {
						v.tdefs[o] = append(v.tdefs[o], s.Rhs[0])
					}
				}
			}
		case *ast.ValueSpec:
			for i, id := range s.Names {
				o := v.info.Defs[id]
				if o == nil {
					continue
				}
				if i < len(s.Values) {
					v.defs[o] = append(v.defs[o], s.Values[i])
				}
			}
		case *ast.IncDecStmt:
			if id, ok := s.X.(*ast.Ident); ok {
				if o := v.info.Uses[id]; o != nil {
					v.defs[o] = append(v.defs[o], nil)
				}
			}
		case *ast.RangeStmt:
			for _, e := range []ast.Expr{s.Key, s.Value} {
				if id, ok := e.(*ast.Ident); ok {
					if o := v.info.Defs[id]; o != nil {
						v.defs[o] = append(v.defs[o], nil)
					}
				}
			}
		}
		return true
	})
	return v
}

// res resolves single-definition local variables transitively.
func (v *fnView) res(e ast.Expr) ast.Expr {
	for i := 0; i < 8; i++ {
		e = ast.Unparen(e)
		id, ok := e.(*ast.Ident)
		if !ok {
			return e
		}
		o := v.info.Uses[id]
		if o == nil {
			return e
		}
		ds := v.defs[o]
		if len(ds) != 1 || ds[0] == nil {
			return e
		}
		e = ds[0]
	}
	return e
}

// allDefs returns every expression assigned to the variable e denotes (nil entries = non-plain updates).
func (v *fnView) allDefs(e ast.Expr) []ast.Expr {
	id, ok := ast.Unparen(e).(*ast.Ident)
	if !ok {
		return nil
	}
	o := v.info.Uses[id]
	if o == nil {
		o = v.info.Defs[id]
	}
	return v.defs[o]
}

func llname(s string) string {
	s = strings.TrimPrefix(s, "github.com/xgo-dev/")
	return s
}

// call decomposes a (resolved) call: callee short name ("llvm.CreateICmp", "llvm.Builder.CreateICmp",
// "ssa.Builder.InlineCall") and arguments with the receiver-bound builder argument removed for the
// function-style llvm helpers (so method and function forms look alike).
func (v *fnView) call(e ast.Expr) (name string, args []ast.Expr, ok bool) {
	c, isCall := v.res(e).(*ast.CallExpr)
	if !isCall {
		return "", nil, false
	}
	f := calleeOf(v.info, c)
	if f == nil {
		return "", nil, false
	}
	name = llname(shortName(f))
	args = c.Args
	if strings.HasPrefix(name, "llvm.Create") && len(args) > 0 {
		// llvm.CreateX(builder, ...) == builder.CreateX(..., name)
		args = args[1:]
		name = "llvm.Builder." + strings.TrimPrefix(name, "llvm.")
	} else if strings.HasPrefix(name, "llvm.Builder.Create") && len(args) > 0 {
		if s, isStr := constString(v.info, args[len(args)-1]); isStr && s == "" {
			args = args[:len(args)-1]
		}
	}
	return name, args, true
}

// constName returns the qualified name of the constant/variable object e denotes ("llvm.IntUGE").
func (v *fnView) constName(e ast.Expr) string {
	return llname(objName(usedObj(v.info, ast.Unparen(e))))
}

// isSel reports e == base.field after resolution (e.g. y.impl).
func (v *fnView) isSel(e ast.Expr, base, field string) bool {
	s, ok := v.res(e).(*ast.SelectorExpr)
	if !ok || s.Sel.Name != field {
		return false
	}
	id, ok := ast.Unparen(s.X).(*ast.Ident)
	return ok && id.Name == base
}

// rtFuncName: e is b.Pkg.rtFunc("X") / b.Func.Pkg.rtFunc("X") -> X
func (v *fnView) rtFuncName(e ast.Expr) (string, bool) {
	name, args, ok := v.call(e)
	if !ok || !strings.HasSuffix(name, ".rtFunc") || len(args) != 1 {
		return "", false
	}
	return constString(v.info, args[0])
}

// rtCall: e is b.InlineCall(rtFunc("X"), args...) or b.Call(rtFunc("X"), args...)
func (v *fnView) rtCall(e ast.Expr) (string, []ast.Expr, bool) {
	name, args, ok := v.call(e)
	if !ok || len(args) == 0 {
		return "", nil, false
	}
	if name != "ssa.Builder.InlineCall" && name != "ssa.Builder.Call" {
		return "", nil, false
	}
	rn, ok := v.rtFuncName(args[0])
	if !ok {
		return "", nil, false
	}
	return rn, args[1:], true
}

// findCalls lists all calls in the function (incl. nested literals) whose normalised name matches.
func (v *fnView) findCalls(within ast.Node, names ...string) []*ast.CallExpr {
	var out []*ast.CallExpr
	ast.Inspect(within, func(n ast.Node) bool {
		c, ok := n.(*ast.CallExpr)
		if !ok {
			return true
		}
		name, _, ok := v.call(c)
		if !ok {
			return true
		}
		for _, nm := range names {
			if name == nm {
				out = append(out, c)
			}
		}
		return true
	})
	return out
}

// findRTCalls lists calls to runtime function rn.
func (v *fnView) findRTCalls(within ast.Node, rn string) []*ast.CallExpr {
	var out []*ast.CallExpr
	ast.Inspect(within, func(n ast.Node) bool {
		c, ok := n.(*ast.CallExpr)
		if !ok {
			return true
		}
		if name, _, ok := v.rtCall(c); ok && name == rn {
			out = append(out, c)
		}
		return true
	})
	return out
}

// enclosing returns the chain of statements enclosing pos inside the function (outermost first).
func enclosingStmts(root ast.Node, target ast.Node) []ast.Node {
	var path []ast.Node
	var found []ast.Node
	ast.Inspect(root, func(n ast.Node) bool {
		if n == nil {
			path = path[:len(path)-1]
			return true
		}
		path = append(path, n)
		if n == target {
			found = append([]ast.Node{}, path...)
		}
		return found == nil
	})
	return found
}

// caseClauseFor returns, for each enclosing switch of target, the case clause containing it.
func enclosingCases(root ast.Node, target ast.Node) []*ast.CaseClause {
	var out []*ast.CaseClause
	for _, n := range enclosingStmts(root, target) {
		if cc, ok := n.(*ast.CaseClause); ok {
			out = append(out, cc)
		}
	}
	return out
}

// evalBool evaluates a boolean expression over an environment of enumerated variables:
// env maps identifier names to constant values (as int64); comparisons ==, != against constants,
// &&, ||, !. Returns (value, ok).
func evalBool(info *types.Info, e ast.Expr, env map[string]int64) (bool, bool) {
	e = ast.Unparen(e)
	switch x := e.(type) {
	case *ast.UnaryExpr:
		if x.Op == token.NOT {
			v, ok := evalBool(info, x.X, env)
			return !v, ok
		}
	case *ast.BinaryExpr:
		switch x.Op {
		case token.LAND, token.LOR:
			a, ok1 := evalBool(info, x.X, env)
			b, ok2 := evalBool(info, x.Y, env)
			if !ok1 || !ok2 {
				return false, false
			}
			if x.Op == token.LAND {
				return a && b, true
			}
			return a || b, true
		case token.EQL, token.NEQ, token.LSS, token.LEQ, token.GTR, token.GEQ:
			a, ok1 := evalInt(info, x.X, env)
			b, ok2 := evalInt(info, x.Y, env)
			if !ok1 || !ok2 {
				return false, false
			}
			switch x.Op {
			case token.EQL:
				return a == b, true
			case token.NEQ:
				return a != b, true
			case token.LSS:
				return a < b, true
			case token.LEQ:
				return a <= b, true
			case token.GTR:
				return a > b, true
			case token.GEQ:
				return a >= b, true
			}
		}
	case *ast.Ident:
		if v, ok := env[x.Name]; ok {
			return v != 0, true
		}
		if v, ok := constInt(info, x); ok {
			return v != 0, true
		}
	case *ast.SelectorExpr:
		if v, ok := env[exprStr(x)]; ok {
			return v != 0, true
		}
	}
	return false, false
}

func evalInt(info *types.Info, e ast.Expr, env map[string]int64) (int64, bool) {
	e = ast.Unparen(e)
	if v, ok := constInt(info, e); ok {
		return v, true
	}
	switch x := e.(type) {
	case *ast.Ident:
		v, ok := env[x.Name]
		return v, ok
	case *ast.SelectorExpr:
		v, ok := env[exprStr(x)]
		return v, ok
	case *ast.BinaryExpr:
		a, ok1 := evalInt(info, x.X, env)
		b, ok2 := evalInt(info, x.Y, env)
		if !ok1 || !ok2 {
			return 0, false
		}
		switch x.Op {
		case token.ADD:
			return a + b, true
		case token.SUB:
			return a - b, true
		case token.MUL:
			return a * b, true
		}
	}
	return 0, false
}

// pkgConst returns the int64 value of a package-level constant.
func pkgConst(p *types.Package, name string) (int64, bool) {
	o, ok := p.Scope().Lookup(name).(*types.Const)
	if !ok {
		return 0, false
	}
	return constValInt(o)
}

func constValInt(o *types.Const) (int64, bool) {
	s := o.Val().ExactString()
	var v int64
	neg := false
	if strings.HasPrefix(s, "-") {
		neg = true
		s = s[1:]
	}
	for _, ch := range s {
		if ch < '0' || ch > '9' {
			return 0, false
		}
		v = v*10 + int64(ch-'0')
	}
	if neg {
		v = -v
	}
	return v, true
}

// pkgVarLit returns the composite literal initialising package-level variable name.
func pkgVarLit(p *packages.Package, name string) *ast.CompositeLit {
	for _, f := range p.Syntax {
		for _, d := range f.Decls {
			gd, ok := d.(*ast.GenDecl)
			if !ok || gd.Tok != token.VAR {
				continue
			}
			for _, s := range gd.Specs {
				vs := s.(*ast.ValueSpec)
				for i, n := range vs.Names {
					if n.Name == name && i < len(vs.Values) {
						if cl, ok := vs.Values[i].(*ast.CompositeLit); ok {
							return cl
						}
					}
				}
			}
		}
	}
	return nil
}
