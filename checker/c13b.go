package main

import (
	"fmt"
	"go/ast"
	"strings"

	"golang.org/x/tools/go/packages"
)

// checkDigestFollowsLinks (R13.9): the compiler opens input files by path, i.e. through symbolic links; the
// metadata recorded for them must describe the same file (os.Stat), never the link itself (os.Lstat).
func checkDigestFollowsLinks(c *Ctx, bp *packages.Package) {
	c.Rule("R13.9", "input-file digests describe the file the compiler reads: metadata comes from os.Stat (follows symbolic links), never os.Lstat", 1)
	info := bp.TypesInfo
	n := 0
	for _, fd := range allFuncs(bp) {
		file := fileOf(c.fset, fd.Pos())
		if file != "fingerprint.go" && file != "collect.go" {
			continue
		}
		for _, call := range callsIn(fd.Body) {
			f := calleeOf(info, call)
			if f == nil || f.Pkg() == nil || f.Pkg().Path() != "os" {
				continue
			}
			switch f.Name() {
			case "Stat":
				n++
				c.OK("R13.9", fmt.Sprintf("build.%s os.Stat#%d", declName(fd), n), call.Pos(), "follows links")
			case "Lstat":
				n++
				c.Bad("R13.9", fmt.Sprintf("build.%s os.Lstat#%d", declName(fd), n), call.Pos(), "the digest records size and mtime of the symbolic link itself: editing the link's target leaves the fingerprint unchanged and a stale archive is served")
			}
		}
	}
	if n == 0 {
		c.Undecided("R13.9", "build fingerprint stat calls", 0, "no os.Stat/os.Lstat call in fingerprint.go/collect.go")
	}
}

// checkCompilerIdentity (R13.10): the manifest's compiler hash comes from Config.CompilerHash, which only
// flags.UpdateConfig fills.  It must be filled on every successful path, not under a build-mode condition.
func checkCompilerIdentity(c *Ctx, fp *packages.Package) {
	c.Rule("R13.10", "the compiler's identity reaches every build: flags.UpdateConfig assigns Config.CompilerHash from compilerhash.Value() on every path that returns without error", 1)
	fd := findFunc(fp, "UpdateConfig")
	if fd == nil {
		c.Undecided("R13.10", "flags.UpdateConfig", 0, "function not found")
		return
	}
	c.nfuncs++
	info := fp.TypesInfo
	g := buildCFG(fp, fd)
	isSet := func(n ast.Node) bool {
		as, ok := n.(*ast.AssignStmt)
		if !ok || len(as.Lhs) != 1 || len(as.Rhs) != 1 {
			return false
		}
		if !strings.HasSuffix(strings.ReplaceAll(exprStr(as.Lhs[0]), " ", ""), ".CompilerHash") {
			return false
		}
		call, ok := as.Rhs[0].(*ast.CallExpr)
		if !ok {
			return false
		}
		f := calleeOf(info, call)
		return f != nil && f.Name() == "Value" && f.Pkg() != nil && strings.HasSuffix(f.Pkg().Path(), "compilerhash")
	}
	found := false
	ast.Inspect(fd.Body, func(n ast.Node) bool {
		if isSet(n) {
			found = true
		}
		return true
	})
	if !found {
		c.Bad("R13.10", "flags.UpdateConfig sets CompilerHash", fd.Pos(), "conf.CompilerHash = compilerhash.Value() not found: the manifest never depends on the compiler build")
		return
	}
	// a `return nil` reachable from entry without passing the assignment
	okRet := func(n ast.Node) bool {
		r, ok := n.(*ast.ReturnStmt)
		return ok && (len(r.Results) == 0 || isNilIdent(info, r.Results[len(r.Results)-1]))
	}
	hit, reach := g.reach(g.entry(), isSet, okRet, false, nil)
	c.Check(!reach, "R13.10", "flags.UpdateConfig sets CompilerHash", fd.Pos(), "assigned before every successful return", "a successful return ("+c.posStr(posOf(hit))+") is reachable without assigning CompilerHash (e.g. only under buildenv.Dev): a (devel) compiler built without that tag records an empty hash and archives of an older compiler are served as cache hits")
}

func init() {
	addMutant(Mutant{Prop: "C13", Name: "digest-lstat", File: "internal/build/fingerprint.go", Old: "\t\tinfo, err := os.Stat(path)\n\t\tif err != nil {\n\t\t\treturn nil, fmt.Errorf(\"stat file", New: "\t\tinfo, err := os.Lstat(path)\n\t\tif err != nil {\n\t\t\treturn nil, fmt.Errorf(\"stat file", Expect: "R13.9"})
	addMutant(Mutant{Prop: "C13", Name: "compilerhash-dev-only", File: "cmd/internal/flags/flags.go",
		Old: "\tconf.CompilerHash = compilerhash.Value()\n\tconf.Tags = Tags", New: "\tif buildenv.Dev {\n\t\tconf.CompilerHash = compilerhash.Value()\n\t}\n\tconf.Tags = Tags", Expect: "R13.10"})
}

// checkStoreAfterOutputs (R13.11): what is stored in the cache is what a later cache hit gets back.  Every step
// that completes a package's recorded outputs (link arguments) runs before saveToCache.
func checkStoreAfterOutputs(c *Ctx, bp *packages.Package) {
	c.Rule("R13.11", "a package is stored in the cache only after its recorded outputs are complete: no step that extends the link arguments follows saveToCache", 1)
	fd := findFunc(bp, "buildAllPkgs")
	if fd == nil {
		c.Undecided("R13.11", "build.buildAllPkgs", 0, "function not found")
		return
	}
	c.nfuncs++
	info := bp.TypesInfo
	n := 0
	ast.Inspect(fd.Body, func(x ast.Node) bool {
		blk, ok := x.(*ast.BlockStmt)
		if !ok {
			return true
		}
		save, ext := -1, -1
		for i, st := range blk.List {
			if containsCallTo(info, st, "internal/build.context.saveToCache") && save < 0 {
				save = i
			}
			if containsCallTo(info, st, "internal/build.appendExternalLinkArgs") {
				ext = i
			}
		}
		if save >= 0 && ext >= 0 && save != ext {
			n++
			c.Check(ext < save, "R13.11", fmt.Sprintf("build.buildAllPkgs stores after the link arguments are complete #%d", n), blk.List[save].Pos(), "appendExternalLinkArgs precedes saveToCache",
				"the cache entry is written before the external link arguments are appended: a later cache hit links the program without the package's -l/-L arguments")
		}
		return true
	})
	if n == 0 {
		c.Undecided("R13.11", "build.buildAllPkgs store order", fd.Pos(), "saveToCache and appendExternalLinkArgs not found in one block")
	}
}

func init() {
	addMutant(Mutant{Prop: "C13", Name: "store-before-extern-linkargs", File: "internal/build/build.go",
		Old: "\t\t\t\t\tif kind == cl.PkgLinkExtern {\n\t\t\t\t\t\tappendExternalLinkArgs(ctx, aPkg, param)\n\t\t\t\t\t}\n\t\t\t\t\tif err := ctx.saveToCache(aPkg); err != nil && verbose {\n\t\t\t\t\t\tfmt.Fprintf(os.Stderr, \"warning: failed to save cache for %s: %v\\n\", pkg.PkgPath, err)\n\t\t\t\t\t}",
		New: "\t\t\t\t\tif err := ctx.saveToCache(aPkg); err != nil && verbose {\n\t\t\t\t\t\tfmt.Fprintf(os.Stderr, \"warning: failed to save cache for %s: %v\\n\", pkg.PkgPath, err)\n\t\t\t\t\t}\n\t\t\t\t\tif kind == cl.PkgLinkExtern {\n\t\t\t\t\t\tappendExternalLinkArgs(ctx, aPkg, param)\n\t\t\t\t\t}", Expect: "R13.11"})
}
