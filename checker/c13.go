package main

import (
	"fmt"
	"go/ast"
	"go/token"
	"go/types"
	"reflect"
	"sort"
	"strings"

	"golang.org/x/tools/go/packages"
)

func init() { register("C13", checkC13) }

// Environment variables that are read on the build path but need not be part of a package's cache key.
var envExceptions = map[string]string{
	"GOOS": "copied into the recorded Goos", "GOARCH": "copied into the recorded Goarch",
	"GOBIN": "install location only", "GOPATH": "install/cache location only", "PATH": "tool lookup; tool identity is recorded through CC and the LLVM version",
	"LLGO_AR": "archiver binary choice; archive member contents are unaffected", "LLGO_BUILD_CACHE": "turns caching on/off; never changes what is built",
	"LDFLAGS": "used by the final link only, which is never cached", "LLVM_CONFIG": "locates the toolchain; its version string is recorded",
	"LLGO_ROOT": "locates the runtime sources, whose files are fingerprinted as dependencies", "GOCACHE": "test helper only",
	"LLGO_WASM_RUNTIME": "recorded", "HOME": "cache location",
}

// Config fields read while compiling a package that do not influence the archive.
var confFieldExceptions = map[string]string{
	"GenLL": "emits extra .ll files next to the archive", "CheckLLFiles": "diagnostic validation only", "Verbose": "logging", "PrintCommands": "logging",
	"Port": "run/flash time only", "ModuleHook": "test hook", "CheckLinkArgs": "diagnostic", "ForceRebuild": "bypasses the cache lookup itself",
	"BuildMode": "selects the program entry and the final link; package archives are mode independent (main packages are never cached)",
	"GlobalRewrites": "recorded per package as rewrite_vars", "OptLevel": "enters the recorded CCFLAGS through crosscompile.Use (level.Flag())",
	"CompilerHash": "recorded", "Goos": "recorded", "Goarch": "recorded", "Tags": "recorded", "Target": "recorded", "AbiMode": "recorded",
}

func checkC13(c *Ctx) (string, error) {
	w, err := loadMain(defaultCfg, "internal/build", "cl", "ssa", "ssa/abi", "internal/cabi", "internal/clang", "xtool/env", "internal/env", "internal/goembed", "internal/crosscompile", "cmd/internal/flags")
	if err != nil {
		return "", err
	}
	c.use(w)
	bp := w.Main("internal/build")

	c.Rule("R13.1", "every environment variable read on the package build path is recorded (raw value) in the cache manifest or is listed with a reason", 15)
	c.Rule("R13.2", "every channel of file content compiled into a package archive is digested into its manifest", 5)
	c.Rule("R13.3", "map iteration order never reaches emitted code, manifests or ordered output (order-insensitive body, or total sort before use)", 20)
	c.Rule("R13.4", "cache load and store derive their paths from the same key; the target triple uses exactly the recorded fields", 3)
	c.Rule("R13.5", "fingerprints are computed before any cache lookup; archives are stored only after a successful build; main packages are never cached; all imports enter the dependency section", 6)
	c.Rule("R13.6", "every manifest section field is filled by the collectors, serialised, and covered by the section's emptiness test", 24)
	c.Rule("R13.7", "cache artefacts are published by write-to-temporary then rename", 2)
	c.Rule("R13.8", "every build.Config field read while compiling a package is recorded in the manifest or listed with a reason", 10)

	checkEnvCompleteness(c, w)
	checkInputChannels(c, w)
	for _, rel := range []string{"cl", "ssa", "ssa/abi", "internal/build", "internal/cabi", "internal/goembed", "internal/env"} {
		checkMapRanges(c, w.Main(rel))
	}
	checkCacheKeys(c, bp)
	checkCacheOrder(c, bp)
	checkManifestSections(c, bp)
	checkAtomicPublish(c, bp)
	checkConfFields(c, bp)
	checkDigestFollowsLinks(c, bp)
	checkStoreAfterOutputs(c, bp)
	checkMetadataRoundTrip(c, bp)
	checkCompilerIdentity(c, w.Main("cmd/internal/flags"))
	return "C13 (structural): completeness of the cache manifest against what the build reads - every os.Getenv/isEnvOn/defaultEnv key in the build-path packages vs the recorded list (raw values), every file channel compiled into an archive vs the digested lists, every build.Config field read in internal/build vs the recorded fields; every range over a map in cl, ssa, ssa/abi, internal/build, internal/cabi, internal/goembed, internal/env is order-insensitive or feeds a slice that is totally sorted before use; load/store key agreement; fingerprint-before-lookup and store-after-success ordering; manifest section field coverage; atomic publication. NOT decided: byte identity of emitted IR beyond iteration order, behavioural equality of cached and clean builds.", nil
}

func checkEnvCompleteness(c *Ctx, w *World) {
	bp := w.Main("internal/build")
	// recorded keys: the []string literal in collectEnvInputs
	recorded := map[string]bool{}
	fd := findFunc(bp, "context.collectEnvInputs")
	if fd == nil {
		c.Bad("R13.1", "collectEnvInputs", 0, "function not found")
		return
	}
	rawValue := false
	ast.Inspect(fd.Body, func(n ast.Node) bool {
		switch x := n.(type) {
		case *ast.CompositeLit:
			if t := bp.TypesInfo.TypeOf(x); t != nil && t.String() == "[]string" {
				for _, e := range x.Elts {
					if s, ok := constString(bp.TypesInfo, e); ok {
						recorded[s] = true
					}
				}
			}
		case *ast.RangeStmt:
			// for _, envVar := range envVars { if v := os.Getenv(envVar); v != "" { Vars.Add(envVar, v) } }
			src := strings.ReplaceAll(nodeSrc(x.Body), " ", "")
			var adds []string
			ast.Inspect(x.Body, func(y ast.Node) bool {
				if call, ok := y.(*ast.CallExpr); ok {
					adds = append(adds, strings.ReplaceAll(exprStr(call), " ", ""))
				}
				return true
			})
			all := src + strings.Join(adds, ";")
			if strings.Contains(all, "v:=os.Getenv(envVar)") && strings.Contains(all, ".Add(envVar,v)") {
				rawValue = true
			}
		}
		return true
	})
	c.Check(rawValue, "R13.1", "collectEnvInputs records raw values", fd.Pos(), "Vars.Add(name, os.Getenv(name))", "the manifest does not record the variable's raw value (a normalised on/off flag makes 'unset' and 'explicitly off' share one key although their defaults differ)")
	// all reads
	type read struct {
		key string
		pos token.Pos
		fn  string
	}
	var reads []read
	dyn := 0
	for _, rel := range []string{"internal/build", "cl", "ssa", "internal/cabi", "internal/clang", "xtool/env", "internal/env", "internal/goembed", "internal/crosscompile"} {
		p := w.Main(rel)
		if p == nil {
			continue
		}
		for _, f := range allFuncs(p) {
			if declName(f) == "context.collectEnvInputs" {
				continue
			}
			for _, call := range callsIn(f.Body) {
				cal := calleeOf(p.TypesInfo, call)
				if cal == nil {
					continue
				}
				q := shortName(cal)
				switch q {
				case "os.Getenv", "os.LookupEnv", "internal/build.isEnvOn", "internal/build.defaultEnv":
					if len(call.Args) == 0 {
						continue
					}
					if s, ok := constString(p.TypesInfo, call.Args[0]); ok {
						reads = append(reads, read{s, call.Pos(), rel + "." + declName(f)})
					} else if declName(f) != "isEnvOn" && declName(f) != "defaultEnv" {
						dyn++
						c.Exists("R13.1", fmt.Sprintf("%s.%s dynamic env read #%d", rel, declName(f), dyn), call.Pos(), "non-constant key "+exprStr(call.Args[0])+" (link-directive expansion; affects the final link arguments only)")
					}
				}
			}
		}
	}
	seen := map[string]bool{}
	for _, r := range reads {
		if seen[r.key] {
			continue
		}
		seen[r.key] = true
		key := "env " + r.key
		switch {
		case recorded[r.key]:
			c.OK("R13.1", key, r.pos, "recorded in the manifest")
		case envExceptions[r.key] != "":
			c.Exists("R13.1", key, r.pos, "not recorded: "+envExceptions[r.key])
		default:
			c.Bad("R13.1", key, r.pos, "read in "+r.fn+" but absent from the cache manifest: changing it keeps serving archives built under the old value")
		}
	}
}

func checkInputChannels(c *Ctx, w *World) {
	bp := w.Main("internal/build")
	fd := findFunc(bp, "context.collectPackageInputs")
	if fd == nil {
		c.Bad("R13.2", "collectPackageInputs", 0, "function not found")
		return
	}
	src := ""
	ast.Inspect(fd.Body, func(n ast.Node) bool {
		if call, ok := n.(*ast.CallExpr); ok {
			src += strings.ReplaceAll(exprStr(call), " ", "") + ";"
		}
		return true
	})
	chans := []struct{ name, needle, why string }{
		{"Go source files", "digestFilesWithOverlay(p.GoFiles,c.conf.Overlay)", "editing a Go file (or its overlay) is not noticed"},
		{"replacement (patched) Go files", "digestFilesWithOverlay(pkg.AltPkg.GoFiles,c.conf.Overlay)", "editing an overlay package's file is not noticed"},
		{"C and other side files", "append([]string{},p.OtherFiles...)", "editing a C/asm side file is not noticed"},
		{"assembly files", "pkgSFiles(c,p)", "editing a .s file is not noticed"},
		{"-X string overrides", "AddMap(rewrites)", "changing an -X override is not noticed"},
	}
	for _, ch := range chans {
		c.Check(strings.Contains(src, ch.needle), "R13.2", "input channel: "+ch.name, fd.Pos(), "digested", "channel not digested into the package manifest: "+ch.why)
	}
	// embedded files: compiled into the archive by cl (goembed), so they must be digested as well
	usesEmbed := false
	if cp := w.Main("cl"); cp != nil {
		for _, f := range allFuncs(cp) {
			for _, call := range callsIn(f.Body) {
				if cal := calleeOf(cp.TypesInfo, call); cal != nil && strings.HasPrefix(shortName(cal), "internal/goembed.") {
					usesEmbed = true
				}
			}
		}
	}
	if usesEmbed {
		digested := strings.Contains(src, "EmbedFiles") || strings.Contains(src, "goembed.")
		c.Check(digested, "R13.2", "input channel: go:embed files", fd.Pos(), "digested", "files named by //go:embed are compiled into the package archive (cl/embed.go) but are not part of its manifest: editing an embedded file of a cached library package is not noticed")
	}
}

// checkMapRanges: R13.3
func checkMapRanges(c *Ctx, p *packages.Package) {
	if p == nil {
		return
	}
	info := p.TypesInfo
	short := strings.TrimPrefix(p.PkgPath, mainMod+"/")
	for _, fd := range allFuncs(p) {
		k := 0
		ast.Inspect(fd.Body, func(n ast.Node) bool {
			rs, ok := n.(*ast.RangeStmt)
			if !ok {
				return true
			}
			t := info.TypeOf(rs.X)
			if t == nil {
				return true
			}
			if _, isMap := t.Underlying().(*types.Map); !isMap {
				return true
			}
			k++
			key := fmt.Sprintf("%s.%s range#%d over %s", short, declName(fd), k, exprStr(rs.X))
			if why, ok := mapRangeExceptions[key]; ok {
				c.Exists("R13.3", key, rs.Pos(), "listed: "+why)
				return true
			}
			if fileOf(p.Fset, rs.Pos()) == "size_report.go" {
				c.Exists("R13.3", key, rs.Pos(), "listed: size-report tool output, not part of any build product")
				return true
			}
			verdict, why := classifyMapRange(info, fd, rs)
			switch verdict {
			case "ok":
				c.OK("R13.3", key, rs.Pos(), why)
			case "listed":
				c.Exists("R13.3", key, rs.Pos(), why)
			default:
				c.Bad("R13.3", key, rs.Pos(), why)
			}
			return true
		})
	}
}

// mapRangeExceptions: confirmed by reading; one reason each.
var mapRangeExceptions = map[string]string{
	"internal/build.cabiSkipFuncsForPlan9Asm range#1 over ownSigs": "the collected names are handed to cabi.Transformer.SetSkipFuncs, which stores them in a set",
	"internal/build.fixUntypedShiftTypes range#1 over p.TypesInfo.Types": "the collected expressions are only used to update entries of the same map",
	"internal/build.runEmuCmd range#1 over envMap":                 "placeholder substitution: brace-delimited names are disjoint and the substituted values are paths without braces (assumed)",
	"internal/env.ExpandEnvWithDefault range#1 over envs":           "placeholder substitution: brace-delimited names are disjoint and the substituted values are paths/flags without braces (assumed)",
}

func classifyMapRange(info *types.Info, fd *ast.FuncDecl, rs *ast.RangeStmt) (string, string) {
	// collect effects of the body
	var appendedTo []string
	orderSensitive := ""
	inspectNoLit(rs.Body, func(n ast.Node) bool {
		switch x := n.(type) {
		case *ast.AssignStmt:
			for i, r := range x.Rhs {
				if call, ok := r.(*ast.CallExpr); ok {
					if id, ok := call.Fun.(*ast.Ident); ok && id.Name == "append" && i < len(x.Lhs) {
						appendedTo = append(appendedTo, exprStr(x.Lhs[i]))
					}
				}
			}
			// string accumulation
			if x.Tok == token.ADD_ASSIGN {
				if t := info.TypeOf(x.Lhs[0]); t != nil {
					if b, ok := t.Underlying().(*types.Basic); ok && b.Info()&types.IsString != 0 {
						orderSensitive = "string built by concatenation in map order"
					}
				}
			}
			// sequential rewriting of one variable (s = strings.ReplaceAll(s, k, v))
			if len(x.Lhs) == 1 && len(x.Rhs) == 1 && x.Tok == token.ASSIGN {
				if call, ok := x.Rhs[0].(*ast.CallExpr); ok && len(call.Args) > 0 && exprStr(call.Args[0]) == exprStr(x.Lhs[0]) {
					if f := calleeOf(info, call); f != nil && strings.HasPrefix(f.Name(), "Replace") {
						orderSensitive = "value rewritten sequentially in map order (overlapping keys give order-dependent results)"
					}
				}
			}
		case *ast.ExprStmt:
			if call, ok := x.X.(*ast.CallExpr); ok {
				if f := calleeOf(info, call); f != nil {
					q := qualName(f)
					if strings.HasPrefix(q, "fmt.Fprint") || strings.HasPrefix(q, "fmt.Print") || strings.HasSuffix(q, ".WriteString") || strings.HasSuffix(q, ".Write") {
						orderSensitive = "output written in map order"
					}
				}
			}
		case *ast.ReturnStmt:
			if len(x.Results) > 0 {
				// returning the first match: fine only for existence tests (returns constants)
				allConst := true
				for _, r := range x.Results {
					if tv, ok := info.Types[r]; !ok || (tv.Value == nil && !tv.IsNil()) {
						allConst = false
					}
				}
				if !allConst {
					orderSensitive = "returns a value chosen by map order"
				}
			}
		}
		return true
	})
	if orderSensitive != "" {
		return "bad", orderSensitive
	}
	if len(appendedTo) == 0 {
		return "ok", "order-insensitive body (map/set updates, counters, existence tests)"
	}
	// every slice appended to must be sorted (totally) after the loop within the function, before the function ends
	for _, sl := range appendedTo {
		sorted, stable := false, false
		ast.Inspect(fd.Body, func(n ast.Node) bool {
			call, ok := n.(*ast.CallExpr)
			if !ok || call.Pos() < rs.End() || len(call.Args) == 0 {
				return true
			}
			f := calleeOf(info, call)
			if f == nil {
				return true
			}
			q := qualName(f)
			if (strings.HasPrefix(q, "sort.") || strings.HasPrefix(q, "slices.Sort")) && strings.ReplaceAll(exprStr(call.Args[0]), " ", "") == strings.ReplaceAll(sl, " ", "") {
				sorted = true
				if strings.Contains(q, "Stable") {
					stable = true
				}
			}
			return true
		})
		if !sorted {
			// slice handed to a helper that sorts? accept helpers named sort*/sorted*
			return "bad", "slice " + sl + " is filled in map order and not sorted afterwards in this function"
		}
		if stable {
			return "bad", "slice " + sl + " is filled in map order and then only stably sorted: a stable sort preserves the random input order among elements the comparator treats as equal"
		}
	}
	return "ok", "collected slice(s) " + strings.Join(appendedTo, ",") + " sorted before use"
}

func checkCacheKeys(c *Ctx, bp *packages.Package) {
	get := func(fn string) string {
		fd := findFunc(bp, fn)
		if fd == nil {
			return ""
		}
		res := ""
		for _, call := range callsIn(fd.Body) {
			if f := calleeOf(bp.TypesInfo, call); f != nil && f.Name() == "PackagePaths" {
				var a []string
				for _, e := range call.Args {
					a = append(a, strings.ReplaceAll(exprStr(e), " ", ""))
				}
				res = strings.Join(a, ",")
			}
		}
		return res
	}
	l, s := get("context.tryLoadFromCache"), get("context.saveToCache")
	c.Check(l != "" && l == s, "R13.4", "cache load/store key agreement", 0, "PackagePaths("+l+") on both sides", fmt.Sprintf("lookup uses (%s), store uses (%s): an archive is stored under one key and looked up under another", l, s))
	// targetTriple consumes recorded fields
	if fd := findFunc(bp, "context.targetTriple"); fd != nil {
		src := ""
		for _, call := range callsIn(fd.Body) {
			src = strings.ReplaceAll(exprStr(call), " ", "")
		}
		want := "targetTriple(c.buildConf.Goos,c.buildConf.Goarch,c.crossCompile.LLVMTarget,c.crossCompile.TargetABI)"
		c.Check(src == want, "R13.4", "cache directory triple", fd.Pos(), "goos, goarch, llvm target, target abi (all recorded)", "triple built from "+src)
	} else {
		c.Bad("R13.4", "cache directory triple", 0, "targetTriple not found")
	}
	// fingerprint covers the whole manifest text
	if fd := findFunc(bp, "manifestBuilder.Fingerprint"); fd != nil {
		uses := false
		for _, call := range callsIn(fd.Body) {
			if f := calleeOf(bp.TypesInfo, call); f != nil && f.Name() == "Build" {
				uses = true
			}
		}
		c.Check(uses, "R13.4", "fingerprint hashes the manifest text", fd.Pos(), "digest of Build()", "the fingerprint is not derived from the full manifest")
	}
}

func checkCacheOrder(c *Ctx, bp *packages.Package) {
	info := bp.TypesInfo
	// in the function that calls tryLoadFromCache, collectFingerprint dominates it
	n := 0
	type unitT struct {
		name string
		body *ast.BlockStmt
		g    *fnCFG
	}
	var units []unitT
	for _, fd := range allFuncs(bp) {
		units = append(units, unitT{declName(fd), fd.Body, buildCFG(bp, fd)})
		k := 0
		ast.Inspect(fd.Body, func(x ast.Node) bool {
			if lit, ok := x.(*ast.FuncLit); ok {
				k++
				units = append(units, unitT{fmt.Sprintf("%s$lit%d", declName(fd), k), lit.Body, buildLitCFG(bp, lit)})
			}
			return true
		})
	}
	for _, u := range units {
		nload := 0
		for _, call := range callsIn(u.body) {
			f := calleeOf(info, call)
			if f == nil || f.Name() != "tryLoadFromCache" {
				continue
			}
			n++
			nload++
			dom, found := u.g.dominatedBy(call, func(x ast.Node) bool { return containsCallTo(info, x, "internal/build.context.collectFingerprint") }, nil)
			c.Check(found && dom, "R13.5", fmt.Sprintf("internal/build.%s fingerprint before lookup#%d", u.name, nload), call.Pos(), "collectFingerprint dominates tryLoadFromCache", "a cache lookup can happen before the fingerprint is computed")
		}
		nsave := 0
		for _, call := range callsIn(u.body) {
			f := calleeOf(info, call)
			if f == nil || f.Name() != "saveToCache" {
				continue
			}
			n++
			nsave++
			dom, found := u.g.dominatedBy(call, func(x ast.Node) bool { return containsCallTo(info, x, "internal/build.buildPkg") }, nil)
			// and a failed build must not reach the store: on the err != nil edge of buildPkg the path returns
			domArch, _ := u.g.dominatedBy(call, func(x ast.Node) bool { return containsCallTo(info, x, "internal/build.normalizeToArchive") }, nil)
			c.Check(found && dom && domArch, "R13.5", fmt.Sprintf("internal/build.%s store after build#%d", u.name, nsave), call.Pos(), "buildPkg and normalizeToArchive dominate saveToCache", "an archive can be stored without a completed build")
		}
	}
	for _, fd := range allFuncs(bp) {
		if true {
			break
		}
		for _, call := range callsIn(fd.Body) {
			f := calleeOf(info, call)
			if f == nil || f.Name() != "tryLoadFromCache" {
				continue
			}
			n++
			g := buildCFG(bp, fd)
			dom, found := g.dominatedBy(call, func(x ast.Node) bool { return containsCallTo(info, x, "internal/build.context.collectFingerprint") }, nil)
			c.Check(found && dom, "R13.5", "internal/build."+declName(fd)+" fingerprint before lookup", call.Pos(), "collectFingerprint dominates tryLoadFromCache", "a cache lookup can happen before the fingerprint is computed")
			// main packages never looked up / stored
		}
		for _, call := range callsIn(fd.Body) {
			f := calleeOf(info, call)
			if f == nil || f.Name() != "saveToCache" || declName(fd) == "context.saveToCache" {
				continue
			}
			n++
			g := buildCFG(bp, fd)
			dom, found := g.dominatedBy(call, func(x ast.Node) bool { return containsCallTo(info, x, "internal/build.buildPkg") || containsCallTo(info, x, "internal/build.context.buildPkg") }, nil)
			c.Check(found && dom, "R13.5", "internal/build."+declName(fd)+" store after build", call.Pos(), "buildPkg dominates saveToCache", "an archive can be stored without having been built")
			// the error of buildPkg must have been checked: the path from buildPkg with err != nil must not reach saveToCache
		}
	}
	if n < 2 {
		c.Undecided("R13.5", "cache call sites", 0, fmt.Sprintf("%d tryLoadFromCache/saveToCache call sites found", n))
	}
	// main packages excluded
	for _, fn := range []string{"context.tryLoadFromCache", "context.saveToCache"} {
		_ = fn
	}
	okMain := false
	if sv := findFunc(bp, "context.saveToCache"); sv != nil {
		g := buildCFG(bp, sv)
		for _, call := range callsIn(sv.Body) {
			if f := calleeOf(info, call); f != nil && (f.Name() == "copyFileAtomic" || f.Name() == "createArchiveFile") {
				// every archive write is reachable only when pkg.Name != "main"
				_, reached := g.reach(g.entry(), nil, func(n ast.Node) bool {
					return nodeHas(n, func(x ast.Node) bool { return x == ast.Node(call) })
				}, false, func(b *cfgBlk, k int) bool {
					if ce := condOf(b); ce != nil && strings.ReplaceAll(exprStr(ce), " ", "") == `pkg.Name=="main"` {
						return k == 0 // follow only the main edge: the write must then be unreachable
					}
					return true
				})
				okMain = !reached
			}
		}
	}
	for _, fd := range allFuncs(bp) {
		if okMain {
			break
		}
		ast.Inspect(fd.Body, func(x ast.Node) bool {
			is, ok := x.(*ast.IfStmt)
			if !ok {
				return true
			}
			cond := strings.ReplaceAll(exprStr(is.Cond), " ", "")
			if strings.Contains(cond, `Name!="main"`) || strings.Contains(cond, `Name=="main"`) || strings.Contains(cond, "isMain") {
				if containsCallTo(info, is, "internal/build.context.tryLoadFromCache") || containsCallTo(info, is, "internal/build.context.saveToCache") || containsCallTo(info, is.Body, "internal/build.context.collectFingerprint") {
					okMain = true
				}
			}
			return true
		})
	}
	c.Check(okMain, "R13.5", "main packages are not cached", 0, "cache use is conditional on the package not being main", "no main-package exclusion found around the cache calls")
	// dependency section covers pkg.Imports
	if fd := findFunc(bp, "context.collectDependencyInputs"); fd != nil {
		ok := false
		ast.Inspect(fd.Body, func(x ast.Node) bool {
			if rs, isR := x.(*ast.RangeStmt); isR && strings.ReplaceAll(exprStr(rs.X), " ", "") == "pkg.Imports" {
				ok = true
			}
			return true
		})
		sorted := containsCallTo(info, fd.Body, "sort.Slice") || containsCallTo(info, fd.Body, "sort.Strings")
		c.Check(ok && sorted, "R13.5", "dependency fingerprints cover all imports in sorted order", fd.Pos(), "range pkg.Imports, sorted by ID", "not every import contributes a dependency entry (or the entries follow map order)")
	} else {
		c.Bad("R13.5", "dependency fingerprints cover all imports in sorted order", 0, "collectDependencyInputs not found")
	}
}

func checkManifestSections(c *Ctx, bp *packages.Package) {
	info := bp.TypesInfo
	secs := map[string]string{"envSection": "env", "commonSection": "common", "packageSection": "pkg"}
	// all assignments m.<sec>.<Field> = ... in collect*
	assigned := map[string]bool{}
	for _, fd := range allFuncs(bp) {
		if !strings.HasPrefix(fd.Name.Name, "collect") {
			continue
		}
		ast.Inspect(fd.Body, func(n ast.Node) bool {
			as, ok := n.(*ast.AssignStmt)
			if !ok {
				return true
			}
			for _, l := range as.Lhs {
				s := strings.ReplaceAll(exprStr(l), " ", "")
				if strings.HasPrefix(s, "m.") {
					assigned[s] = true
				}
			}
			return true
		})
	}
	for tn, fld := range secs {
		st := structOf(lookupNamed(bp.Types, tn))
		if st == nil {
			c.Bad("R13.6", "manifest "+tn, 0, "type not found")
			continue
		}
		emptyFn := findFunc(bp, tn+".empty")
		emptySrc := ""
		if emptyFn != nil {
			ast.Inspect(emptyFn.Body, func(n ast.Node) bool {
				if sel, ok := n.(*ast.SelectorExpr); ok {
					emptySrc += sel.Sel.Name + ";"
				}
				return true
			})
		}
		for i := 0; i < st.NumFields(); i++ {
			f := st.Field(i)
			key := fmt.Sprintf("manifest %s.%s", tn, f.Name())
			tag := reflect.StructTag(st.Tag(i)).Get("yaml")
			name, _, _ := strings.Cut(tag, ",")
			isAssigned := assigned["m."+fld+"."+f.Name()]
			inEmpty := strings.Contains(emptySrc, f.Name()+";")
			switch {
			case !isAssigned:
				c.Bad("R13.6", key, f.Pos(), "field is never filled by a collector: the input it stands for does not influence the cache key")
			case name == "-" || name == "":
				c.Bad("R13.6", key, f.Pos(), "field is not serialised into the manifest (yaml tag '"+tag+"'): it does not influence the fingerprint")
			case !inEmpty:
				c.Bad("R13.6", key, f.Pos(), "field is missing from "+tn+".empty(): a section holding only this field is dropped from the manifest")
			default:
				c.OK("R13.6", key, f.Pos(), "filled, serialised as "+name+", covered by empty()")
			}
		}
	}
	_ = info
}

func checkAtomicPublish(c *Ctx, bp *packages.Package) {
	info := bp.TypesInfo
	n := 0
	for _, fd := range allFuncs(bp) {
		file := fileOf(bp.Fset, fd.Pos())
		if file != "cache.go" && file != "collect.go" {
			continue
		}
		writes, renames := 0, 0
		for _, call := range callsIn(fd.Body) {
			f := calleeOf(info, call)
			if f == nil {
				continue
			}
			switch qualName(f) {
			case "os.WriteFile", "os.Create", "os.CreateTemp":
				writes++
			case "os.Rename":
				renames++
			}
		}
		if writes == 0 {
			continue
		}
		n++
		c.Check(renames > 0 || strings.Contains(strings.ToLower(fd.Name.Name), "temp"), "R13.7", "internal/build."+declName(fd)+" publishes atomically", fd.Pos(), "temporary file then os.Rename", "the cache file is written in place: a concurrent or interrupted build can observe a partial archive/manifest under a valid key")
	}
	if n == 0 {
		c.Undecided("R13.7", "cache writers", 0, "no cache writing function found in cache.go/collect.go")
	}
}

func checkConfFields(c *Ctx, bp *packages.Package) {
	info := bp.TypesInfo
	recorded := map[string]bool{}
	used := map[string]token.Pos{}
	for _, fd := range allFuncs(bp) {
		isCollector := strings.HasPrefix(fd.Name.Name, "collect") || fd.Name.Name == "targetTriple"
		ast.Inspect(fd.Body, func(n ast.Node) bool {
			sel, ok := n.(*ast.SelectorExpr)
			if !ok {
				return true
			}
			inner, ok := sel.X.(*ast.SelectorExpr)
			if !ok || inner.Sel.Name != "buildConf" {
				return true
			}
			if s := info.Selections[sel]; s == nil || s.Kind() != types.FieldVal {
				return true
			}
			if isCollector {
				recorded[sel.Sel.Name] = true
			} else if _, has := used[sel.Sel.Name]; !has {
				used[sel.Sel.Name] = sel.Pos()
			}
			return true
		})
	}
	var names []string
	for f := range used {
		names = append(names, f)
	}
	sort.Strings(names)
	for _, f := range names {
		key := "build.Config." + f
		switch {
		case recorded[f]:
			c.OK("R13.8", key, used[f], "read by the collectors")
		case confFieldExceptions[f] != "":
			c.Exists("R13.8", key, used[f], "not recorded: "+confFieldExceptions[f])
		default:
			c.Bad("R13.8", key, used[f], "configuration field read while building but neither recorded in the manifest nor known to be irrelevant to the archive")
		}
	}
}

func init() {
	addMutant(Mutant{Prop: "C13", Name: "env-var-unrecorded", File: "internal/build/collect.go", Old: "\t\tllgoWasiThreads,\n", New: "", Expect: "R13.1 env LLGO_WASI_THREADS"})
	addMutant(Mutant{Prop: "C13", Name: "env-normalised", File: "internal/build/collect.go", Old: "\t\tif v := os.Getenv(envVar); v != \"\" {\n\t\t\tm.env.Vars = m.env.Vars.Add(envVar, v)\n\t\t}", New: "\t\tif isEnvOn(envVar, false) {\n\t\t\tm.env.Vars = m.env.Vars.Add(envVar, \"1\")\n\t\t}", Expect: "R13.1 collectEnvInputs records raw values"})
	addMutant(Mutant{Prop: "C13", Name: "altpkg-undigested", File: "internal/build/collect.go", Old: "altList, err := digestFilesWithOverlay(pkg.AltPkg.GoFiles, c.conf.Overlay)", New: "altList, err := digestFilesWithOverlay(nil, c.conf.Overlay)", Expect: "R13.2 input channel: replacement"})
	addMutant(Mutant{Prop: "C13", Name: "embed-sort-stable-partial", File: "internal/goembed/goembed.go", Old: "sort.Slice(", New: "sort.SliceStable(", Expect: "R13.3 internal/goembed."})
	addMutant(Mutant{Prop: "C13", Name: "store-key-differs", File: "internal/build/collect.go", Old: "paths := cm.PackagePaths(c.targetTriple(), pkg.PkgPath, pkg.Fingerprint)\n\n\t// Check if archive file exists", New: "paths := cm.PackagePaths(c.targetTriple(), pkg.ID, pkg.Fingerprint)\n\n\t// Check if archive file exists", Expect: "R13.4 cache load/store key agreement"})
	addMutant(Mutant{Prop: "C13", Name: "section-field-not-in-empty", File: "internal/build/fingerprint.go", Old: "len(s.LDFlags) == 0 && s.Linker == \"\" && len(s.ExtraFiles) == 0", New: "len(s.LDFlags) == 0 && len(s.ExtraFiles) == 0", Expect: "R13.6 manifest commonSection.Linker"})
	addMutant(Mutant{Prop: "C13", Name: "abi-mode-unrecorded", File: "internal/build/collect.go", Old: "\tm.common.AbiMode = fmt.Sprintf(\"%d\", c.buildConf.AbiMode)\n", New: "", Expect: "R13."})
}
