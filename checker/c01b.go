package main

import (
	"fmt"
	"go/ast"
	"go/types"
	"strings"

	"golang.org/x/tools/go/packages"
)

// checkLoadForwarding: go/ssa fixes the program point of every load (*ssa.UnOp MUL).  A lowering arm that
// looks through its operand's defining load and re-reads the load's ADDRESS at the point of use executes the
// load later than go/ssa placed it: every store, call or send in between becomes visible in a value that Go
// defines as a copy (range over an array variable, a value boxed after its source was overwritten).
func checkLoadForwarding(c *Ctx, cp *packages.Package) {
	c.Rule("R01.8", "loads execute where go/ssa places them: no lowering arm replaces a loaded operand by a later re-read of the load's address", 1)
	info := cp.TypesInfo
	isUnOpPtr := func(t types.Type) bool {
		p, ok := t.(*types.Pointer)
		if !ok {
			return false
		}
		n, ok := p.Elem().(*types.Named)
		return ok && n.Obj().Name() == "UnOp" && n.Obj().Pkg() != nil && strings.HasSuffix(n.Obj().Pkg().Path(), "go/ssa")
	}
	n := 0
	for _, fd := range allFuncs(cp) {
		// (1) `switch n := X.(type) { case *ssa.UnOp: ... p.compileValue(b, n.X) }`   (2) `if u, ok := X.(*ssa.UnOp); ok ... p.compileValue(b, u.X)`
		type bind struct {
			obj   types.Object
			scope ast.Node
			of    string
		}
		var binds []bind
		ast.Inspect(fd.Body, func(x ast.Node) bool {
			switch s := x.(type) {
			case *ast.TypeSwitchStmt:
				as, ok := s.Assign.(*ast.AssignStmt)
				if !ok || len(as.Rhs) != 1 {
					return true
				}
				ta, ok := as.Rhs[0].(*ast.TypeAssertExpr)
				if !ok {
					return true
				}
				for _, st := range s.Body.List {
					cc := st.(*ast.CaseClause)
					if len(cc.List) == 1 && isUnOpPtr(info.TypeOf(cc.List[0])) {
						if o := info.Implicits[cc]; o != nil {
							binds = append(binds, bind{o, cc, exprStr(ta.X)})
						}
					}
				}
			case *ast.IfStmt:
				if as, ok := s.Init.(*ast.AssignStmt); ok && len(as.Rhs) == 1 && len(as.Lhs) == 2 {
					if ta, ok := as.Rhs[0].(*ast.TypeAssertExpr); ok && ta.Type != nil && isUnOpPtr(info.TypeOf(ta.Type)) {
						if id, ok := as.Lhs[0].(*ast.Ident); ok {
							if o := info.Defs[id]; o != nil {
								binds = append(binds, bind{o, s.Body, exprStr(ta.X)})
							}
						}
					}
				}
			}
			return true
		})
		params := map[string]bool{}
		if fd.Type.Params != nil {
			for _, f := range fd.Type.Params.List {
				for _, nm := range f.Names {
					params[nm.Name] = true
				}
			}
		}
		for _, bd := range binds {
			if params[bd.of] {
				continue // the dispatch on the instruction being lowered: its own operand, not a look-through
			}
			ast.Inspect(bd.scope, func(x ast.Node) bool {
				call, ok := x.(*ast.CallExpr)
				if !ok {
					return true
				}
				f := calleeOf(info, call)
				if f == nil || f.Name() != "compileValue" || len(call.Args) != 2 {
					return true
				}
				se, ok := ast.Unparen(call.Args[1]).(*ast.SelectorExpr)
				if !ok || se.Sel.Name != "X" {
					return true
				}
				if id, ok := ast.Unparen(se.X).(*ast.Ident); !ok || info.Uses[id] != bd.obj {
					return true
				}
				// which lowering arm are we in?
				arm := "?"
				for _, cc := range enclosingCases(fd.Body, call) {
					if len(cc.List) > 0 {
						if s := exprStr(cc.List[0]); strings.HasPrefix(s, "*ssa.") && s != "*ssa.UnOp" {
							arm = s
						}
					}
				}
				n++
				key := fmt.Sprintf("cl.%s %s re-reads the address of the load that defines %s", declName(fd), arm, bd.of)
				c.Bad("R01.8", key, call.Pos(), "the operand's defining load is looked through and its address ("+exprStr(call.Args[1])+") is read at the point of use: stores between the load and the use become visible in what Go defines as a copy")
				return true
			})
		}
	}
	if n == 0 {
		c.OK("R01.8", "cl: no lowering arm looks through a load", 0, "no `X.(*ssa.UnOp)` binding is followed by compileValue of the load's address")
	}
}

func init() {
	addMutant(Mutant{Prop: "C01", Name: "field-forwards-load", File: "cl/compile.go",
		Old: "\tcase *ssa.Lookup:\n\t\tx := p.compileValue(b, v.X)\n\t\tidx := p.compileValue(b, v.Index)\n\t\tret = b.Lookup(x, idx, v.CommaOk)",
		New: "\tcase *ssa.Lookup:\n\t\tx := p.compileValue(b, v.X)\n\t\tif u, ok := v.X.(*ssa.UnOp); ok && u.Op == token.MUL {\n\t\t\tx = b.Load(p.compileValue(b, u.X))\n\t\t}\n\t\tidx := p.compileValue(b, v.Index)\n\t\tret = b.Lookup(x, idx, v.CommaOk)",
		Expect: "R01.8 cl.context.compileInstrOrValue *ssa.Lookup"})
}
