package main

import (
	"fmt"
	"go/ast"
	"go/token"
	"go/types"
	"strings"

	"golang.org/x/tools/go/packages"
)

func init() { register("C04", checkC04) }

func checkC04(c *Ctx) (string, error) {
	w, err := loadMain(defaultCfg, "ssa", "cl")
	if err != nil {
		return "", err
	}
	c.use(w)
	sp, cp := w.Main("ssa"), w.Main("cl")
	rw, err := loadRT(defaultCfg, "internal/runtime")
	if err != nil {
		return "", err
	}
	c.use(rw)
	c.use(w)
	rp := rw.RT("internal/runtime")

	c.Rule("R04.1", "defer frame: compiler field indices and initialiser positions match runtime.Defer; each field pointer is taken with its own index", 12)
	c.Rule("R04.2", "every defer kind has an arm wherever defers are recorded and replayed; every non-loop replay re-arms the loop drain", 5)
	c.Rule("R04.3", "runtime protocol: Panic publishes the value before unwinding, Recover clears and frees it exactly once, Rethrow exits only when no frame is left, Goexit marks before unwinding", 6)
	c.Rule("R04.4", "a deferred call's node is popped before the call and freed after it; the conditional-defer bit set is bounded by the target word size", 5)
	c.Rule("R04.5", "defer node header layout is computed identically where nodes are pushed, popped and dispatched", 4)
	c.Rule("R04.6", "defers inside range-over-func bodies are attributed to the outermost enclosing source function", 1)

	checkDeferFrame(c, sp, rp)
	checkDeferKinds(c, sp)
	checkPanicProtocol(c, rp)
	checkCallDefer(c, sp, cp)
	checkDeferNodeLayout(c, sp)
	checkDeferOwner(c, cp)
	checkIDCounters(c, sp)
	checkEmitDoEverywhere(c, cp)
	return "C04 (structural): field indices and the positional initialiser of the per-function defer frame against runtime.Defer; kind coverage of Defer/appendDeferStmt and re-arming of the loop drain in every non-loop arm; the runtime's Panic/Recover/Rethrow/Goexit protocol on all CFG paths (publish before unwind, clear+free once, exit only without a frame); pop-before-call and free-after-call of defer nodes, nil-list guard, target-sized bound of the conditional-defer bit set (no host-size constants in the emitter); identical node header layout at push, pop and dispatch; defer-stack owner search to the outermost source function; identifier counters advanced on every returning path after they are read. NOT decided: LIFO replay order across the three mechanisms, named-result visibility, re-panic behaviour - properties of the emitted control flow.", nil
}

func checkDeferFrame(c *Ctx, sp, rp *packages.Package) {
	st := structOf(lookupNamed(rp.Types, "Defer"))
	if st == nil {
		c.Bad("R04.1", "runtime.Defer", 0, "struct not found")
		return
	}
	want := map[string]string{"deferSigjmpbuf": "Addr", "deferBits": "Bits", "deferLink": "Link", "deferRethrow": "Reth", "deferRunDefers": "Rund", "deferArgs": "Args"}
	idx := map[string]int{}
	for i := 0; i < st.NumFields(); i++ {
		idx[st.Field(i).Name()] = i
	}
	for cn, fn := range want {
		v, ok := pkgConst(sp.Types, cn)
		fi, has := idx[fn]
		c.Check(ok && has && int(v) == fi, "R04.1", "ssa."+cn+" = index of runtime.Defer."+fn, 0, fmt.Sprintf("%d", v), fmt.Sprintf("compiler index %d, runtime field %s is at %d: the compiler reads/writes another field of the frame", v, fn, fi))
	}
	c.Check(st.NumFields() == len(want), "R04.1", "runtime.Defer field count", st.Field(0).Pos(), "6 fields", fmt.Sprintf("runtime.Defer has %d fields, the compiler knows %d", st.NumFields(), len(want)))
	fd := findFunc(sp, "Builder.initDeferState")
	if fd == nil {
		c.Bad("R04.1", "ssa.initDeferState", 0, "function not found")
		return
	}
	c.nfuncs++
	v := newFnView(sp, fd)
	// positional initialiser
	okInit := false
	for _, call := range callsIn(fd.Body) {
		name, args, ok := v.call(call)
		if !ok || name != "ssa.Builder.aggregateAllocU" || len(args) < 5 {
			continue
		}
		var a []string
		for _, e := range args[1:] {
			a = append(a, strings.ReplaceAll(exprStr(e), " ", ""))
		}
		okInit = strings.Join(a, " ") == "jb.impl zero.impl link.impl procBlk.Addr().impl" && strings.Contains(exprStr(args[0]), "Defer()")
		// link must be the current thread frame, zero an integer zero
		if !(strings.Contains(exprStr(v.res(&ast.Ident{Name: "link"})), "") && okInit) {
			okInit = false
		}
	}
	okLink := false
	ast.Inspect(fd.Body, func(n ast.Node) bool {
		if as, ok := n.(*ast.AssignStmt); ok && len(as.Lhs) == 1 && exprStr(as.Lhs[0]) == "link" {
			if rn, _, ok := v.rtCall(as.Rhs[0]); ok && rn == "GetThreadDefer" {
				okLink = true
			}
		}
		return true
	})
	c.Check(okInit && okLink, "R04.1", "ssa.initDeferState initialiser order", fd.Pos(), "{Addr: jmpbuf, Bits: 0, Link: current frame, Reth: proc block}", "the frame is not initialised as (jump buffer, 0, previous frame, replay block) in runtime.Defer's field order")
	// frame published before sigsetjmp; args list initialised
	src := ""
	var order []string
	for _, st := range fd.Body.List {
		ast.Inspect(st, func(n ast.Node) bool {
			if call, ok := n.(*ast.CallExpr); ok {
				if rn, _, ok := v.rtCall(call); ok {
					order = append(order, rn)
				} else if name, _, ok := v.call(call); ok && (name == "ssa.Builder.Sigsetjmp" || name == "ssa.Builder.Store") {
					order = append(order, strings.TrimPrefix(name, "ssa.Builder."))
				}
			}
			return true
		})
	}
	src = strings.Join(order, " ")
	iSet, iJmp := strings.Index(src, "SetThreadDefer"), strings.Index(src, "Sigsetjmp")
	c.Check(iSet >= 0 && iJmp > iSet && strings.Contains(src[:iJmp], "Store"), "R04.1", "ssa.initDeferState publishes the frame before sigsetjmp", fd.Pos(), src, "the frame is not linked (SetThreadDefer) and its argument list initialised before the jump buffer is armed: a panic unwinds to a stale frame")
	// each FieldAddr uses its own index
	pairs := map[string]string{"bitsPtr": "deferBits", "rethPtr": "deferRethrow", "rundPtr": "deferRunDefers", "argsPtr": "deferArgs"}
	for vn, cn := range pairs {
		ok := false
		ast.Inspect(fd.Body, func(n ast.Node) bool {
			if as, isAs := n.(*ast.AssignStmt); isAs && len(as.Lhs) == 1 && exprStr(as.Lhs[0]) == vn {
				if name, args, isCall := v.call(as.Rhs[0]); isCall && name == "ssa.Builder.FieldAddr" && len(args) == 2 && exprStr(args[0]) == "deferData" && exprStr(args[1]) == cn {
					ok = true
				}
			}
			return true
		})
		c.Check(ok, "R04.1", "ssa.initDeferState "+vn+" uses "+cn, fd.Pos(), "FieldAddr(frame, "+cn+")", vn+" is not the address of field "+cn)
	}
	// endDefer unlinks with the Link field
	if ed := findFunc(sp, "Function.endDefer"); ed != nil {
		ev := newFnView(sp, ed)
		ok := false
		ast.Inspect(ed.Body, func(n ast.Node) bool {
			if as, isAs := n.(*ast.AssignStmt); isAs && len(as.Lhs) == 1 && exprStr(as.Lhs[0]) == "link" {
				if name, args, isCall := ev.call(as.Rhs[0]); isCall && name == "ssa.Builder.getField" && len(args) == 2 && exprStr(args[1]) == "deferLink" {
					ok = true
				}
			}
			return true
		})
		ok = ok && len(ev.findRTCalls(ed.Body, "SetThreadDefer")) == 1
		c.Check(ok, "R04.1", "ssa.endDefer restores the previous frame", ed.Pos(), "SetThreadDefer(frame.Link)", "the function does not unlink its frame with the saved Link on exit")
	}
}

func checkDeferKinds(c *Ctx, sp *packages.Package) {
	kinds := []string{"DeferAlways", "DeferInCond", "DeferInLoop"}
	for _, fn := range []string{"Builder.Defer", "Builder.appendDeferStmt"} {
		fd := findFunc(sp, fn)
		if fd == nil {
			c.Bad("R04.2", "ssa."+fn, 0, "function not found")
			continue
		}
		c.nfuncs++
		have := map[string]*ast.CaseClause{}
		ast.Inspect(fd.Body, func(n ast.Node) bool {
			if sw, ok := n.(*ast.SwitchStmt); ok && sw.Tag != nil && exprStr(sw.Tag) == "kind" {
				for _, cs := range sw.Body.List {
					cc := cs.(*ast.CaseClause)
					for _, e := range cc.List {
						have[exprStr(e)] = cc
					}
				}
			}
			return true
		})
		var missing []string
		for _, k := range kinds {
			if have[k] == nil {
				missing = append(missing, k)
			}
		}
		c.Check(len(missing) == 0, "R04.2", "ssa."+fn+" handles every defer kind", fd.Pos(), "always / in-condition / in-loop", fmt.Sprintf("no arm for %v: defers of that kind are recorded but never replayed", missing))
		if fn == "Builder.appendDeferStmt" {
			for _, k := range []string{"DeferAlways", "DeferInCond"} {
				cc := have[k]
				resets := false
				if cc != nil {
					for _, st := range cc.Body {
						if as, ok := st.(*ast.AssignStmt); ok && strings.ReplaceAll(exprStr(as.Lhs[0]), " ", "") == "self.loopDrainerGenerated" && exprStr(as.Rhs[0]) == "false" {
							resets = true
						}
					}
				}
				c.Check(resets, "R04.2", "ssa.appendDeferStmt "+k+" re-arms the loop drain", fd.Pos(), "loopDrainerGenerated = false", "a "+k+" defer lying between two runs of loop defers does not re-arm the drain: the earlier loop's deferred calls are never run")
			}
			if cc := have["DeferInLoop"]; cc != nil {
				ok := false
				for _, call := range callsIn(cc) {
					if f := calleeOf(sp.TypesInfo, call); f != nil && f.Name() == "loopDeferDrainer" {
						ok = true
					}
				}
				c.Check(ok, "R04.2", "ssa.appendDeferStmt DeferInLoop drains the list", cc.Pos(), "loopDeferDrainer", "loop defers are not drained on exit")
			}
		}
	}
}

func checkPanicProtocol(c *Ctx, rp *packages.Package) {
	info := rp.TypesInfo
	isKeyOp := func(n ast.Node, key, op string) bool {
		if _, deferred := n.(*ast.DeferStmt); deferred {
			return false // runs at function exit, not here
		}
		return nodeHas(n, func(x ast.Node) bool {
			call, ok := x.(*ast.CallExpr)
			if !ok {
				return false
			}
			sel, ok := call.Fun.(*ast.SelectorExpr)
			return ok && sel.Sel.Name == op && exprStr(sel.X) == key
		})
	}
	isCallNamed := func(n ast.Node, name string) bool {
		return nodeHas(n, func(x ast.Node) bool {
			call, ok := x.(*ast.CallExpr)
			if !ok {
				return false
			}
			f := calleeOf(info, call)
			return f != nil && f.Name() == name
		})
	}
	// Panic: excepKey.Set dominates Rethrow
	if fd := findFunc(rp, "Panic"); fd != nil {
		c.nfuncs++
		g := buildCFG(rp, fd)
		ok := false
		for _, call := range callsIn(fd.Body) {
			if f := calleeOf(info, call); f != nil && f.Name() == "Rethrow" {
				dom, found := g.dominatedBy(call, func(n ast.Node) bool { return isKeyOp(n, "excepKey", "Set") }, nil)
				ok = found && dom
			}
		}
		c.Check(ok, "R04.3", "runtime.Panic publishes the value before unwinding", fd.Pos(), "excepKey.Set dominates Rethrow", "Rethrow can run before the panic value is stored: recover() finds nothing and the frame replays as a normal return")
	} else {
		c.Bad("R04.3", "runtime.Panic", 0, "function not found")
	}
	// Goexit
	if fd := findFunc(rp, "Goexit"); fd != nil {
		g := buildCFG(rp, fd)
		ok := false
		for _, call := range callsIn(fd.Body) {
			if f := calleeOf(info, call); f != nil && f.Name() == "Rethrow" {
				dom, found := g.dominatedBy(call, func(n ast.Node) bool { return isKeyOp(n, "goexitKey", "Set") }, nil)
				ok = found && dom
			}
		}
		c.Check(ok, "R04.3", "runtime.Goexit marks before unwinding", fd.Pos(), "goexitKey.Set dominates Rethrow", "Goexit unwinds without marking the goroutine as exiting")
	}
	// Recover: on the non-nil path: Set(nil), value read before Free, Free exactly on that path
	if fd := findFunc(rp, "Recover"); fd != nil {
		c.nfuncs++
		g := buildCFG(rp, fd)
		var free *ast.CallExpr
		for _, call := range callsIn(fd.Body) {
			if f := calleeOf(info, call); f != nil && shortName(f) == "internal/clite.Free" {
				free = call
			}
		}
		ok := free != nil
		if ok {
			domClear, _ := g.dominatedBy(free, func(n ast.Node) bool { return isKeyOp(n, "excepKey", "Set") }, nil)
			domRead, _ := g.dominatedBy(free, func(n ast.Node) bool {
				as, isAs := n.(*ast.AssignStmt)
				return isAs && exprStr(as.Lhs[0]) == "ret" && strings.Contains(exprStr(as.Rhs[0]), "ptr")
			}, nil)
			domNil, _ := g.dominatedBy(free, func(n ast.Node) bool { return false }, func(b *cfgBlk, k int) bool {
				if ce := condOf(b); ce != nil && strings.ReplaceAll(exprStr(ce), " ", "") == "ptr!=nil" {
					return k == 1 // follow only the nil edge: Free must be unreachable
				}
				return true
			})
			ok = domClear && domRead && domNil
		}
		// the key is cleared with nil
		okNil := false
		for _, call := range callsIn(fd.Body) {
			if sel, isSel := call.Fun.(*ast.SelectorExpr); isSel && sel.Sel.Name == "Set" && exprStr(sel.X) == "excepKey" && len(call.Args) == 1 && isNilIdent(info, call.Args[0]) {
				okNil = true
			}
		}
		c.Check(ok && okNil, "R04.3", "runtime.Recover clears, reads, then frees the pending panic", fd.Pos(), "on ptr != nil: Set(nil); ret = *ptr; Free(ptr)", "recover does not clear the pending panic before returning it (it would be rethrown), or frees the value before reading it")
	} else {
		c.Bad("R04.3", "runtime.Recover", 0, "function not found")
	}
	// Rethrow: Exit only when link == nil; otherwise longjmp to link.Addr
	if fd := findFunc(rp, "Rethrow"); fd != nil {
		c.nfuncs++
		g := buildCFG(rp, fd)
		okExit, okJmp, okTrace := true, false, false
		for _, call := range callsIn(fd.Body) {
			f := calleeOf(info, call)
			if f == nil {
				continue
			}
			switch shortName(f) {
			case "internal/clite.Exit":
				// reachable only via the link == nil edge (or the main-thread Goexit branch)
				dom, found := g.dominatedBy(call, func(n ast.Node) bool { return false }, func(b *cfgBlk, k int) bool {
					if ce := condOf(b); ce != nil {
						s := strings.ReplaceAll(exprStr(ce), " ", "")
						if s == "link==nil" {
							return k == 1
						}
						if s == "link!=nil" {
							return k == 0
						}
					}
					return true
				})
				if found && !dom { // not found: the call sits in dead code behind a non-returning call
					okExit = false
				}
			case "internal/clite.Siglongjmp":
				if len(call.Args) == 2 && strings.ReplaceAll(exprStr(call.Args[0]), " ", "") == "link.Addr" {
					if v, isC := constInt(info, call.Args[1]); isC && v != 0 {
						okJmp = true
					}
				}
			case "internal/runtime.TracePanic":
				okTrace = true
			}
		}
		c.Check(okExit, "R04.3", "runtime.Rethrow terminates only without an enclosing frame", fd.Pos(), "Exit reachable only when link == nil", "the process exits although a frame with deferred calls (and a possible recover) is still pending")
		c.Check(okJmp, "R04.3", "runtime.Rethrow unwinds to the innermost frame", fd.Pos(), "Siglongjmp(link.Addr, non-zero)", "unwinding does not jump to the innermost frame's buffer with a non-zero value (sigsetjmp would look like its first return)")
		c.Check(okTrace, "R04.3", "runtime.Rethrow reports an uncaught panic", fd.Pos(), "TracePanic before exit", "an uncaught panic terminates silently")
		_ = isCallNamed
	} else {
		c.Bad("R04.3", "runtime.Rethrow", 0, "function not found")
	}
}

func checkCallDefer(c *Ctx, sp, cp *packages.Package) {
	fd := findFunc(sp, "Builder.callDefer")
	if fd == nil {
		c.Bad("R04.4", "ssa.callDefer", 0, "function not found")
		return
	}
	c.nfuncs++
	v := newFnView(sp, fd)
	// inside the IfThen literal: Store(argsPtr, prev) ... buildCall ... FreeDeferNode
	var lit *ast.FuncLit
	guard := false
	for _, call := range callsIn(fd.Body) {
		if name, args, ok := v.call(call); ok && name == "ssa.Builder.IfThen" && len(args) == 2 {
			lit, _ = args[1].(*ast.FuncLit)
			guard = exprStr(args[0]) == "has"
		}
	}
	if lit == nil {
		c.Bad("R04.4", "ssa.callDefer pops before calling", fd.Pos(), "no guarded replay block")
		return
	}
	var pop, callPos, freePos token.Pos
	ast.Inspect(lit.Body, func(n ast.Node) bool {
		call, ok := n.(*ast.CallExpr)
		if !ok {
			return true
		}
		if name, args, ok := v.call(call); ok && name == "ssa.Builder.Store" && len(args) == 2 && strings.ReplaceAll(exprStr(args[0]), " ", "") == "self.argsPtr" && strings.Contains(exprStr(args[1]), "getField(data, 0)") {
			pop = call.Pos()
		}
		if id, ok := call.Fun.(*ast.Ident); ok && id.Name == "buildCall" {
			callPos = call.Pos()
		}
		if rn, _, ok := v.rtCall(call); ok && rn == "FreeDeferNode" {
			freePos = call.Pos()
		}
		return true
	})
	c.Check(pop != 0 && callPos != 0 && pop < callPos, "R04.4", "ssa.callDefer pops before calling", fd.Pos(), "list head advanced to node.prev before the deferred call", "the node is still the list head while its call runs: a panic inside the deferred call replays the same call again")
	c.Check(freePos != 0 && freePos > callPos, "R04.4", "ssa.callDefer frees the node after the call", fd.Pos(), "FreeDeferNode after the call", "the node is freed before its arguments are used, or never")
	// guard on nil list
	okHas := false
	ast.Inspect(fd.Body, func(n ast.Node) bool {
		if as, ok := n.(*ast.AssignStmt); ok && exprStr(as.Lhs[0]) == "has" {
			if name, args, ok := v.call(as.Rhs[0]); ok && name == "ssa.Builder.BinOp" && v.constName(args[0]) == "go/token.NEQ" {
				okHas = true
			}
		}
		return true
	})
	c.Check(guard && okHas, "R04.4", "ssa.callDefer guards an empty list", fd.Pos(), "replay only if the list is non-nil", "a drained list is dereferenced when the exit path replays the statement")
	// conditional-defer bound uses the target size
	df := findFunc(sp, "Builder.Defer")
	if df != nil {
		g := buildCFG(sp, df)
		var bump ast.Node
		ast.Inspect(df.Body, func(n ast.Node) bool {
			if inc, ok := n.(*ast.IncDecStmt); ok && strings.ReplaceAll(exprStr(inc.X), " ", "") == "self.nextBit" {
				bump = inc
			}
			return true
		})
		ok := false
		why := "no bound on the number of conditional defers"
		if bump != nil {
			dom, found := g.dominatedBy(bump, func(n ast.Node) bool {
				e, isExpr := n.(ast.Expr)
				if !isExpr {
					return false
				}
				x, y, op, cmp := binCmp(e)
				if !cmp || op != token.GEQ || !strings.Contains(exprStr(x), "next") {
					return false
				}
				return strings.Contains(exprStr(y), "PointerSize()")
			}, nil)
			ok = found && dom
			why = "the bound on conditional defers does not use the target's pointer size"
		}
		c.Check(ok, "R04.4", "ssa.Defer bounds conditional defers by the target word", df.Pos(), "next >= PointerSize()*8 -> compile-time panic", why)
	}
	// no host-size constants anywhere in the emitter
	n := 0
	for _, p := range []*packages.Package{sp, cp} {
		for _, f := range allFuncs(p) {
			ast.Inspect(f.Body, func(x ast.Node) bool {
				call, ok := x.(*ast.CallExpr)
				if !ok {
					return true
				}
				s := strings.ReplaceAll(exprStr(call), " ", "")
				if s == "unsafe.Sizeof(uintptr(0))" || s == "unsafe.Sizeof(int(0))" || s == "unsafe.Sizeof(uint(0))" {
					n++
					c.Bad("R04.4", fmt.Sprintf("%s.%s host word size #%d", strings.TrimPrefix(p.PkgPath, mainMod+"/"), declName(f), n), call.Pos(), "the emitter decides with the word size of the machine running the compiler ("+s+"), not the target's")
				}
				return true
			})
			ast.Inspect(f.Body, func(x ast.Node) bool {
				if sel, ok := x.(*ast.SelectorExpr); ok {
					s := exprStr(sel)
					if s == "bits.UintSize" || s == "strconv.IntSize" {
						n++
						c.Bad("R04.4", fmt.Sprintf("%s.%s host word size #%d", strings.TrimPrefix(p.PkgPath, mainMod+"/"), declName(f), n), sel.Pos(), "the emitter decides with the host's "+s)
					}
				}
				return true
			})
		}
	}
	if n == 0 {
		c.OK("R04.4", "emitter free of host word-size constants", 0, "no unsafe.Sizeof(uintptr(0))/bits.UintSize/strconv.IntSize in ssa or cl")
	}
}

func checkDeferNodeLayout(c *Ctx, sp *packages.Package) {
	grab := func(fn string) (string, string) {
		fd := findFunc(sp, fn)
		if fd == nil {
			return "", ""
		}
		base, pred := "", ""
		ast.Inspect(fd.Body, func(n ast.Node) bool {
			switch x := n.(type) {
			case *ast.AssignStmt:
				if len(x.Lhs) == 1 && exprStr(x.Lhs[0]) == "offset" && x.Tok == token.DEFINE {
					base = exprStr(x.Rhs[0])
				}
			case *ast.IfStmt:
				for _, st := range x.Body.List {
					if inc, ok := st.(*ast.IncDecStmt); ok && exprStr(inc.X) == "offset" && inc.Tok == token.INC {
						pred = strings.ReplaceAll(exprStr(x.Cond), " ", "")
					}
				}
			}
			return true
		})
		return base, pred
	}
	b1, p1 := grab("Builder.saveDeferArgsTo")
	b2, p2 := grab("Builder.callDefer")
	c.Check(b1 != "" && b1 == b2, "R04.5", "defer node argument offset (push vs pop)", 0, "offset "+b1+" on both sides", fmt.Sprintf("push uses base offset %q, pop uses %q: arguments are read from the wrong fields", b1, b2))
	c.Check(p1 != "" && p1 == p2, "R04.5", "defer node closure slot predicate (push vs pop)", 0, p1, fmt.Sprintf("push reserves the closure slot when %q, pop expects it when %q", p1, p2))
	// header fields: [0]=prev, [1]=id; dispatcher reads field 1 of {ptr, uintptr}
	if fd := findFunc(sp, "Builder.saveDeferArgsTo"); fd != nil {
		src := strings.ReplaceAll(funcText(fd), " ", "")
		c.Check(strings.Contains(src, "typs[0]=prog.VoidPtr()") && strings.Contains(src, "flds[0]=b.Load(argsPtr).impl") && strings.Contains(src, "typs[1]=prog.Uintptr()") && strings.Contains(src, "flds[1]=id.impl"), "R04.5", "defer node header = (prev, id)", fd.Pos(), "field 0 previous node, field 1 statement id", "the node header is not (previous node, statement id)")
	}
	if fd := findFunc(sp, "Builder.loopDeferDrainer"); fd != nil {
		src := strings.ReplaceAll(funcText(fd), " ", "")
		c.Check(strings.Contains(src, "hdr=prog.Struct(prog.VoidPtr(),prog.Uintptr())") && strings.Contains(src, "nodeID=b.getField(hdrData,1)"), "R04.5", "loop drain reads the id from header field 1", fd.Pos(), "{ptr, uintptr}.1", "the dispatcher decodes the statement id from another position than where it is stored")
	}
}

func checkDeferOwner(c *Ctx, cp *packages.Package) {
	fd := findFunc(cp, "context.deferStackOwner")
	if fd == nil {
		c.Bad("R04.6", "cl.deferStackOwner", 0, "function not found")
		return
	}
	ok := false
	ast.Inspect(fd.Body, func(n ast.Node) bool {
		if fs, isFor := n.(*ast.ForStmt); isFor && fs.Cond != nil && strings.Contains(strings.ReplaceAll(exprStr(fs.Cond), " ", ""), `fn.Synthetic!=""`) {
			for _, st := range fs.Body.List {
				if as, isAs := st.(*ast.AssignStmt); isAs && exprStr(as.Lhs[0]) == "fn" && strings.ReplaceAll(exprStr(as.Rhs[0]), " ", "") == "fn.Parent()" {
					ok = true
				}
			}
		}
		return true
	})
	c.Check(ok, "R04.6", "cl.deferStackOwner walks to the outermost source function", fd.Pos(), "loop while fn.Synthetic != \"\": fn = fn.Parent()", "the owner search stops after one level: a defer in a range-over-func body nested in another is attached to the outer yield closure, whose frame never drains it")
	_ = types.Typ
}

func init() {
	addMutant(Mutant{Prop: "C04", Name: "frame-index-swapped", File: "ssa/eh.go", Old: "\tdeferRethrow\n\tdeferRunDefers\n", New: "\tdeferRunDefers\n\tdeferRethrow\n", Expect: "R04.1 ssa.deferRethrow"})
	addMutant(Mutant{Prop: "C04", Name: "frame-init-order", File: "ssa/eh.go", Old: "ptr := b.aggregateAllocU(prog.Defer(), jb.impl, zero.impl, link.impl, procBlk.Addr().impl)", New: "ptr := b.aggregateAllocU(prog.Defer(), jb.impl, link.impl, zero.impl, procBlk.Addr().impl)", Expect: "R04.1 ssa.initDeferState initialiser order"})
	addMutant(Mutant{Prop: "C04", Name: "cond-defer-no-rearm", File: "ssa/eh.go", Old: "\t\tcase DeferInCond:\n\t\t\t// Leaving a run of loop defers; allow the next loop-defer statement\n\t\t\t// (earlier in source order) to generate its own drainer.\n\t\t\tself.loopDrainerGenerated = false\n", New: "\t\tcase DeferInCond:\n", Expect: "R04.2 ssa.appendDeferStmt DeferInCond re-arms"})
	addMutant(Mutant{Prop: "C04", Name: "panic-rethrow-before-set", File: "runtime/internal/runtime/z_rt.go", Old: "\texcepKey.Set(ptr)\n\n\tRethrow((*Defer)(c.GoDeferData()))", New: "\tdefer excepKey.Set(ptr)\n\n\tRethrow((*Defer)(c.GoDeferData()))", Expect: "R04.3 runtime.Panic"})
	addMutant(Mutant{Prop: "C04", Name: "recover-no-clear", File: "runtime/internal/runtime/z_rt.go", Old: "\t\texcepKey.Set(nil)\n\t\tret = *(*any)(ptr)", New: "\t\tret = *(*any)(ptr)", Expect: "R04.3 runtime.Recover"})
	addMutant(Mutant{Prop: "C04", Name: "rethrow-exit-with-frame", File: "runtime/internal/runtime/z_default.go", Old: "\t\tif link == nil {\n\t\t\tTracePanic(*(*any)(ptr))", New: "\t\tif link == nil || link.Link == nil {\n\t\t\tTracePanic(*(*any)(ptr))", Expect: "R04.3 runtime.Rethrow terminates only"})
	addMutant(Mutant{Prop: "C04", Name: "calldefer-pop-after-call", File: "ssa/eh.go", Old: "\t\tb.Store(self.argsPtr, Expr{b.getField(data, 0).impl, prog.VoidPtr()})\n\t\tif fn != Nil && fn.kind == vkClosure {\n\t\t\tfn = b.getField(data, 2)\n\t\t\toffset++\n\t\t}\n\t\tfor i := 0; i < len(args); i++ {\n\t\t\targs[i] = b.getField(data, i+offset)\n\t\t}\n\t\tbuildCall(b, fn, args...)\n", New: "\t\tif fn != Nil && fn.kind == vkClosure {\n\t\t\tfn = b.getField(data, 2)\n\t\t\toffset++\n\t\t}\n\t\tfor i := 0; i < len(args); i++ {\n\t\t\targs[i] = b.getField(data, i+offset)\n\t\t}\n\t\tbuildCall(b, fn, args...)\n\t\tb.Store(self.argsPtr, Expr{b.getField(data, 0).impl, prog.VoidPtr()})\n", Expect: "R04.4 ssa.callDefer pops before calling"})
	addMutant(Mutant{Prop: "C04", Name: "host-word-size", File: "ssa/eh.go", Old: "if next >= prog.PointerSize()*8 { // bits is a target-sized uintptr", New: "if next >= 64 {", Expect: "R04.4 ssa.Defer bounds conditional defers"})
	addMutant(Mutant{Prop: "C04", Name: "node-offset-mismatch", File: "ssa/eh.go", Old: "\t\tptr := b.Load(self.argsPtr)\n\t\tdata := b.Load(Expr{ptr.impl, prog.Pointer(typ)})\n\t\toffset := 2 // prev + id", New: "\t\tptr := b.Load(self.argsPtr)\n\t\tdata := b.Load(Expr{ptr.impl, prog.Pointer(typ)})\n\t\toffset := 1 // prev", Expect: "R04.5 defer node argument offset"})
	addMutant(Mutant{Prop: "C04", Name: "owner-one-level", File: "cl/instr.go", Old: "\tfor fn != nil && fn.Synthetic != \"\" {\n\t\tfn = fn.Parent()\n\t}", New: "\tif fn != nil && fn.Synthetic != \"\" {\n\t\tfn = fn.Parent()\n\t}", Expect: "R04.6 cl.deferStackOwner"})
}
