package main

import (
	"fmt"
	"go/ast"
	"go/types"
	"strings"

	"golang.org/x/tools/go/packages"
)

func init() { register("C15", checkC15) }

func checkC15(c *Ctx) (string, error) {
	w, err := loadMain(defaultCfg, "ssa", "ssa/abi", "cl", "internal/build")
	if err != nil {
		return "", err
	}
	c.use(w)
	sp, ap, cp, bp := w.Main("ssa"), w.Main("ssa/abi"), w.Main("cl"), w.Main("internal/build")
	rw, err := loadRT(defaultCfg, "abi", "internal/lib/reflect")
	if err != nil {
		return "", err
	}
	c.use(rw)
	c.use(w)
	rtabi, rfl := rw.RT("abi"), rw.RT("internal/lib/reflect")

	c.Rule("R15.1", "what reflection reads is what the compiler wrote: descriptor writers match the runtime abi structs field for field; kind numbers agree", 60)
	c.Rule("R15.2", "field names, tags and embedding survive every type rebuild between the source type and its descriptor", 8)
	c.Rule("R15.3", "reflect-usage pruning: every recognised reflect entry point exists in the reflect package, every type-constructor flag keeps the descriptors of its kind, a non-constant method selector keeps all methods", 16)
	c.Rule("R15.4", "type strings: byte/rune/unsafe.Pointer spellings, channel directions and kind names equal reflect's; element positions that can hold pointer types use the star-aware rendering in both string builders", 40)

	checkDescriptorLayout(c, "R15.1", sp, rtabi)
	sub := newCtx(c.Prop, c.Tier)
	sub.fset = c.fset
	sub.Rule("R08.6", "", 0)
	checkBasicKindCast(sub, ap, rtabi)
	for _, o := range sub.obls {
		c.add("R15.1", o.Construct, 0, o.Verdict, o.Witness, o.Nontrivial)
		c.obls[len(c.obls)-1].Pos = o.Pos
	}
	sub2 := newCtx(c.Prop, c.Tier)
	sub2.fset = c.fset
	sub2.Rule("R07.2", "", 0)
	for _, p := range []*packages.Package{sp, cp} {
		checkRebuilds(sub2, p)
	}
	for _, o := range sub2.obls {
		if strings.Contains(o.Construct, "tags") || strings.Contains(o.Construct, "Anonymous") || strings.Contains(o.Construct, "embedding") || strings.Contains(o.Construct, "Name") || strings.Contains(o.Construct, "Pkg") {
			c.add("R15.2", o.Construct, 0, o.Verdict, o.Witness, o.Nontrivial)
			c.obls[len(c.obls)-1].Pos = o.Pos
		}
	}
	checkReflectPruning(c, sp, bp, rfl)
	checkTypeStrings(c, ap, rtabi, rfl)
	checkPublicElemLinks(c, sp)
	checkNamedNoExtraStar(c, ap)
	checkExportedMethodsFirst(c, sp, rtabi)
	checkDeepEqualSlice(c, rfl)
	checkFieldFlagInheritance(c, rfl)
	checkMakeIntNarrows(c, rfl)
	return "C15 (structural): descriptor layout contract (the structs lib/reflect reads through vs the value lists the compiler emits), kind numbering, preservation of names/tags/embedding through every type rebuild, soundness of the reflect-usage pruning (recognised names exist, each constructor flag retains its kind, dynamic method selection retains all methods), and agreement of the two type-string builders with reflect's spellings incl. the star-aware rendering of element types. NOT decided: the behaviour of the reflect port's algorithms (field search, DeepEqual, conversions, method calls) and fmt verb formatting - these are value-level.", nil
}

func checkReflectPruning(c *Ctx, sp, bp, rfl *packages.Package) {
	fd := findFunc(sp, "Builder.checkReflect")
	if fd == nil {
		c.Bad("R15.3", "ssa.checkReflect", 0, "function not found")
		return
	}
	c.nfuncs++
	info := sp.TypesInfo
	flagOfCtor := map[string]string{}
	ast.Inspect(fd.Body, func(n ast.Node) bool {
		cc, ok := n.(*ast.CaseClause)
		if !ok {
			return true
		}
		for _, e := range cc.List {
			name, isS := constString(info, e)
			if !isS || !strings.HasPrefix(name, "reflect.") {
				continue
			}
			parts := strings.Split(strings.TrimPrefix(name, "reflect."), ".")
			exists := false
			if len(parts) == 1 {
				_, exists = rfl.Types.Scope().Lookup(parts[0]).(*types.Func)
			} else if n := lookupNamed(rfl.Types, parts[0]); n != nil {
				for i := 0; i < n.NumMethods(); i++ {
					if n.Method(i).Name() == parts[1] {
						exists = true
					}
				}
			}
			c.Check(exists, "R15.3", "checkReflect recognises "+name, e.Pos(), "declared in the reflect package", "the pruning pass watches for "+name+", which the reflect package does not declare (the real entry point goes unnoticed and its descriptors are pruned)")
			// flag set in this clause
			for _, st := range cc.Body {
				if as, isAs := st.(*ast.AssignStmt); isAs && strings.Contains(exprStr(as.Lhs[0]), "NeedAbiInit") {
					flagOfCtor[name] = exprStr(as.Rhs[0])
				}
			}
		}
		return true
	})
	wantFlag := map[string]string{"reflect.ArrayOf": "ReflectArrayOf", "reflect.ChanOf": "ReflectChanOf", "reflect.FuncOf": "ReflectFuncOf", "reflect.MapOf": "ReflectMapOf", "reflect.PointerTo": "ReflectPointerTo", "reflect.PtrTo": "ReflectPointerTo", "reflect.SliceOf": "ReflectSliceOf", "reflect.StructOf": "ReflectStructOf"}
	for n, f := range wantFlag {
		c.Check(flagOfCtor[n] == f, "R15.3", "checkReflect "+n+" sets "+f, fd.Pos(), f, fmt.Sprintf("%s sets %q: descriptors of the constructed kind are pruned although the program can create such types at run time", n, flagOfCtor[n]))
	}
	// dynamic selector: in the Method / MethodByName clauses the non-constant path sets ReflectMethodDynamic
	for _, m := range []string{"reflect.Value.Method", "reflect.Value.MethodByName"} {
		var clause *ast.CaseClause
		ast.Inspect(fd.Body, func(n ast.Node) bool {
			if cc, ok := n.(*ast.CaseClause); ok {
				for _, e := range cc.List {
					if s, isS := constString(info, e); isS && s == m {
						clause = cc
					}
				}
			}
			return true
		})
		ok := false
		if clause != nil && len(clause.Body) == 1 {
			if outer, isIf := clause.Body[0].(*ast.IfStmt); isIf && len(outer.Body.List) == 2 {
				inner, isIf2 := outer.Body.List[0].(*ast.IfStmt)
				dyn, isAs := outer.Body.List[1].(*ast.AssignStmt)
				if isIf2 && isAs && strings.Contains(exprStr(dyn.Rhs[0]), "ReflectMethodDynamic") {
					// the constant branch ends with return
					if n := len(inner.Body.List); n > 0 {
						if _, isRet := inner.Body.List[n-1].(*ast.ReturnStmt); isRet {
							ok = true
						}
					}
				}
			}
		}
		c.Check(ok, "R15.3", "checkReflect "+m+" non-constant selector keeps all methods", fd.Pos(), "constant -> record it; otherwise ReflectMethodDynamic", "a method selected by a run-time value is not treated as 'any method': the method table is pruned and the call fails at run time")
	}
	// filterAbiSymbol: each constructor flag retains its kind
	ff := findFunc(bp, "filterAbiSymbol")
	if ff == nil {
		c.Bad("R15.3", "build.filterAbiSymbol", 0, "function not found")
		return
	}
	arms, _ := typeSwitchArms(ff)
	wantArm := map[string]string{"Array": "ReflectArrayOf", "Chan": "ReflectChanOf", "Signature": "ReflectFuncOf", "Map": "ReflectMapOf", "Pointer": "ReflectPointerTo", "Slice": "ReflectSliceOf", "Struct": "ReflectStructOf"}
	for kind, flag := range wantArm {
		cc := arms[kind]
		ok := false
		if cc != nil {
			ast.Inspect(cc, func(n ast.Node) bool {
				if is, isIf := n.(*ast.IfStmt); isIf && strings.Contains(exprStr(is.Cond), "llssa."+flag) && strings.Contains(exprStr(is.Cond), "!= 0") {
					for _, st := range is.Body.List {
						if r, isRet := st.(*ast.ReturnStmt); isRet && exprStr(r.Results[0]) == "true" {
							ok = true
						}
					}
				}
				return true
			})
		}
		c.Check(ok, "R15.3", "filterAbiSymbol keeps "+kind+" descriptors under "+flag, ff.Pos(), "flag -> keep", "descriptors of kind "+kind+" are not retained when the program uses the matching reflect constructor")
	}
	// method mask retains function types (needed to describe methods)
	if cc := arms["Signature"]; cc != nil {
		c.Check(strings.Contains(nodeSrc(cc), "ReflectMethodMask"), "R15.3", "filterAbiSymbol keeps func descriptors when methods are reflected", cc.Pos(), "ReflectMethodMask -> keep", "method reflection is enabled but function type descriptors are pruned")
	}
}

func checkTypeStrings(c *Ctx, ap, rtabi, rfl *packages.Package) {
	// basic spellings in both builders
	for _, fn := range []string{"Builder.Str", "Builder.reflectTypeArgBaseString"} {
		fd := findFunc(ap, fn)
		if fd == nil {
			c.Bad("R15.4", "abi."+fn, 0, "function not found")
			continue
		}
		c.nfuncs++
		arms, _ := typeSwitchArms(fd)
		got := map[string]string{}
		if bc := arms["Basic"]; bc != nil {
			ast.Inspect(bc, func(n ast.Node) bool {
				if cc, ok := n.(*ast.CaseClause); ok && len(cc.Body) == 1 {
					if r, isRet := cc.Body[0].(*ast.ReturnStmt); isRet {
						if s, isS := constString(ap.TypesInfo, r.Results[0]); isS {
							for _, e := range cc.List {
								got[strings.TrimPrefix(exprStr(e), "types.")] = s
							}
						}
					}
				}
				return true
			})
		}
		for k, want := range map[string]string{"UnsafePointer": "unsafe.Pointer", "Byte": "uint8", "Rune": "int32"} {
			c.Check(got[k] == want, "R15.4", "abi."+fn+" spells "+k, fd.Pos(), want, fmt.Sprintf("%s is rendered as %q, reflect prints %q", k, got[k], want))
		}
		// star-aware rendering of element types
		starAware := map[string]string{"Builder.Str": "realStr", "Builder.reflectTypeArgBaseString": "reflectTypeArgString"}[fn]
		for _, kind := range []string{"Slice", "Array", "Chan", "Map"} {
			cc := arms[kind]
			if cc == nil {
				c.Bad("R15.4", "abi."+fn+" "+kind+" arm", fd.Pos(), "no arm")
				continue
			}
			ok := false
			bad := ""
			for _, call := range callsIn(cc) {
				f := calleeOf(ap.TypesInfo, call)
				if f == nil || len(call.Args) != 1 || !strings.HasSuffix(strings.ReplaceAll(exprStr(call.Args[0]), " ", ""), ".Elem()") {
					continue
				}
				if f.Name() == starAware {
					ok = true
				} else if f.Pkg() == ap.Types {
					bad = f.Name()
				}
			}
			c.Check(ok && bad == "", "R15.4", "abi."+fn+" "+kind+" element is star-aware", cc.Pos(), starAware+"(elem)", fmt.Sprintf("the element type of a %s is rendered with %s, which drops the '*' of pointer elements: %s of *T prints like %s of T", kind, bad, kind, kind))
		}
		// map keys can be pointer types too
		if cc := arms["Map"]; cc != nil {
			okKey, badKey := false, ""
			for _, call := range callsIn(cc) {
				f := calleeOf(ap.TypesInfo, call)
				if f == nil || len(call.Args) != 1 || !strings.HasSuffix(strings.ReplaceAll(exprStr(call.Args[0]), " ", ""), ".Key()") {
					continue
				}
				if f.Name() == starAware {
					okKey = true
				} else if f.Pkg() == ap.Types {
					badKey = f.Name()
				}
			}
			c.Check(okKey && badKey == "", "R15.4", "abi."+fn+" Map key is star-aware", cc.Pos(), starAware+"(key)", "the key type of a map is rendered with "+badKey+", which drops the '*' of pointer keys: map[*T]V prints as map[T]V")
		}
		// chan (<-chan T): a bidirectional channel of receive-only channels needs parentheses
		if cc := arms["Chan"]; cc != nil {
			src := strings.ReplaceAll(srcOf(cc), " ", "")
			// the direction test may live in a helper of the same package
			for _, call := range callsIn(cc) {
				if f := calleeOf(ap.TypesInfo, call); f != nil && f.Pkg() == ap.Types {
					if hd := findFunc(ap, f.Name()); hd != nil && hd.Recv == nil {
						hs := strings.ReplaceAll(srcOf(hd.Body), " ", "")
						if strings.Contains(hs, "RecvOnly") && strings.Contains(hs, "SendRecv") {
							src += "RecvOnly"
						}
					}
				}
			}
			c.Check(strings.Contains(src, "RecvOnly") && strings.Contains(src, `"("`), "R15.4", "abi."+fn+" Chan of receive-only chan is parenthesised", cc.Pos(), "chan (<-chan T)", "a channel whose element is a receive-only channel is rendered without parentheses: `chan <-chan int` where reflect prints `chan (<-chan int)`")
		}
	}
	// struct tags are part of the type string
	if fd := findFunc(ap, "Builder.structStr"); fd != nil {
		c.Check(nodeHas(fd.Body, func(n ast.Node) bool {
			call, ok := n.(*ast.CallExpr)
			if !ok {
				return false
			}
			f := calleeOf(ap.TypesInfo, call)
			return f != nil && f.Name() == "Tag" && recvNamed(f) == "Struct"
		}), "R15.4", "abi.Builder.structStr renders field tags", fd.Pos(), "Struct.Tag(i) reaches the string", "struct type strings omit field tags: reflect prints `struct { A int \"json:\\\"a\\\"\" }`")
	} else {
		c.Undecided("R15.4", "abi.Builder.structStr", 0, "function not found")
	}
	{
	}
	// channel directions
	if fd := findFunc(ap, "ChanDir"); fd != nil {
		got := map[string]string{}
		ast.Inspect(fd.Body, func(n ast.Node) bool {
			if cc, ok := n.(*ast.CaseClause); ok && len(cc.Body) == 1 && len(cc.List) == 1 {
				if r, isRet := cc.Body[0].(*ast.ReturnStmt); isRet && len(r.Results) == 2 {
					s, _ := constString(ap.TypesInfo, r.Results[1])
					got[strings.TrimPrefix(exprStr(cc.List[0]), "types.")] = strings.TrimPrefix(exprStr(r.Results[0]), "abi.") + ":" + s
				}
			}
			return true
		})
		want := map[string]string{"SendRecv": "BothDir:chan", "SendOnly": "SendDir:chan<-", "RecvOnly": "RecvDir:<-chan"}
		for k, wv := range want {
			c.Check(got[k] == wv, "R15.4", "abi.ChanDir "+k, fd.Pos(), wv, fmt.Sprintf("%s maps to %q, reflect expects %q", k, got[k], wv))
		}
		// reflect's own String()
		if sf := findFunc(rfl, "ChanDir.String"); sf != nil {
			rs := map[string]string{}
			ast.Inspect(sf.Body, func(n ast.Node) bool {
				if cc, ok := n.(*ast.CaseClause); ok && len(cc.Body) == 1 && len(cc.List) == 1 {
					if r, isRet := cc.Body[0].(*ast.ReturnStmt); isRet {
						s, _ := constString(rfl.TypesInfo, r.Results[0])
						rs[exprStr(cc.List[0])] = s
					}
				}
				return true
			})
			for k, wv := range want {
				dir, str, _ := strings.Cut(wv, ":")
				c.Check(rs[dir] == str, "R15.4", "reflect.ChanDir.String "+k, sf.Pos(), str, fmt.Sprintf("reflect prints %q for %s, the compiler's type string uses %q", rs[dir], dir, str))
			}
		}
	}
	// kind names table in the reflect port indexed in abi.Kind order
	if cl := pkgVarLit(rfl, "kindNames"); cl != nil {
		n := 0
		for _, el := range cl.Elts {
			kv, ok := el.(*ast.KeyValueExpr)
			if !ok {
				continue
			}
			k, okk := constInt(rfl.TypesInfo, kv.Key)
			s, oks := constString(rfl.TypesInfo, kv.Value)
			if !okk || !oks {
				continue
			}
			n++
			name := exprStr(kv.Key)
			o, isC := rtabi.Types.Scope().Lookup(name).(*types.Const)
			var av int64 = -1
			if isC {
				av, _ = constValInt(o)
			}
			want := strings.ToLower(name)
			switch name {
			case "Pointer":
				want = "ptr"
			case "UnsafePointer":
				want = "unsafe.Pointer"
			}
			c.Check(k == av && s == want, "R15.4", "reflect kind name "+name, kv.Pos(), fmt.Sprintf("%d:%s", k, s), fmt.Sprintf("kindNames[%s=%d] = %q, runtime kind %s is %d and prints %q", name, k, s, name, av, want))
		}
		if n < 27 {
			c.Undecided("R15.4", "reflect kind names", cl.Pos(), fmt.Sprintf("%d entries", n))
		}
	} else {
		c.Bad("R15.4", "reflect.kindNames", 0, "table not found")
	}
}

func init() {
	addMutant(Mutant{Prop: "C15", Name: "map-elem-base-string", File: "ssa/abi/type.go", Old: "return \"map[\" + b.reflectTypeArgString(t.Key()) + \"]\" + b.reflectTypeArgString(t.Elem())", New: "return \"map[\" + b.reflectTypeArgString(t.Key()) + \"]\" + b.reflectTypeArgBaseString(t.Elem())", Expect: "R15.4 abi.Builder.reflectTypeArgBaseString Map element"})
	addMutant(Mutant{Prop: "C15", Name: "rune-spelling", File: "ssa/abi/type.go", Old: "\t\tcase types.Rune:\n\t\t\treturn \"int32\"\n\t\t}\n\t\treturn t.String()\n\tcase *types.Pointer:", New: "\t\tcase types.Rune:\n\t\t\treturn \"rune\"\n\t\t}\n\t\treturn t.String()\n\tcase *types.Pointer:", Expect: "R15.4 abi.Builder.Str spells Rune"})
	addMutant(Mutant{Prop: "C15", Name: "chandir-swapped", File: "ssa/abi/abi.go", Old: "\t\treturn abi.SendDir, \"chan<-\"", New: "\t\treturn abi.SendDir, \"<-chan\"", Expect: "R15.4 abi.ChanDir SendOnly"})
	addMutant(Mutant{Prop: "C15", Name: "sliceof-wrong-flag", File: "ssa/expr.go", Old: "\tcase \"reflect.SliceOf\":\n\t\tpkg.NeedAbiInit |= ReflectSliceOf", New: "\tcase \"reflect.SliceOf\":\n\t\tpkg.NeedAbiInit |= ReflectStructOf", Expect: "R15.3 checkReflect reflect.SliceOf"})
	addMutant(Mutant{Prop: "C15", Name: "dynamic-method-pruned", File: "ssa/expr.go", Old: "\t\t\t\tpkg.NeedAbiInit |= ReflectMethodByName\n\t\t\t\treturn\n\t\t\t}\n\t\t\tpkg.NeedAbiInit |= ReflectMethodDynamic", New: "\t\t\t\tpkg.NeedAbiInit |= ReflectMethodByName\n\t\t\t\treturn\n\t\t\t}", Expect: "R15.3 checkReflect reflect.Value.MethodByName"})
	addMutant(Mutant{Prop: "C15", Name: "filter-map-arm-flag", File: "internal/build/main_module.go", Old: "\t\tif abiInit&llssa.ReflectMapOf != 0 {", New: "\t\tif abiInit&llssa.ReflectSliceOf != 0 {", Expect: "R15.3 filterAbiSymbol keeps Map"})
	addMutant(Mutant{Prop: "C15", Name: "structfield-tag-dropped", File: "ssa/abitype.go", Old: "values = append(values, b.Str(t.Tag(i)).impl)", New: "values = append(values, b.Str(\"\").impl)", Expect: "R15.1 descriptor StructField.Tag_"})
	addMutant(Mutant{Prop: "C15", Name: "cvtstruct-tags-nil", File: "ssa/type_cvt.go", Old: "return types.NewStruct(flds, tags), true", New: "_ = tags\n\t\treturn types.NewStruct(flds, nil), true", Expect: "R15.2 ssa.goTypes.cvtStruct NewStruct#1 keeps tags"})
}
