package main

import (
	"fmt"
	"go/ast"
	"go/types"
	"math/big"
	"strings"

	"golang.org/x/tools/go/packages"
)

// Hooks shared by the abstract evaluation of runtime functions.
func rtHooks(lockDepth *int, events *[]string) map[string]hookFn {
	h := map[string]hookFn{}
	h["internal/clite.Advance"] = func(it *interp, c *ast.CallExpr, a []*val) (*val, bool) {
		off := a[1].String()
		if a[1].k == vInt && a[1].i == 0 {
			return a[0], true // advancing by 0 is the same pointer
		}
		return ivOpaque("adv(" + a[0].String() + "," + off + ")"), true
	}
	h["internal/runtime/math.MulUintptr"] = func(it *interp, c *ast.CallExpr, a []*val) (*val, bool) {
		x := new(big.Int).SetUint64(uint64(a[0].i))
		y := new(big.Int).SetUint64(uint64(a[1].i))
		p := new(big.Int).Mul(x, y)
		over := p.BitLen() > 64
		return &val{k: vTuple, tup: []*val{{k: vInt, i: int64(p.Uint64()), arith: true}, ivBool(over)}}, true
	}
	for _, n := range []string{"internal/runtime.panicmakeslicelen", "internal/runtime.panicmakeslicecap"} {
		nn := n
		h[n] = func(it *interp, c *ast.CallExpr, a []*val) (*val, bool) {
			panic(interpPanic{nn[strings.LastIndex(nn, ".")+1:]})
		}
	}
	h["*"] = func(it *interp, c *ast.CallExpr, a []*val) (*val, bool) {
		f := calleeOf(it.info, c)
		name := ""
		if f != nil {
			name = shortName(f)
		}
		if events != nil {
			*events = append(*events, name)
		}
		switch {
		case strings.HasSuffix(name, "sync.Mutex.Lock"):
			if lockDepth != nil {
				*lockDepth++
			}
			return ivOpaque("void"), true
		case strings.HasSuffix(name, "sync.Mutex.Unlock"):
			if lockDepth != nil {
				*lockDepth--
			}
			return ivOpaque("void"), true
		}
		// any other call: opaque result (allocation, memcpy, notify, broadcast ...)
		return ivOpaque(name + "()"), true
	}
	return h
}

var e6Scales = []int64{1, 3, 1000}

// evalNewSlice3: panics <=> not(0<=i<=j<=k<=cap); results len=j-i, cap=k-i, data advanced by i*eltSize
// whenever the result has capacity.
func evalNewSlice3(c *Ctx, rule string, rp *packages.Package) {
	fd := findFunc(rp, "NewSlice3")
	if fd == nil {
		c.Bad(rule, "runtime.NewSlice3", 0, "function not found")
		return
	}
	c.nfuncs++
	const elt = 8
	orders := weakOrderings(5) // cap,i,j,k,0
	n, bad := 0, ""
	var badData string
	for _, r := range orders {
		for _, sc := range e6Scales {
			v := valuation(r, 4, sc)
			cp, i, j, k := v[0], v[1], v[2], v[3]
			out := runFunc(rp.TypesInfo, fd, []*val{ivOpaque("base"), ivInt(elt), ivInt(cp), ivInt(i), ivInt(j), ivInt(k)}, rtHooks(nil, nil))
			n++
			if out.Err != "" {
				c.Undecided(rule, "runtime.NewSlice3 bounds predicate", fd.Pos(), "outside the interpretable fragment: "+out.Err)
				return
			}
			want := !(0 <= i && i <= j && j <= k && k <= cp)
			if out.Panicked != want && bad == "" {
				bad = fmt.Sprintf("cap=%d i=%d j=%d k=%d: panics=%v, Go requires %v", cp, i, j, k, out.Panicked, want)
			}
			if !out.Panicked && !want && len(out.Results) == 1 && out.Results[0].k == vStruct {
				s := out.Results[0]
				if s.f["len"].i != j-i || s.f["cap"].i != k-i {
					if bad == "" {
						bad = fmt.Sprintf("cap=%d i=%d j=%d k=%d: result len=%s cap=%s, want %d %d", cp, i, j, k, s.f["len"], s.f["cap"], j-i, k-i)
					}
				}
				wantData := "base"
				if i != 0 {
					wantData = fmt.Sprintf("adv(base,%d)", i*elt)
				}
				got := s.f["data"].String()
				if k-i > 0 && got != wantData && badData == "" {
					badData = fmt.Sprintf("cap=%d i=%d j=%d k=%d: data=%s, want %s (the window must start at element i whenever capacity remains)", cp, i, j, k, got, wantData)
				}
				if k-i == 0 && got != wantData && got != "base" && badData == "" {
					badData = fmt.Sprintf("cap=%d i=%d j=%d k=%d: data=%s", cp, i, j, k, got)
				}
			}
		}
	}
	c.evals += n
	c.Check(bad == "", rule, "runtime.NewSlice3 bounds predicate", fd.Pos(), fmt.Sprintf("panics <=> not(0<=i<=j<=k<=cap), len=j-i, cap=k-i on all %d weak orderings x %d scalings", len(orders), len(e6Scales)), bad)
	c.Check(badData == "", rule, "runtime.NewSlice3 window start", fd.Pos(), "data = base + i*eltSize whenever k-i > 0", badData)
}

func evalStringSlice(c *Ctx, rule string, rp *packages.Package) {
	fd := findFunc(rp, "StringSlice")
	if fd == nil {
		c.Bad(rule, "runtime.StringSlice", 0, "function not found")
		return
	}
	c.nfuncs++
	orders := weakOrderings(4) // len,i,j,0
	n, bad := 0, ""
	for _, r := range orders {
		for _, sc := range e6Scales {
			v := valuation(r, 3, sc)
			ln, i, j := v[0], v[1], v[2]
			if ln < 0 {
				continue // a string length is never negative
			}
			base := ivStruct(map[string]*val{"data": ivOpaque("sdata"), "len": ivInt(ln)})
			out := runFunc(rp.TypesInfo, fd, []*val{base, ivInt(i), ivInt(j)}, rtHooks(nil, nil))
			n++
			if out.Err != "" {
				c.Undecided(rule, "runtime.StringSlice bounds predicate", fd.Pos(), "outside the interpretable fragment: "+out.Err)
				return
			}
			want := !(0 <= i && i <= j && j <= ln)
			if out.Panicked != want && bad == "" {
				bad = fmt.Sprintf("len=%d i=%d j=%d: panics=%v, Go requires %v", ln, i, j, out.Panicked, want)
			}
			if !out.Panicked && !want && len(out.Results) == 1 && out.Results[0].k == vStruct {
				s := out.Results[0]
				wantData := "sdata"
				if i != 0 {
					wantData = fmt.Sprintf("adv(sdata,%d)", i)
				}
				if s.f["len"].i != j-i && bad == "" {
					bad = fmt.Sprintf("len=%d i=%d j=%d: result len %s, want %d", ln, i, j, s.f["len"], j-i)
				}
				if j-i > 0 && s.f["data"].String() != wantData && bad == "" {
					bad = fmt.Sprintf("len=%d i=%d j=%d: data=%s, want %s", ln, i, j, s.f["data"], wantData)
				}
			}
		}
	}
	c.evals += n
	c.Check(bad == "", rule, "runtime.StringSlice bounds predicate", fd.Pos(), fmt.Sprintf("panics <=> not(0<=i<=j<=len); window (data+i, j-i) on all weak orderings (%d evaluations)", n), bad)
}

func evalMakeSlice(c *Ctx, rule string, rp *packages.Package) {
	fd := findFunc(rp, "MakeSlice")
	if fd == nil {
		c.Bad(rule, "runtime.MakeSlice", 0, "function not found")
		return
	}
	c.nfuncs++
	maxAlloc := int64(1) << 47
	if o, ok := rp.Types.Scope().Lookup("maxAlloc").(*types.Const); ok {
		if v, ok := constValInt(o); ok {
			maxAlloc = v
		}
	}
	n, bad := 0, ""
	try := func(ln, cp, et int64) {
		out := runFunc(rp.TypesInfo, fd, []*val{ivInt(ln), ivInt(cp), ivInt(et)}, rtHooks(nil, nil))
		n++
		if out.Err != "" {
			if bad == "" {
				bad = "outside the interpretable fragment: " + out.Err
			}
			return
		}
		mem := new(big.Int).Mul(big.NewInt(et), new(big.Int).SetUint64(uint64(cp)))
		tooBig := mem.Cmp(big.NewInt(maxAlloc)) > 0
		want := ln < 0 || ln > cp || tooBig
		if out.Panicked != want && bad == "" {
			bad = fmt.Sprintf("make(len=%d, cap=%d) elemsize=%d: panics=%v, Go requires %v", ln, cp, et, out.Panicked, want)
		}
		if !out.Panicked && len(out.Results) == 1 && out.Results[0].k == vStruct {
			s := out.Results[0]
			if (s.f["len"].i != ln || s.f["cap"].i != cp) && bad == "" {
				bad = fmt.Sprintf("make(len=%d, cap=%d): header len=%s cap=%s", ln, cp, s.f["len"], s.f["cap"])
			}
		}
	}
	for _, et := range []int64{0, 1, 8, 24} {
		for _, r := range weakOrderings(3) { // len,cap,0
			for _, sc := range e6Scales {
				v := valuation(r, 2, sc)
				try(v[0], v[1], et)
			}
		}
		// around the allocation limit
		for _, cp := range []int64{maxAlloc / 8, maxAlloc/8 + 1, maxAlloc, maxAlloc + 1, 1 << 62, -1, -1 << 62} {
			try(0, cp, et)
			try(cp, cp, et)
			try(1, cp, et)
			try(-1, cp, et)
		}
	}
	c.evals += n
	if strings.HasPrefix(bad, "outside") {
		c.Undecided(rule, "runtime.MakeSlice guard", fd.Pos(), bad)
		return
	}
	c.Check(bad == "", rule, "runtime.MakeSlice guard", fd.Pos(), fmt.Sprintf("panics <=> len<0 or len>cap or cap*elemsize exceeds maxAlloc, on %d valuations (orderings of len,cap,0 x element sizes 0,1,8,24 + limit points)", n), bad)
}

// evalSliceCopy: copies min(dst.len, num) elements with memmove, returns that count.
func evalSliceCopy(c *Ctx, rule string, rp *packages.Package) {
	fd := findFunc(rp, "SliceCopy")
	if fd == nil {
		c.Bad(rule, "runtime.SliceCopy", 0, "function not found")
		return
	}
	c.nfuncs++
	n, bad := 0, ""
	for _, r := range weakOrderings(3) { // dst.len, num, 0
		for _, sc := range e6Scales {
			v := valuation(r, 2, sc)
			dl, num := v[0], v[1]
			if dl < 0 || num < 0 {
				continue
			}
			var ev []string
			var copied *val
			hooks := rtHooks(nil, &ev)
			for _, nm := range []string{"internal/clite.Memmove", "internal/clite.Memcpy"} {
				name := nm
				hooks[name] = func(it *interp, call *ast.CallExpr, a []*val) (*val, bool) {
					ev = append(ev, name)
					copied = a[2]
					return ivOpaque("void"), true
				}
			}
			dst := ivStruct(map[string]*val{"data": ivOpaque("dst"), "len": ivInt(dl), "cap": ivInt(dl)})
			out := runFunc(rp.TypesInfo, fd, []*val{dst, ivOpaque("src"), ivInt(num), ivInt(8)}, hooks)
			n++
			if out.Err != "" {
				c.Undecided(rule, "runtime.SliceCopy count", fd.Pos(), "outside the interpretable fragment: "+out.Err)
				return
			}
			want := dl
			if num < want {
				want = num
			}
			if (out.Panicked || len(out.Results) != 1 || out.Results[0].i != want) && bad == "" {
				bad = fmt.Sprintf("len(dst)=%d n=%d: returns %v, want %d", dl, num, out.Results, want)
			}
			if want > 0 {
				if copied == nil || copied.i != want*8 {
					if bad == "" {
						bad = fmt.Sprintf("len(dst)=%d n=%d: %v bytes moved, want %d", dl, num, copied, want*8)
					}
				}
				for _, e := range ev {
					if e == "internal/clite.Memcpy" && bad == "" {
						bad = "copies with memcpy: undefined for overlapping source and destination (copy(s[1:], s))"
					}
				}
			}
		}
	}
	c.evals += n
	c.Check(bad == "", rule, "runtime.SliceCopy count", fd.Pos(), fmt.Sprintf("moves min(len(dst), n) elements with memmove and returns the count (%d evaluations)", n), bad)
}
