package main

import (
	"fmt"
	"go/ast"
	"go/token"
	"go/types"
	"strings"

	"golang.org/x/tools/go/packages"
)

func init() { register("C09", checkC09) }

func checkC09(c *Ctx) (string, error) {
	w, err := loadMain(defaultCfg, "ssa", "cl", "internal/cabi")
	if err != nil {
		return "", err
	}
	c.use(w)
	sp, cp, ab := w.Main("ssa"), w.Main("cl"), w.Main("internal/cabi")
	rw, err := loadRT(defaultCfg, "internal/runtime")
	if err != nil {
		return "", err
	}
	c.use(rw)
	c.use(w)
	rp := rw.RT("internal/runtime")

	c.Rule("R09.1", "C strings: every buffer handed to CStrCopy holds len(s)+1 bytes of the same string; CStrCopy copies len bytes and always writes the terminating NUL", 5)
	c.Rule("R09.2", "the C variadic marker is one constant, tested on the last parameter wherever variadic-ness is decided", 4)
	c.Rule("R09.3", "amd64 aggregate classification: an eightbyte is passed as a float vector only if ALL its fields are floats (System V class merging)", 2)

	// ---------------- R09.1 emitter side
	n := 0
	for _, fd := range allFuncs(sp) {
		v := newFnView(sp, fd)
		for _, call := range v.findRTCalls(fd.Body, "CStrCopy") {
			n++
			_, args, _ := v.rtCall(call)
			key := fmt.Sprintf("ssa.%s CStrCopy#%d buffer", declName(fd), n)
			if len(args) != 2 {
				c.Bad("R09.1", key, call.Pos(), "CStrCopy called with other than (buffer, string)")
				continue
			}
			str := exprStr(args[1])
			// buffer = Alloca/allocUninited/Alloc...(n1), n1 = BinOp(ADD, StringLen(str), Val(1))
			ok := false
			why := "buffer is not allocated from len(" + str + ")+1"
			if bn, bargs, isCall := v.call(args[0]); isCall && (bn == "ssa.Builder.Alloca" || bn == "ssa.Builder.allocUninited" || bn == "ssa.Builder.AllocU" || bn == "ssa.Builder.malloc") && len(bargs) >= 1 {
				if sn, sargs, isBin := v.call(bargs[len(bargs)-1]); isBin && sn == "ssa.Builder.BinOp" && len(sargs) == 3 && v.constName(sargs[0]) == "go/token.ADD" {
					lenOK, oneOK := false, false
					for _, a := range sargs[1:] {
						if ln, la, isLen := v.call(a); isLen && ln == "ssa.Builder.StringLen" && len(la) == 1 && exprStr(la[0]) == str {
							lenOK = true
						}
						if vn, va, isVal := v.call(a); isVal && vn == "ssa.Program.Val" && len(va) == 1 {
							if x, isC := constInt(sp.TypesInfo, va[0]); isC && x == 1 {
								oneOK = true
							}
						}
					}
					ok = lenOK && oneOK
					if lenOK && !oneOK {
						why = "buffer holds len(" + str + ") bytes without room for the terminating NUL (one-byte overflow)"
					}
				}
			}
			c.Check(ok, "R09.1", key, call.Pos(), "len("+str+")+1 bytes", why)
		}
	}
	if n < 2 {
		c.Undecided("R09.1", "CStrCopy call sites", 0, fmt.Sprintf("%d sites found", n))
	}
	// runtime side
	if fd := findFunc(rp, "CStrCopy"); fd == nil {
		c.Bad("R09.1", "runtime.CStrCopy", 0, "function not found")
	} else {
		c.nfuncs++
		g := buildCFG(rp, fd)
		info := rp.TypesInfo
		isNul := func(n ast.Node) bool {
			as, ok := n.(*ast.AssignStmt)
			if !ok || len(as.Lhs) != 1 {
				return false
			}
			if v, isC := constInt(info, as.Rhs[0]); !isC || v != 0 {
				return false
			}
			s := strings.ReplaceAll(exprStr(as.Lhs[0]), " ", "")
			return strings.HasPrefix(s, "*(*int8)(c.Advance(dest,") || strings.HasPrefix(s, "*(*byte)(c.Advance(dest,")
		}
		_, skips := g.reach(g.entry(), isNul, nil, true, nil)
		c.Check(!skips, "R09.1", "runtime.CStrCopy always terminates the string", fd.Pos(), "dest[len] = 0 on every path", "a return is reachable without writing the terminating NUL (e.g. for the empty string): C reads past the buffer")
		// copy count = s.len; NUL offset = s.len
		okCopy, okOff := false, false
		v := newFnView(rp, fd)
		ast.Inspect(fd.Body, func(n ast.Node) bool {
			switch x := n.(type) {
			case *ast.CallExpr:
				if f := calleeOf(info, x); f != nil && (f.Name() == "Memcpy" || f.Name() == "Memmove") && len(x.Args) == 3 {
					cnt := strings.ReplaceAll(exprStr(v.res(x.Args[2])), " ", "")
					src := strings.ReplaceAll(exprStr(x.Args[1]), " ", "")
					if (cnt == "uintptr(n)" || cnt == "uintptr(s.len)") && src == "s.data" && exprStr(x.Args[0]) == "dest" {
						okCopy = true
					}
				}
			case *ast.AssignStmt:
				if isNul(x) {
					s := strings.ReplaceAll(exprStr(x.Lhs[0]), " ", "")
					okOff = strings.Contains(s, "c.Advance(dest,n)") || strings.Contains(s, "c.Advance(dest,s.len)")
				}
			}
			return true
		})
		nDef := strings.ReplaceAll(exprStr(v.res(&ast.Ident{Name: "n"})), " ", "")
		_ = nDef
		c.Check(okCopy && okOff, "R09.1", "runtime.CStrCopy copies len bytes and terminates at offset len", fd.Pos(), "memcpy(dest, data, len); dest[len] = 0", "the copy length or the NUL position is not the string length")
	}
	if fd := findFunc(rp, "CStrDup"); fd != nil {
		ok := false
		for _, call := range callsIn(fd.Body) {
			if f := calleeOf(rp.TypesInfo, call); f != nil && strings.HasPrefix(f.Name(), "Alloc") && len(call.Args) == 1 {
				ok = strings.ReplaceAll(exprStr(call.Args[0]), " ", "") == "uintptr(s.len+1)"
			}
		}
		c.Check(ok, "R09.1", "runtime.CStrDup buffer", fd.Pos(), "len+1 bytes", "the duplicate's buffer is not len+1 bytes")
	}

	// ---------------- R09.2
	lit := 0
	for _, p := range []*packages.Package{sp, cp, ab} {
		for _, f := range p.Syntax {
			ast.Inspect(f, func(n ast.Node) bool {
				if bl, ok := n.(*ast.BasicLit); ok && bl.Kind == token.STRING && strings.Trim(bl.Value, "\"`") == "__llgo_va_list" {
					lit++
				}
				return true
			})
		}
	}
	c.Check(lit == 1, "R09.2", "variadic marker spelled once", 0, "only in the NameValist constant", fmt.Sprintf("the marker string appears %d times: two spellings can drift apart", lit))
	if fd := findFunc(sp, "HasNameValist"); fd != nil {
		s := strings.ReplaceAll(nodeSrc(fd.Body), " ", "")
		c.Check(strings.Contains(s, "params.At(params.Len()-1).Name()==NameValist"), "R09.2", "ssa.HasNameValist tests the last parameter", fd.Pos(), "params.At(Len-1).Name() == NameValist", "variadic-ness is not decided by the LAST parameter's marker name: "+s)
	}
	// every other decision site uses the constant or the helper
	for _, p := range []*packages.Package{sp, cp} {
		short := strings.TrimPrefix(p.PkgPath, mainMod+"/")
		k := 0
		for _, fd := range allFuncs(p) {
			ast.Inspect(fd.Body, func(n ast.Node) bool {
				be, ok := n.(*ast.BinaryExpr)
				if !ok || be.Op != token.EQL {
					return true
				}
				if o := usedObj(p.TypesInfo, be.Y); o != nil && o.Name() == "NameValist" {
					k++
					// left side must be <last param>.Name()
					l := strings.ReplaceAll(exprStr(be.X), " ", "")
					okLast := strings.Contains(l, "Len()-1") || strings.HasPrefix(l, "last.")
					c.Check(okLast, "R09.2", fmt.Sprintf("%s.%s marker test #%d on the last parameter", short, declName(fd), k), be.Pos(), l, "marker compared against a parameter other than the last: "+l)
				}
				return true
			})
		}
	}

	// ---------------- R09.3
	gi := findFunc(ab, "TypeInfoAmd64.GetTypeInfo")
	if gi == nil {
		c.Bad("R09.3", "cabi.TypeInfoAmd64.GetTypeInfo", 0, "function not found")
	} else {
		c.nfuncs++
		k := 0
		ast.Inspect(gi.Body, func(n ast.Node) bool {
			is, ok := n.(*ast.IfStmt)
			if !ok {
				return true
			}
			// does this branch (directly) produce <2 x float>?
			produces := false
			for _, st := range is.Body.List {
				if _, nested := st.(*ast.IfStmt); nested {
					continue // judged at the innermost condition
				}
				ast.Inspect(st, func(x ast.Node) bool {
					if call, isCall := x.(*ast.CallExpr); isCall {
						if f := calleeOf(ab.TypesInfo, call); f != nil && f.Name() == "VectorType" && len(call.Args) == 2 && strings.Contains(exprStr(call.Args[0]), "FloatType()") {
							produces = true
						}
					}
					return true
				})
			}
			if !produces {
				return true
			}
			k++
			cond := strings.ReplaceAll(exprStr(is.Cond), " ", "")
			// ALL: two equality tests against FloatType joined by &&, or checkTypes(..., FloatType())
			nEq := strings.Count(cond, "==ctx.FloatType()")
			all := (nEq >= 2 && !strings.Contains(cond, "||")) || strings.Contains(cond, "checkTypes(")
			any := strings.Contains(cond, "hasTypes(") || (nEq >= 1 && strings.Contains(cond, "||"))
			c.Check(all && !any, "R09.3", fmt.Sprintf("cabi.amd64 float-vector eightbyte #%d requires all fields float", k), is.Pos(), cond, "an eightbyte is passed as <2 x float> when only SOME of its fields are floats ("+cond+"): System V classifies a mixed int/float eightbyte as INTEGER, so C expects it in a general-purpose register")
			return true
		})
		if k < 2 {
			c.Undecided("R09.3", "cabi.amd64 float-vector sites", gi.Pos(), fmt.Sprintf("%d sites producing <2 x float> found, expected 2", k))
		}
	}
	_ = types.Typ
	checkC09b(c, ab, sp)
	checkCToGoCopies(c, rp)
	checkNoStoreThroughCast(c, ab)
	checkCFuncCallbackWrapping(c, ab)
	return "C09 (structural clauses only): the parameter-slot contract of the C-ABI rewriter (signature, body prologue, call site and callback wrapper agree per classification kind; one forwarded value per parameter; sret slot; result kinds handled); a classifier for every architecture name a build can select; the in-memory size limit of each ABI; plus: the size of every buffer handed to runtime.CStrCopy (len+1 of the same string), CStrCopy's copy length and its NUL store on every path; a single spelling of the C-variadic marker tested on the last parameter at every decision site; the System V rule that an eightbyte becomes a float vector only if all of its fields are floats. NOT decided / not applicable: register classes of aggregates that fit registers (beyond the all-float rule), the values moved by the rewriting code, agreement with the host C compiler's ABI - the oracle is a program outside the source.", nil
}

func init() {
	addMutant(Mutant{Prop: "C09", Name: "cstr-buffer-no-nul-room", File: "ssa/memory.go", Old: "\tn := b.StringLen(gostr)\n\tn1 := b.BinOp(token.ADD, n, b.Prog.Val(1))\n\tcstr := b.Alloca(n1)", New: "\tn := b.StringLen(gostr)\n\tcstr := b.Alloca(n)", Expect: "R09.1 ssa.Builder.AllocaCStr"})
	addMutant(Mutant{Prop: "C09", Name: "cstrcopy-empty-early-return", File: "runtime/internal/runtime/z_string.go", Old: "\tn := s.len\n\tc.Memcpy(dest, s.data, uintptr(n))", New: "\tn := s.len\n\tif n == 0 {\n\t\treturn (*int8)(dest)\n\t}\n\tc.Memcpy(dest, s.data, uintptr(n))", Expect: "R09.1 runtime.CStrCopy always terminates"})
	addMutant(Mutant{Prop: "C09", Name: "valist-first-param", File: "ssa/decl.go", Old: "params.At(params.Len()-1).Name() == NameValist", New: "params.At(0).Name() == NameValist", Expect: "R09.2"})
	addMutant(Mutant{Prop: "C09", Name: "amd64-any-float", File: "internal/cabi/arch.go", Old: "} else if len(subs) == 2 && subs[0] == ctx.FloatType() && subs[1] == ctx.FloatType() {", New: "} else if len(subs) == 2 && hasTypes(subs, ctx.FloatType()) {", Expect: "R09.3 cabi.amd64 float-vector"})
}
