package main

import (
	"fmt"
	"go/ast"
	"go/token"
	"go/types"
	"os"
	"path/filepath"
	"sort"
	"strings"

	"golang.org/x/tools/go/packages"
	"golang.org/x/tools/go/ssa"
	"golang.org/x/tools/go/ssa/ssautil"
)

const (
	repoDir   = "/repo"
	mainMod   = "github.com/goplus/llgo"
	rtMod     = "github.com/goplus/llgo/runtime"
	rtPkgPath = rtMod + "/internal/runtime"
)

// LoadCfg is one build configuration.
type LoadCfg struct {
	GOOS, GOARCH string
	Tags         []string
	Toolchain    string // GOTOOLCHAIN for the go list driver; default go1.24.0
}

func (l LoadCfg) String() string {
	s := l.GOOS + "/" + l.GOARCH
	if len(l.Tags) > 0 {
		s += "+" + strings.Join(l.Tags, ",")
	}
	if l.Toolchain != "" && l.Toolchain != "go1.24.0" {
		s += "@" + l.Toolchain
	}
	return s
}

var defaultCfg = LoadCfg{GOOS: "linux", GOARCH: "amd64"}

// sharedFset is used by every load of one check run, so positions of both modules can be rendered.
var sharedFset = token.NewFileSet()

// overlay is the process-wide in-memory file replacement used by selftest mutants.
var overlay map[string][]byte

// World is a set of type-checked packages of one module under one configuration.
type World struct {
	Cfg   LoadCfg
	Fset  *token.FileSet
	Pkgs  map[string]*packages.Package // by import path
	Roots []*packages.Package
	prog  *ssa.Program
	spkgs map[string]*ssa.Package
}

func loadWorld(dir string, lc LoadCfg, extraTags []string, patterns []string) (*World, error) {
	tags := append(append([]string{}, extraTags...), lc.Tags...)
	tc := lc.Toolchain
	if tc == "" {
		tc = "go1.24.0"
	}
	env := []string{}
	for _, e := range os.Environ() {
		k, _, _ := strings.Cut(e, "=")
		switch k {
		case "GOFLAGS", "GOPROXY", "GOWORK", "GOOS", "GOARCH", "GOTOOLCHAIN", "GOSUMDB", "CGO_ENABLED":
			continue
		}
		env = append(env, e)
	}
	env = append(env, "GOFLAGS=-mod=mod", "GOPROXY=off", "GOWORK=off", "GOTOOLCHAIN="+tc,
		"GOOS="+lc.GOOS, "GOARCH="+lc.GOARCH)
	if lc.GOOS != "linux" || lc.GOARCH != "amd64" {
		env = append(env, "CGO_ENABLED=0")
	}
	fset := sharedFset
	cfg := &packages.Config{
		Mode: packages.NeedName | packages.NeedFiles | packages.NeedCompiledGoFiles | packages.NeedImports |
			packages.NeedTypes | packages.NeedSyntax | packages.NeedTypesInfo | packages.NeedTypesSizes | packages.NeedModule,
		Dir:     dir,
		Env:     env,
		Fset:    fset,
		Overlay: overlay,
	}
	if len(tags) > 0 {
		cfg.BuildFlags = []string{"-tags=" + strings.Join(tags, ",")}
	}
	pkgs, err := packages.Load(cfg, patterns...)
	if err != nil {
		return nil, fmt.Errorf("packages.Load %s %v: %w", dir, patterns, err)
	}
	w := &World{Cfg: lc, Fset: fset, Pkgs: map[string]*packages.Package{}, Roots: pkgs}
	var errs []string
	for _, p := range pkgs {
		for _, e := range p.Errors {
			errs = append(errs, p.PkgPath+": "+e.Error())
		}
		if p.Types == nil || p.TypesInfo == nil || len(p.Syntax) == 0 {
			errs = append(errs, p.PkgPath+": no syntax/types")
		}
		w.Pkgs[p.PkgPath] = p
	}
	if len(errs) > 0 {
		if len(errs) > 8 {
			errs = errs[:8]
		}
		return nil, fmt.Errorf("load %s [%s]: type errors:\n  %s", dir, lc, strings.Join(errs, "\n  "))
	}
	if len(pkgs) < len(patterns) {
		return nil, fmt.Errorf("load %s: %d packages for %d patterns", dir, len(pkgs), len(patterns))
	}
	alphaNormalise(pkgs)
	return w, nil
}

// loadMain loads packages of the main module (paths relative to module root, e.g. "ssa").
func loadMain(lc LoadCfg, rel ...string) (*World, error) {
	var pats []string
	for _, r := range rel {
		pats = append(pats, mainMod+"/"+r)
	}
	return loadWorld(repoDir, lc, []string{"llvm14"}, pats)
}

// loadRT loads packages of the runtime module (paths relative to /repo/runtime).
func loadRT(lc LoadCfg, rel ...string) (*World, error) {
	var pats []string
	for _, r := range rel {
		pats = append(pats, rtMod+"/"+r)
	}
	return loadWorld(filepath.Join(repoDir, "runtime"), lc, nil, pats)
}

func (w *World) Main(rel string) *packages.Package { return w.Pkgs[mainMod+"/"+rel] }
func (w *World) RT(rel string) *packages.Package   { return w.Pkgs[rtMod+"/"+rel] }

// SSA builds (once) go/ssa for the root packages.
func (w *World) SSA() *ssa.Program {
	if w.prog != nil {
		return w.prog
	}
	prog, spkgs := ssautil.Packages(w.Roots, ssa.InstantiateGenerics)
	w.spkgs = map[string]*ssa.Package{}
	for i, sp := range spkgs {
		if sp != nil {
			sp.Build()
			w.spkgs[w.Roots[i].PkgPath] = sp
		}
	}
	w.prog = prog
	return prog
}

func (w *World) SSAPkg(path string) *ssa.Package {
	w.SSA()
	return w.spkgs[path]
}

// register records what was analysed into the evidence.
func (c *Ctx) use(w *World) {
	c.fset = w.Fset
	for _, p := range w.Roots {
		c.pkgs[p.PkgPath] = true
	}
	lbl := w.Cfg.String()
	for _, x := range c.configs {
		if x == lbl {
			return
		}
	}
	c.configs = append(c.configs, lbl)
	sort.Strings(c.configs)
}

// ---------------------------------------------------------------------------
// lookup helpers

// FuncDecl finds a function or method declaration: name is "F" or "T.M" (receiver base type name).
func findFunc(p *packages.Package, name string) *ast.FuncDecl {
	recv, fn, isMeth := strings.Cut(name, ".")
	if !isMeth {
		fn, recv = recv, ""
	}
	for _, f := range p.Syntax {
		for _, d := range f.Decls {
			fd, ok := d.(*ast.FuncDecl)
			if !ok || fd.Name.Name != fn {
				continue
			}
			if recv == "" && fd.Recv == nil {
				return fd
			}
			if recv != "" && fd.Recv != nil && len(fd.Recv.List) == 1 && recvBase(fd.Recv.List[0].Type) == recv {
				return fd
			}
		}
	}
	return nil
}

func recvBase(e ast.Expr) string {
	for {
		switch x := e.(type) {
		case *ast.StarExpr:
			e = x.X
		case *ast.ParenExpr:
			e = x.X
		case *ast.IndexExpr:
			e = x.X
		case *ast.IndexListExpr:
			e = x.X
		case *ast.Ident:
			return x.Name
		default:
			return ""
		}
	}
}

// funcName renders a FuncDecl as "T.M" or "F".
func declName(fd *ast.FuncDecl) string {
	if fd.Recv != nil && len(fd.Recv.List) == 1 {
		return recvBase(fd.Recv.List[0].Type) + "." + fd.Name.Name
	}
	return fd.Name.Name
}

// allFuncs lists the function declarations (with bodies) of a package.
func allFuncs(p *packages.Package) []*ast.FuncDecl {
	var out []*ast.FuncDecl
	for _, f := range p.Syntax {
		for _, d := range f.Decls {
			if fd, ok := d.(*ast.FuncDecl); ok && fd.Body != nil {
				out = append(out, fd)
			}
		}
	}
	return out
}

// lookupType returns the named type pkg.name.
func lookupNamed(p *types.Package, name string) *types.Named {
	if p == nil {
		return nil
	}
	o := p.Scope().Lookup(name)
	if o == nil {
		return nil
	}
	n, _ := o.Type().(*types.Named)
	return n
}

func structOf(n *types.Named) *types.Struct {
	if n == nil {
		return nil
	}
	s, _ := n.Underlying().(*types.Struct)
	return s
}

// fileOf returns the base file name of a position.
func fileOf(fset *token.FileSet, p token.Pos) string {
	return filepath.Base(fset.Position(p).Filename)
}
