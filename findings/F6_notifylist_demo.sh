#!/bin/bash
# Demonstration for fixed defect F6 (property C11): usage: F6_notifylist_demo.sh <path to sema_llgo.go>
# Copies the file into a scratch module with plain-Go stand-ins for the pthread wrappers and checks that a second
# Cond waiter (ticket 1, notify 0) does not return before it is notified, and that NotifyOne wakes ticket 0.
src=${1:-/repo/runtime/internal/lib/runtime/sema_llgo.go}
T=$(mktemp -d /tmp/f6demo.XXXX); trap 'rm -rf $T' EXIT
mkdir -p $T/psync $T/rt; printf 'module f6demo\n\ngo 1.21\n' > $T/go.mod
cat > $T/psync/psync.go <<'G'
package psync
import "sync"
type Mutex struct{ m sync.Mutex }
func (m *Mutex) Init(_ any) {}
func (m *Mutex) Lock()   { m.m.Lock() }
func (m *Mutex) Unlock() { m.m.Unlock() }
type Cond struct{ c *sync.Cond; mu sync.Mutex }
func (c *Cond) Init(_ any) {}
func (c *Cond) get(m *Mutex) *sync.Cond { c.mu.Lock(); defer c.mu.Unlock(); if c.c == nil { c.c = sync.NewCond(&m.m) }; return c.c }
func (c *Cond) Wait(m *Mutex)  { c.get(m).Wait() }
func (c *Cond) Signal()    { c.mu.Lock(); cc := c.c; c.mu.Unlock(); if cc != nil { cc.Signal() } }
func (c *Cond) Broadcast() { c.mu.Lock(); cc := c.c; c.mu.Unlock(); if cc != nil { cc.Broadcast() } }
type Once struct{ o sync.Once }
func (o *Once) Do(f func()) { o.o.Do(f) }
G
sed -e '/^\/\/go:linkname/d' -e 's#psync "github.com/goplus/llgo/runtime/internal/clite/pthread/sync"#psync "f6demo/psync"#' -e 's#latomic "github.com/goplus/llgo/runtime/internal/lib/sync/atomic"#latomic "sync/atomic"#' -e 's#^//go:build.*##' "$src" > $T/rt/sema.go
cat > $T/rt/stub.go <<'G'
package runtime
func throw(s string) { panic(s) }
func fatal(s string) { panic(s) }
func runtimeNano() int64 { return 0 }
G
cat > $T/rt/f6_test.go <<'G'
package runtime
import ("testing";"time")
func TestF6(t *testing.T) {
	var l notifyList
	t0 := sync_runtime_notifyListAdd(&l); t1 := sync_runtime_notifyListAdd(&l)
	d0, d1 := make(chan bool), make(chan bool)
	go func(){ sync_runtime_notifyListWait(&l, t1); close(d1) }()
	select { case <-d1: t.Fatal("waiter with ticket 1 returned although nothing was notified (Cond.Wait returned without Signal)"); case <-time.After(300*time.Millisecond): }
	go func(){ sync_runtime_notifyListWait(&l, t0); close(d0) }()
	time.Sleep(100*time.Millisecond)
	sync_runtime_notifyListNotifyOne(&l)
	select { case <-d0: case <-time.After(2*time.Second): t.Fatal("NotifyOne did not wake the waiter holding the oldest ticket") }
	select { case <-d1: t.Fatal("one NotifyOne released two waiters"); case <-time.After(200*time.Millisecond): }
	sync_runtime_notifyListNotifyOne(&l)
	select { case <-d1: case <-time.After(2*time.Second): t.Fatal("second NotifyOne lost") }
}
G
cd $T && GOFLAGS=-mod=mod GOPROXY=off GOWORK=off go test -count=1 -vet=off -run TestF6 ./rt 2>&1 | tail -6
