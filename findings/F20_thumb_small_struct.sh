#!/bin/sh
# F20 (known finding): for targets whose llvm-target starts with thumbv*/armv4t the C-ABI rewriter has no
# classifier, so a struct {char,char} is passed field by field (r0, r1) while C (AAPCS) expects it packed in r0.
# clang:  define i16 @fa([1 x i32] %0)      llgo without classifier: define {i8,i8} @fa({i8,i8} %0)
cat > /tmp/f20.ll <<'L'
target triple = "thumbv6m-unknown-unknown-eabi"
declare void @use({i8,i8})
define void @llgo_style() {
  call void @use({i8,i8} {i8 1, i8 2})
  ret void
}
declare void @use2([1 x i32])
define void @clang_style() {
  call void @use2([1 x i32] [i32 513])
  ret void
}
L
llc-14 -O1 -o - /tmp/f20.ll | grep -E "^[a-z_]+:|movs|ldr|bl"
rm -f /tmp/f20.ll
