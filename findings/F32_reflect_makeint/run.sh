#!/bin/sh
# Usage: run.sh <llgo-tree>
set -e
tree=${1:?tree}
here=$(cd "$(dirname "$0")" && pwd)
src=$tree/runtime/internal/lib/reflect/value.go
dir=$tree/runtime/internal/lib/reflect/zz_f32demo
rm -rf "$dir"; mkdir -p "$dir"
trap 'rm -rf "$dir"' EXIT
cp "$here/harness.go.txt" "$dir/harness.go"
{
  printf 'package main\n\nimport (\n\t"unsafe"\n)\n\nvar _ unsafe.Pointer\n\n'
  awk '/^type flag uintptr/{p=1} /^func \(v Value\) typ\(\)/{p=0} p' "$src"
  awk '/^func makeInt\(/{p=1} p{print} p&&/^}/{exit}' "$src"
  awk '/^func \(v Value\) Int\(\) int64/{p=1} p{print} p&&/^}/{exit}' "$src"
  awk '/^func \(v Value\) Uint\(\) uint64/{p=1} p{print} p&&/^}/{exit}' "$src"
} > "$dir/extracted.go"
cd "$tree/runtime"
GOFLAGS=-mod=mod GOPROXY=off GOTOOLCHAIN=go1.24.0 go run ./internal/lib/reflect/zz_f32demo
