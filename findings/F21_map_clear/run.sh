#!/bin/sh
# Usage: run.sh <worktree>
WT=${1:?worktree}
HERE=$(cd "$(dirname "$0")" && pwd)
SRC=$WT/runtime/internal/runtime
DST=$SRC/zz_f21
rm -rf "$DST"; mkdir -p "$DST" || exit 2
for f in map.go z_map.go alg.go hash64.go; do
  sed -e 's/^package runtime$/package mapharness/' -e '/^\/\/go:linkname /d' "$SRC/$f" > "$DST/$f" || exit 2
done
# the two memclr functions, verbatim from stubs.go
{ echo 'package mapharness'; echo 'import "unsafe"'; echo 'type cshim struct{}'; echo 'var c cshim'; echo 'func (cshim) Memset(p unsafe.Pointer, v int, n uintptr) unsafe.Pointer { b := unsafe.Slice((*byte)(p), n); for i := range b { b[i] = byte(v) }; return p }'; awk '/^func memclrHasPointers/,/^}/' "$SRC/stubs.go"; awk '/^func memclrNoHeapPointers/,/^}/' "$SRC/stubs.go"; } > "$DST/memclr_extracted.go"
cp "$HERE/shim.go.txt" "$DST/shim.go"; cp "$HERE/harness_test.go.txt" "$DST/harness_test.go"; cp "$HERE/clear_test.go.txt" "$DST/clear_test.go"
(cd "$WT/runtime" && GOFLAGS=-mod=mod GOPROXY=off GOTOOLCHAIN=go1.24.0 go test -vet=off -count=1 -timeout 120s -run 'TestF21' ./internal/runtime/zz_f21/)
rc=$?
rm -rf "$DST"
exit $rc
